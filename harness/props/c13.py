"""C13 — Hytera IPSC frames map to bursts identically by either decoder and re-encode (DESIGN §5 C13)."""
import json
import warnings

from common import impl_error

PROP = "C13"
MODULES = ["C13"]
GEN = ["Ipsc"]
MATCHERS = {}

# member orders of tools/extract_ipsc.py (indices on the line protocol)
PACKET = ["TypeA", "TypeB", "TerminatorWithLC", "PIHeader"]
CALL = ["PrivateCall", "GroupCall", "WakeupCall_2", "WakeupCall_c"]
FRAME = ["Data", "VoiceSync", "DataSyncOrCSBK", "DataHeader", "Voice", "Sync"]
SLOT = [
    "PrivacyIndicator", "VoiceLCHeader", "TerminatorWithLC", "CSBK", "DataHeader", "Rate12Data", "Rate34Data",
    "VoiceFrameA", "VoiceFrameB", "VoiceFrameC", "VoiceFrameD", "VoiceFrameE", "VoiceFrameF", "Wakeup",
    "VoiceOrDataSync", "Undefined",
]
TS = ["Timeslot_1", "Timeslot_2"]

# the frame layout as the property states it (values, independent of the library's tables)
PACKET_VALUES = {"TypeA": 0x41, "TypeB": 0x42, "TerminatorWithLC": 0x43, "PIHeader": 0x01}
CALL_VALUES = {"PrivateCall": 0, "GroupCall": 1, "WakeupCall_2": 2, "WakeupCall_c": 0x0C}
FRAME_VALUES = {"Data": 0x0000, "VoiceSync": 0x1111, "DataSyncOrCSBK": 0x3333, "DataHeader": 0x6666, "Voice": 0xBBBB, "Sync": 0xEEEE}
SLOT_VALUES = {n: 0x1111 * i for i, n in enumerate(SLOT)}
TS_VALUES = {"Timeslot_1": 0x1111, "Timeslot_2": 0x2222}
VOICE_SLOTS = {"VoiceFrameA", "VoiceFrameB", "VoiceFrameC", "VoiceFrameD", "VoiceFrameE", "VoiceFrameF"}

CAPTURED = [
    "5a5a5a5a0000000042000501020000002222eeee555533334000bd0000008000150000000800fd00230038003b0038003b00b41200447eb7ffffef0844400000fd0800003b382300",
    "5a5a5a5a0000000042000501020000002222dddd555500004000000000000000000000000000020002000000000000000000000000000000b2dd503250380c00000014000000ff01",
    "5a5a5a5a0300000041000501020000002222999911110000100038d424a26d410436c0dda2f46165307000904607a54d4715ff8e3685dd23255501e3000001000900000022072800",
    "5a5a5a5a8f00000043000501020000002222222255550000409c5e06ca0ac804e823d04aa04b9d1457ff5dd7dff52001600d7039003cc12d031c003cca0a01006f0000003c382300",
    "5a5a5a5a0000000042000501020000002222eeee11111111402800000000000000000000090028000700220068291110c8291110282a1110801d0067080901000900000022072800",
    "5a5a5a5aff00000041000501020000002222bbbb1111000040548adb76e648040a81cad1c5ba0176635063f37200816df708c868af68a235db99008e76e601000900000022072800",
    "5a5a5a5a0001000041000501020000002222cccc111100004006b83a07c49456750ece2681f6413100100000250e1c20ff8689eb34e57f442cc500f607c401000900000022072800",
    "5a5a5a5afb0000004100050102000000222277771111000040569bec50c139eee49d9eeae5fba716fd55f77d735f89eb6e689fea30a64bc52248002e50c101000900000022072800",
    "5a5a5a5ad40100004100050102000000222211111111000040f08047a3158e16287641f422596dc457ff5dd7def548310023e03c002e5124042a00fba315000075d40300a9352600",
    "5a5a5a5ad6010000410005010200000022227777111100004013e8b9528173612a00b96b81e86752fd55f77d715f00736b2ae8b9528173612a00006b5281000075d40300a9352600",
    "5a5a5a5add0100004100050102000000222288881111000040449eec52e0d60074d5ec1de09e01521032220111d9d5d61d749eec52e0d60174d5001d52e0000075d40300a9352600",
    "5a5a5a5adc0100004100050102000000222277771111000040568efd52e0d60075c5fd0de08e0752fd55f77d705fd5d61d759eec52e0d60174d5001d52e0000075d40300a9352600",
    "5a5a5a5adb01000041000501020000002222cccc111100004006dc8c16e4574cb8c4dfddc3ae417600100000260ec5f60d75aedf76c3f64675c5000d16e4000075d40300a9352600",
    "5a5a5a5ad22b00004100050102000000222244445555000040950a391d32802bb93b9221c163bd1557ff5dd7d5f52d5c5211f0218729d34aaa06006d1d3200003b38230063382300",
    "5a5a5a5a872a00004100050102000000222244445555000040910f39d932282ba139b224016ebd1557ff5dd7d5f5105c9a1132208b2d1b43aa0c006bd93200003b38230063382300",
    "5a5a5a5a862a00004100050102000000222266665555000040b02f25b5e2b622e2f2d276e5320d9657ff5dd7dcf51fe3a1ef2f2202032df2207200e2b5e20000633823003b382300",
    "5a5a5a5a852a00004100050102000000222244445555000040903b3141203d2865701a3761f6bd1557ff5dd7d5f5185cde1de0314f24db13ba15002141200000633823003b382300",
    "5a5a5a5a02e0000001000501020000002222222211110000405c7b168990007cb99b434101430d847f5dfd777d756b9de0513022c7ca1f0194140000630201000900000022072800",
    "5a5a5a5a570300004100050102000000222233335555000040f5c545f705e8bd0c26080850b4fd9457ff5dd7dcf5e6ae3877796501781fbb1a330046f7050000fc372300fe372300",
    "5a5a5a5a50030000410005010200000022224444555500004091613a89349c25697b03a66368bd5557ff5dd7d5f5785db87af534662b1d4a3794000989340000fc372300fe372300",
    "5a5a5a5a0d05000041000501020000002222777755550000401382a900c0a043ce88a4ee83f82770fd55f77d775fca2cc4aec5e043821a3162c2004200c001006f000000fc372300",
    "5a5a5a5a0e05000041000501020000002222888855550000405039d447807d326646b3e88005352530200230f4885a4c48c824a101825937a85a006a478001006f000000fc372300",
    "5a5a5a5a0f05000041000501020000002222999955550000407775dc07c518074810ef0ee74405069a600850a2164238080c2882e8cc5c3764f200ce07c501006f000000fc372300",
    "5a5a5a5a1005000041000501020000002222aaaa555500004033738fc8529055805a9cca706335cc0160a010a5c64bb4ca804aaf12a2d4c4c4f500aac85201006f000000fc372300",
    "5a5a5a5a1105000041000501020000002222bbbb55550000402194aa9ed656db622cc12234cff55331432be89bd127e946e221e84027e4ed622e00629ed601006f000000fc372300",
    "5a5a5a5a1205000041000501020000002222cccc55550000405303c82326d1ed005fce062125a512c10964d1cb3f5b4dea0a24ce12205dbb2a4800ea232601006f000000fc372300",
    "5a5a5a5a0000000042000501010000001111eeee555511114028000000000000000000006f0023003700fa00342a2c10942a2c10f42a2c10835600f0360801006f000000fa372300",
    "5a5a5a5a0000000042000501010000001111eeee5555eeee40000500000000005000000046000000410000004100000000000024000000000000b543000001006f000000fa372300",
    "5a5a5a5a0000000042000501010000001111dddd555500004000000000000000000000000100020002000100000000000000000000000000ffffef082a00000000000000fb372300",
    "5a5a5a5a0000000042000501020000002222dddd555500004000000000000000000000000100020002000100000000000000000000000000ffffef082a00000000000000fb372300",
    "5a5a5a5a0000000042000501010000001111dddd555500004000000000000000000000000100020002000100000000000000000000000000ffffef082a0000000000000000000000",
    "5a5a5a5a0000000042000501020000002222dddd555500004000000000000000000000000100020002000100000000000000000000000000ffffef0891d1000000000000fa372300",
    "5a5a5a5a660000004100050101000000111111111111000040b951018849a00b381b4016806c6dc457ff5dd7def5993218016020a005412310390033884901000900000022072800",
    "5a5a5a5a670000004100050101000000111111111111000040b951018849a00b381b4016806c6dc457ff5dd7def5993218016020a005412310390033884901000900000022072800",
    "5a5a5a5a690000004100050101000000111100001111000040905b1219a4cc30a1d92317220a0d8457ff5dd7ddf53f9dc071c040a5085f0b1d1c001919a401000900000022072800",
    "5a5a5a5a0000000042000501010000001111eeee11111111400000001000400000000000090028000700220000000000000000000000000030305032503801000900000022072800",
    "5a5a5a5a2003000041000501020000002222777755550000807325ef402209df1b7f9caf6575e774fd55f77d795f9f41364a68ca604641ec96a400b3402201006f000000fa372300",
    "5a5a5a5a610400004100050102000000222211115555000040b970078009fc078821205220655d5457ff5dd7d8f57854d004d03e003e012a036500f3800901006f000000fc372300",
    "5a5a5a5a6204000041000501020000002222777755550000401a4abacd1c74706c3af98a7a2957affd55f77d735f8e1e002cd30912a74156e68600c0cd1c01006f000000fc372300",
    "5a5a5a5a63040000410005010200000022228888555500004031369242a379718a59ca2ad74055daa020f030f3f889fe8a6c99d641c55111ae3b000a42a301006f000000fc372300",
    "5a5a5a5a64040000410005010200000022229999555500004003ce9167a6a153e49cf648c7997505a06060a0a0667e356eca60c823c0d0234000008267a601006f000000fc372300",
    "5a5a5a5a6504000041000501020000002222aaaa555500004007858e30e61d73a2dfce6481d4557591607042a5c60e53cea2968c11c71833e4df004430e601006f000000fc372300",
    "5a5a5a5a6604000041000501020000002222bbbb55550000401568bb16c47955c40abc8ce05e15362341b35290312a9400c829076d9b5157e290008416c401006f000000fc372300",
    "5a5a5a5a6704000041000501020000002222cccc55550000401325b026a21c13ca5ee10cc5467522c10964d1c13fde50a2ae37b024a23c33ee59000826a201006f000000fc372300",
    "5a5a5a5ab00400004300050102000000222222225555000040b91f0754094c07f021505280659d5457ff5dd7dff56c01e807b03940320122037c00c0540901006f000000fc372300",
    "5a5a5a5a0c01000041000501020000002222cccc1111000040430dfd63c51649510c98c3c4101132001000002c0e732111ad6ca004a3317cf40400c063c501000900000022072800",
]


def L():
    """the library under test (imported lazily: the harness must start even if an import is broken)"""
    import okdmr.dmrlib.etsi.layer2.burst as burst_mod
    from okdmr.dmrlib.hytera.hytera_ipsc import HyteraIPSC
    from okdmr.kaitai.hytera.ip_site_connect_protocol import IpSiteConnectProtocol

    return burst_mod, HyteraIPSC, IpSiteConnectProtocol


def hx(b) -> str:
    return bytes(b).hex() if len(b) else "-"


def call(fn, *a):
    try:
        with warnings.catch_warnings():
            warnings.simplefilter("ignore")
            return fn(*a)
    except BaseException as e:  # noqa: every exception of the real code is an observable
        return impl_error(e)


def is_err(x) -> bool:
    return isinstance(x, str) and x.startswith("ERR ")


# ------------------------------------------------------------------------------------------------
# recording the burst type requested from the Burst constructor (the model treats the constructor as opaque)
# ------------------------------------------------------------------------------------------------
STATE = {"bt": None, "opaque_error": False, "patched": False}


def patch_burst():
    if STATE["patched"]:
        return
    burst_mod, _, _ = L()
    orig = burst_mod.Burst.__init__

    def recording_init(self, full_bits=None, burst_type=None, *a, **kw):
        from okdmr.dmrlib.etsi.layer2.elements.burst_types import BurstTypes

        if burst_type is None:
            burst_type = BurstTypes.Undefined
        STATE["bt"] = burst_type
        try:
            if full_bits is None:
                return orig(self, burst_type=burst_type, *a, **kw)
            return orig(self, full_bits, burst_type, *a, **kw)
        except BaseException:
            # the 264-bit assertion is modelled; everything else the constructor does with the content is not
            if full_bits is None or len(full_bits) == 264:
                STATE["opaque_error"] = True
            raise

    burst_mod.Burst.__init__ = recording_init
    STATE["patched"] = True


def bt_name(bt) -> str:
    return {"Undefined": "undefined", "Vocoder": "vocoder", "DataAndControl": "data"}.get(getattr(bt, "name", ""), str(bt))


def cls_name(b) -> str:
    return {"HyteraIPSCSync": "sync", "HyteraIPSCWakeup": "wakeup", "Burst": "burst"}.get(type(b).__name__, type(b).__name__)


def view(path: str, frame: bytes):
    """(canonical view line | ERR, burst | None, opaque constructor error?) for one decoder path"""
    burst_mod, _, K = L()
    STATE["bt"] = None
    STATE["opaque_error"] = False

    def go():
        arg = frame if path == "raw" else K.from_bytes(frame)
        return burst_mod.Burst.from_hytera_ipsc(arg)

    b = call(go)
    if is_err(b):
        return b, None, STATE["opaque_error"]
    from okdmr.dmrlib.utils.bits_bytes import bits_to_bytes

    i = b.hytera_ipsc
    line = "%s %s %s %d %d %d %d %d" % (
        cls_name(b), bt_name(STATE["bt"]), hx(bits_to_bytes(b.full_bits)), b.timeslot, b.sequence_no,
        i.color_code, b.source_radio_id, i.destination_radio_id,
    )
    return line, b, False


def obj(path: str, data: bytes) -> str:
    """the HyteraIPSC object of one decoder path, canonical"""
    _, H, K = L()
    o = call(lambda: H.from_ipsc_bytes(data) if path == "raw" else H.from_kaitai(K.from_bytes(data)))
    if is_err(o):
        return o
    return show_obj(o)


def show_obj(o) -> str:
    rb = lambda x: hx(x) if isinstance(x, (bytes, bytearray)) else "NOTBYTES:" + type(x).__name__  # noqa: E731
    return " ".join(
        [
            str(CALL.index(o.call_type.name)), str(SLOT.index(o.slot_type.name)), str(FRAME.index(o.frame_type.name)),
            str(PACKET.index(o.packet_type.name)), str(TS.index(o.timeslot.name)), str(o.sequence_number),
            str(o.color_code), str(o.destination_radio_id), str(o.source_radio_id), rb(o.payload),
            rb(getattr(o, "payload_pad", b"")), rb(o.first_header), rb(o.second_header), rb(o.reserved_3),
            rb(o.reserved_7a), rb(o.reserved_2a), rb(o.reserved_2b), rb(o.reserved_1),
        ]
    )


def ser(path: str, data: bytes) -> str:
    _, H, K = L()
    o = call(lambda: H.from_ipsc_bytes(data) if path == "raw" else H.from_kaitai(K.from_bytes(data)))
    if is_err(o):
        return o
    r = call(o.as_ipsc_bytes)
    return r if is_err(r) else hx(r)


# ------------------------------------------------------------------------------------------------
# frames from fields (the layout of the property, written down independently of the library)
# ------------------------------------------------------------------------------------------------
def swap16(b: bytes) -> bytes:
    assert len(b) % 2 == 0
    out = bytearray()
    for i in range(0, len(b), 2):
        out += bytes([b[i + 1], b[i]])
    return bytes(out)


def build_frame(f) -> bytes:
    """f: first(2) seq r3(3) pt(int) r7(7) ts(int) st(int) ccword(2 octets hex) ft(int) r2a(2) burst(33) pad(int) r2b(2) ct(int)
    dstword(4 octets) srcword(4 octets) r1(1)"""
    return (
        bytes.fromhex(f["first"]) + bytes.fromhex(f.get("second", "5a5a")) + bytes([f["seq"]]) + bytes.fromhex(f["r3"])
        + bytes([f["pt"]]) + bytes.fromhex(f["r7"]) + f["ts"].to_bytes(2, "little") + f["st"].to_bytes(2, "little")
        + bytes.fromhex(f["ccword"]) + f["ft"].to_bytes(2, "little") + bytes.fromhex(f["r2a"])
        + swap16(bytes.fromhex(f["burst"]) + bytes([f["pad"]])) + bytes.fromhex(f["r2b"]) + bytes([f["ct"]])
        + bytes.fromhex(f["dstword"]) + bytes.fromhex(f["srcword"]) + bytes.fromhex(f["r1"])
    )


def idword(v: int, low: int = 0) -> str:
    return (bytes([low]) + v.to_bytes(3, "little")).hex()


def expected_class(f) -> str:
    """burst class the frame indicates"""
    st = {v: k for k, v in SLOT_VALUES.items()}.get(f["st"])
    ct = {v: k for k, v in CALL_VALUES.items()}.get(f["ct"])
    if st == "VoiceOrDataSync":
        return "sync"
    if st == "Wakeup" or ct in ("WakeupCall_2", "WakeupCall_c"):
        return "wakeup"
    return "burst"


def in_range(f) -> bool:
    """the frames the property quantifies over"""
    return (
        f.get("second", "5a5a") == "5a5a" and f["pt"] in PACKET_VALUES.values() and f["ct"] in CALL_VALUES.values()
        and f["ft"] in FRAME_VALUES.values() and f["st"] in SLOT_VALUES.values() and f["ts"] in TS_VALUES.values()
        and f.get("cc") is not None and f["ccword"] == bytes([f["cc"] * 17] * 2).hex()
        and f.get("dst") is not None and f["dstword"] == idword(f["dst"]) and f["srcword"] == idword(f["src"])
        and f.get("parses", False)
    )


def oracle(f, frame: bytes):
    """the property on the real code for an in-range frame; returns None or (kind, what, expected, actual)"""
    lr, br, _ = view("raw", frame)
    lk, bk, _ = view("kaitai", frame)
    if is_err(lr) or is_err(lk):
        return ("decoder-raises", "a decoder path raised on a well-formed frame", "two bursts", {"raw": lr, "kaitai": lk})
    if lr != lk:
        return ("paths-differ", "the raw-bytes path and the generic-parser path give different bursts", lk, lr)
    want = "%s %s %d %d %d %d %d" % (expected_class(f), f["burst"], 1 if f["ts"] == 0x1111 else 2, f["seq"], f["cc"], f["src"], f["dst"])
    for path, line, b in (("raw", lr, br), ("kaitai", lk, bk)):
        parts = line.split(" ")
        got = " ".join([parts[0]] + parts[2:])
        if got != want:
            return ("fields-differ", f"{path} path: class / payload / timeslot / sequence / colour / ids differ from what the frame encodes", want, got)
        t = call(lambda: b.target_radio_id)
        tw = f["dst"] if f["dst"] else call(b.guess_target_radio_id)
        if t != tw:
            return ("fields-differ", f"{path} path: target_radio_id differs from the destination id the frame encodes", tw, t)
        if b.hytera_ipsc.source_radio_id != f["src"]:
            return ("fields-differ", f"{path} path: hytera_ipsc.source_radio_id differs from the frame", f["src"], b.hytera_ipsc.source_radio_id)
        s = call(b.hytera_ipsc.as_ipsc_bytes)
        if s != frame:
            return ("reserialise", f"{path} path: the decoded frame does not serialise to the original 72 octets", frame.hex(), s if is_err(s) else s.hex())
    return None


# ------------------------------------------------------------------------------------------------
# payloads that parse as the indicated burst kind, built with the library itself
# ------------------------------------------------------------------------------------------------
def rand_bits(rng, n):
    from bitarray import bitarray

    return bitarray([rng.randrange(2) for _ in range(n)])


def make_pool(rng, per_kind: int):
    """33-octet bursts keyed by kind: 'voice', 'any' and 'data:<DataTypes name>'; every entry is checked to construct"""
    from bitarray import bitarray
    from okdmr.dmrlib.etsi.fec.bptc_196_96 import BPTC19696
    from okdmr.dmrlib.etsi.fec.trellis import Trellis34
    from okdmr.dmrlib.etsi.layer2.elements.burst_types import BurstTypes
    from okdmr.dmrlib.etsi.layer2.elements.data_types import DataTypes
    from okdmr.dmrlib.etsi.layer2.elements.sync_patterns import SyncPatterns
    from okdmr.dmrlib.etsi.layer2.pdu.embedded_signalling import EmbeddedSignalling
    from okdmr.dmrlib.etsi.layer2.pdu.slot_type import SlotType as L2Slot

    burst_mod, _, K = L()
    Burst = burst_mod.Burst
    pool = {"voice": [], "any": []}
    data_sync = [SyncPatterns.BsSourcedData, SyncPatterns.MsSourcedData, SyncPatterns.Tdma1Data, SyncPatterns.Tdma2Data]
    voice_sync = [SyncPatterns.BsSourcedVoice, SyncPatterns.MsSourcedVoice, SyncPatterns.Tdma1Voice, SyncPatterns.Tdma2Voice]

    def ok(payload: bytes, bt) -> bool:
        bits = bitarray()
        bits.frombytes(payload)
        return not is_err(call(lambda: Burst(full_bits=bits, burst_type=bt)))

    def assemble_data(info196, cc, dt, sync):
        slot = L2Slot(colour_code=cc, data_type=dt).as_bits()
        return (info196[:98] + slot[:10] + sync.as_bits() + slot[10:] + info196[98:]).tobytes()

    def add(kind, payload, bt):
        if len(payload) == 33 and ok(payload, bt):
            pool.setdefault(kind, []).append(payload)

    # captured bursts, and re-encodings of their parsed content by the library with other colour codes / addresses
    for h in CAPTURED:
        b = call(lambda: Burst.from_hytera_ipsc(K.from_bytes(bytes.fromhex(h))))
        if is_err(b):
            continue
        raw = b.full_bits.tobytes()
        if type(b).__name__ != "Burst":
            pool["any"].append(raw)
            continue
        if b.is_data_or_control:
            kind = "data:" + b.data_type.name
            add(kind, raw, BurstTypes.DataAndControl)
            for _ in range(per_kind):
                d = b.data
                for attr in ("source_address", "target_address", "group_address", "llid_source", "llid_destination"):
                    if isinstance(getattr(d, attr, None), int) and rng.random() < 0.5:
                        setattr(d, attr, rng.randrange(1 << 24))
                info = call(b.interleave)
                if is_err(info):
                    break
                add(kind, assemble_data(info, rng.randrange(16), b.slot_type.data_type, rng.choice(data_sync)), BurstTypes.DataAndControl)
        elif ok(raw, BurstTypes.Undefined):
            add("voice", raw, BurstTypes.Vocoder)
    # unconfirmed data blocks of random content through the library's encoders
    for _ in range(per_kind):
        add("data:Rate12Data", assemble_data(BPTC19696.encode(rand_bits(rng, 96)), rng.randrange(16), DataTypes.Rate12Data, rng.choice(data_sync)), BurstTypes.DataAndControl)
        add("data:Rate34Data", assemble_data(Trellis34.encode(rand_bits(rng, 144)), rng.randrange(16), DataTypes.Rate34Data, rng.choice(data_sync)), BurstTypes.DataAndControl)
        r1 = rand_bits(rng, 192)
        add("data:Rate1Data", assemble_data(r1[:96] + bitarray("0000") + r1[96:], rng.randrange(16), DataTypes.Rate1Data, rng.choice(data_sync)), BurstTypes.DataAndControl)
    # voice bursts: random vocoder frames around a voice sync pattern or an EMB + embedded LC fragment
    for _ in range(per_kind * 3):
        v = rand_bits(rng, 216)
        if rng.random() < 0.3:
            center = rng.choice(voice_sync).as_bits()
        else:
            e = EmbeddedSignalling(colour_code=rng.randrange(16), preemption_and_power_control_indicator=rng.randrange(2), link_control_start_stop=rng.randrange(4)).as_bits()
            center = e[:8] + rand_bits(rng, 32) + e[8:]
        p = (v[:108] + center + v[108:]).tobytes()
        if ok(p, BurstTypes.Undefined):
            add("voice", p, BurstTypes.Vocoder)
    # sync / wake-up payloads are not DMR bursts: arbitrary content
    for _ in range(per_kind * 3):
        p = bytes(rng.randrange(256) for _ in range(33)) if rng.random() < 0.7 else bytes([rng.choice([0, 0xFF, 0x5A])] * 33)
        add("any", p, BurstTypes.Undefined)
    pool["data"] = [p for k, v in pool.items() if k.startswith("data:") for p in v]
    return pool


SLOT_KIND = {
    "PrivacyIndicator": "data:PIHeader", "VoiceLCHeader": "data:VoiceLCHeader", "TerminatorWithLC": "data:TerminatorWithLC",
    "CSBK": "data:CSBK", "DataHeader": "data:DataHeader", "Rate12Data": "data:Rate12Data", "Rate34Data": "data:Rate34Data",
    "Wakeup": "any", "VoiceOrDataSync": "any", "Undefined": "data",
}


def pick_payload(rng, pool, slot_name, wake):
    if wake or slot_name in ("Wakeup", "VoiceOrDataSync"):
        # a sync / wake-up burst keeps its octets verbatim; a payload carrying a DMR data sync pattern would be
        # taken apart by the Burst constructor without de-interleaving and does not "parse as the indicated kind"
        kind = rng.choice(["any", "any", "voice"])
    elif slot_name in VOICE_SLOTS:
        kind = "voice"
    else:
        kind = SLOT_KIND.get(slot_name, "data")
        if not pool.get(kind) or rng.random() < 0.15:
            kind = "data"
        if slot_name in ("PrivacyIndicator", "VoiceLCHeader") and rng.random() < 0.3:
            kind = "voice"  # the library requests a vocoder burst for these two slot types
    return rng.choice(pool[kind]), kind


def rand_id(rng):
    r = rng.random()
    if r < 0.3:
        return rng.choice([0, 1, 0xFF, 0x100, 0xFFFF, 0x10000, 0x123456, 0xFFFFFE, 0xFFFFFF, 2308090, 111])
    if r < 0.5:
        return rng.randrange(1 << 8) << rng.choice([0, 8, 16])
    return rng.randrange(1 << 24)


# ------------------------------------------------------------------------------------------------
# reserved octets: the blocks the captured frames actually carry, single-octet perturbations of them, and
# their crossing with the values of the other fields (special cases on "well-known" reserved blocks are
# reached by construction: a uniformly random 7-octet block equals a captured one with probability 2^-56)
# ------------------------------------------------------------------------------------------------
RES_FIELDS = (("first", 2), ("r3", 3), ("r7", 7), ("r2a", 2), ("r2b", 2), ("r1", 1), ("pad", 1))
RES_LEN = dict(RES_FIELDS)
RES_DEFAULT = {"first": "5a5a", "r3": "000000", "r7": "00050101000000", "r2a": "4000", "r2b": "e208", "r1": "00", "pad": "00"}
RES_CLASS_CONST = {"first": "DEFAULT_FIRST_HEADER", "r3": "DEFAULT_RESERVED_3", "r7": "DEFAULT_RESERVED_7A", "r2a": "DEFAULT_RESERVED_2A",
                   "r2b": "DEFAULT_RESERVED_2B", "r1": "DEFAULT_RESERVED_1"}
_RES = {}


def res_dict():
    """{'blocks': field -> distinct hex blocks (default first, then in order of capture), 'tuples': the coherent
    combinations of all seven reserved fields of the captured frames}"""
    if _RES:
        return _RES
    blocks = {k: [RES_DEFAULT[k]] for k, _ in RES_FIELDS}
    tuples = []
    for h in CAPTURED:
        f = fields_of_captured(h)
        t = {k: (f[k] if k != "pad" else "%02x" % f[k]) for k, _ in RES_FIELDS}
        if t not in tuples:
            tuples.append(t)
        for k, v in t.items():
            if v not in blocks[k]:
                blocks[k].append(v)
    # the constants of the class under test are generator input too (a changed default is one more block to try)
    try:
        _, H, _ = L()
        for k, nm in RES_CLASS_CONST.items():
            v = getattr(H, nm, None)
            if isinstance(v, (bytes, bytearray)) and len(v) == RES_LEN[k] and bytes(v).hex() not in blocks[k]:
                blocks[k].append(bytes(v).hex())
    except BaseException:  # noqa
        pass
    _RES.update(blocks=blocks, tuples=tuples)
    return _RES


def set_res(f, k, hexval):
    if k == "pad":
        f["pad"] = int(hexval, 16)
    else:
        f[k] = hexval


def get_res(f, k) -> str:
    return "%02x" % f["pad"] if k == "pad" else f[k]


def set_typed(f, g, v):
    if g == "cc":
        f["cc"] = v
        f["ccword"] = bytes([v * 17] * 2).hex()
    elif g in ("dst", "src"):
        f[g] = v
        f[g + "word"] = idword(v)
    else:
        f[g] = v


def repick(rng, pool, f):
    """a payload that parses as the kind the (changed) slot / call type indicates"""
    sn = {v: k for k, v in SLOT_VALUES.items()}[f["st"]]
    cn = {v: k for k, v in CALL_VALUES.items()}[f["ct"]]
    payload, kind = pick_payload(rng, pool, sn, cn.startswith("Wakeup"))
    f["burst"], f["kind"] = payload.hex(), kind


def octet_values(orig: int, f):
    """values for one reserved octet: boundaries, neighbours of the original, and the octets of the OTHER fields of
    the same frame (a reserved octet that mirrors - or contradicts - the slot number, sequence number, colour, a type
    value or an id octet)"""
    slot = 1 if f["ts"] == 0x1111 else 2
    cc = f.get("cc") or 0
    dst, src = f.get("dst") or 0, f.get("src") or 0
    vals = {
        0, 1, 2, 3, 0x7F, 0x80, 0xFE, 0xFF, orig ^ 1, orig ^ 0x80, (orig + 1) & 255, (orig - 1) & 255,
        slot, 3 - slot, f["seq"], (f["seq"] + 1) & 255, cc, (cc * 17) & 255, f["pt"] & 255, f["ct"] & 255, f["st"] & 255,
        f["ft"] & 255, f["ts"] & 255, dst & 255, (dst >> 16) & 255, src & 255, (src >> 16) & 255,
    }
    vals.discard(orig)
    return sorted(vals)


def draw_res(rng, k):
    """one reserved block: the default, a captured block, a captured block with one octet changed, or random octets"""
    n = RES_LEN[k]
    r = rng.random()
    if r < 0.3:
        return RES_DEFAULT[k]
    if r < 0.5:
        return rng.choice(res_dict()["blocks"][k])
    if r < 0.65:
        b = bytearray.fromhex(rng.choice(res_dict()["blocks"][k]))
        p = rng.randrange(n)
        b[p] = rng.choice([0, 1, 2, 3, 0x7F, 0x80, 0xFF, b[p] ^ 1, (b[p] + 1) & 255, (b[p] - 1) & 255])
        return b.hex()
    return bytes(rng.randrange(256) for _ in range(n)).hex()


def gen_frame(rng, pool, wf_bias=0.8):
    """fields of one frame; ~20 % leave the property's range in one respect"""
    f = {}
    f["second"] = "5a5a"
    f["seq"] = rng.choice([0, 1, 127, 128, 254, 255]) if rng.random() < 0.3 else rng.randrange(256)
    if rng.random() < 0.15:  # the seven reserved fields of one captured frame, together
        for k, v in rng.choice(res_dict()["tuples"]).items():
            set_res(f, k, v)
    else:
        for k, _ in RES_FIELDS:
            set_res(f, k, draw_res(rng, k))
    slot_name = rng.choice(SLOT)
    f["st"] = SLOT_VALUES[slot_name]
    f["pt"] = rng.choice(list(PACKET_VALUES.values()))
    f["ft"] = rng.choice(list(FRAME_VALUES.values()))
    f["ts"] = rng.choice(list(TS_VALUES.values()))
    ct_name = rng.choice(["PrivateCall", "GroupCall", "PrivateCall", "GroupCall", "WakeupCall_2", "WakeupCall_c"])
    f["ct"] = CALL_VALUES[ct_name]
    f["cc"] = rng.randrange(16)
    f["ccword"] = bytes([f["cc"] * 17] * 2).hex()
    f["dst"], f["src"] = rand_id(rng), rand_id(rng)
    f["dstword"], f["srcword"] = idword(f["dst"]), idword(f["src"])
    payload, kind = pick_payload(rng, pool, slot_name, ct_name.startswith("Wakeup"))
    f["burst"] = payload.hex()
    f["kind"] = kind
    f["parses"] = True
    if rng.random() >= wf_bias:
        r = rng.random()
        if r < 0.2:  # undefined type values (packet/frame type fall back with a warning, the others are rejected)
            k = rng.choice(["pt", "ft", "st", "ts", "ct"])
            defined = {"pt": PACKET_VALUES, "ct": CALL_VALUES, "ft": FRAME_VALUES, "st": SLOT_VALUES, "ts": TS_VALUES}[k].values()
            if k in ("pt", "ct"):
                cands = [0, 2, 3, 0x0B, 0x0D, 0x40, 0x44, 0x7F, 0x80, 0xFF, rng.randrange(256)]
            else:
                cands = [0x0001, 0x0100, 0x1112, 0x1211, 0x2211, 0x1122, 0x3333, 0xDDDE, 0xFFFE, 0xEEEF, 0xFFFF, rng.randrange(1 << 16)]
            cands = [v for v in cands if v not in defined] or [0x7E]
            f[k] = rng.choice(cands)
        elif r < 0.4:  # colour word whose two octets / nibbles differ: both decoders must still agree (low nibble)
            f["ccword"] = bytes(rng.randrange(256) for _ in range(2)).hex()
            f["cc"] = None
        elif r < 0.6:  # non-zero low octet of an id word: ignored by both decoders, lost on serialisation
            f["dstword"] = idword(f["dst"], rng.randrange(1, 256))
            if rng.random() < 0.5:
                f["srcword"] = idword(f["src"], rng.randrange(1, 256))
        elif r < 0.75:  # second header other than 5a5a: the generic parser refuses the frame
            f["second"] = bytes(rng.randrange(256) for _ in range(2)).hex()
        else:  # payload that does not parse as the indicated kind
            f["burst"] = bytes(rng.randrange(256) for _ in range(33)).hex()
            f["parses"] = False
    return f


def mutate(rng, frame: bytes) -> bytes:
    b = bytearray(frame)
    r = rng.random()
    if r < 0.3:
        del b[rng.randrange(len(b) + 1) :]
    elif r < 0.5:
        b += bytes(rng.randrange(256) for _ in range(rng.randrange(1, 5)))
    elif r < 0.8 and b:
        for _ in range(rng.randrange(1, 4)):
            b[rng.randrange(len(b))] = rng.randrange(256)
    else:
        b = bytearray(rng.randrange(256) for _ in range(rng.choice([0, 1, 3, 4, 5, 26, 59, 60, 71, 72, 73, 80])))
    return bytes(b)


def frame_case(ctx, f, frame, pairs, tag):
    """correspondence lines of one frame + the oracle when it is in range"""
    views, objs, sers = pairs
    hexf = hx(frame)
    for path, op in (("raw", "raw"), ("kaitai", "kai")):
        line, _, opaque = view(path, frame)
        if opaque:
            ctx.count("frame:constructor-rejects-payload (outside the model)")
        else:
            views.append((f"ipsc.{op} {hexf}", line))
        objs.append((f"ipsc.obj.{op} {hexf}", obj(path, frame)))
        sers.append((f"ipsc.ser.{op} {hexf}", ser(path, frame)))
    inr = f is not None and in_range(f)
    ctx.count(f"frame:{tag}:{'in-range' if inr else 'out-of-range'}")
    ctx.case(("frame", hexf), nontrivial=True, sample={"tag": tag, "frame": hexf, "fields": f} if ctx.evaluations % 499 == 7 else None)
    if inr:
        ctx.count(f"class:{expected_class(f)}")
        ctx.count(f"kind:{f.get('kind')}")
        r = oracle(f, frame)
        if r:
            ctx.fail(r[0], {"fields": f, "frame": hexf}, r[1], expected=r[2], actual=r[3])


def fields_of_captured(h: str):
    """read a captured frame back into the property's field view (by the layout, not by the library)"""
    b = bytes.fromhex(h)
    sw = swap16(b[26:60])
    f = {
        "first": b[0:2].hex(), "second": b[2:4].hex(), "seq": b[4], "r3": b[5:8].hex(), "pt": b[8], "r7": b[9:16].hex(),
        "ts": int.from_bytes(b[16:18], "little"), "st": int.from_bytes(b[18:20], "little"), "ccword": b[20:22].hex(),
        "ft": int.from_bytes(b[22:24], "little"), "r2a": b[24:26].hex(), "burst": sw[:33].hex(), "pad": sw[33],
        "r2b": b[60:62].hex(), "ct": b[62], "dstword": b[63:67].hex(), "srcword": b[67:71].hex(), "r1": b[71:72].hex(),
        "cc": b[20] & 15, "dst": int.from_bytes(b[64:67], "little"), "src": int.from_bytes(b[68:71], "little"), "parses": True,
        "kind": "captured",
    }
    assert build_frame(f) == b
    return f


def reserved_sweep(ctx, rng, pool, pairs):
    """structured reserved-octet classes (a fixed share of the budget):
    res-cross    every dictionary block of every reserved field x every value of every other field (one at a time),
    res-perturb  every octet of every dictionary block set to every value of `octet_values`, on both timeslots
                 (thorough: x every packet type)."""
    R = res_dict()
    thorough = ctx.thorough()
    typed = [
        ("ts", list(TS_VALUES.values())), ("pt", list(PACKET_VALUES.values())), ("ct", list(CALL_VALUES.values())),
        ("st", list(SLOT_VALUES.values())), ("ft", list(FRAME_VALUES.values())), ("cc", list(range(16))),
        ("seq", [0, 1, 255]), ("dst", [0, 0xFFFFFF]), ("src", [0, 0xFFFFFF]),
    ]

    def blocks_of(k):
        bl = R["blocks"][k]
        if thorough or len(bl) <= 4:
            return list(bl)
        return [bl[0]] + rng.sample(bl[1:], 3)  # the default + three captured blocks (all of them in thorough)

    def base():
        f = gen_frame(rng, pool, wf_bias=1.0)
        if rng.random() < 0.5:  # the other reserved fields as one captured frame has them
            for k, v in rng.choice(R["tuples"]).items():
                set_res(f, k, v)
        return f

    for k, n in RES_FIELDS:
        for blk in blocks_of(k):
            for g, vals in typed:
                for v in vals:
                    f = base()
                    set_res(f, k, blk)
                    set_typed(f, g, v)
                    if g in ("st", "ct"):
                        repick(rng, pool, f)
                    ctx.count(f"res-cross:{k}")
                    frame_case(ctx, f, build_frame(f), pairs, "res-cross")
            for p in range(n):
                for tsv in TS_VALUES.values():
                    for ptv in (list(PACKET_VALUES.values()) if thorough else [None]):
                        f = base()
                        f["ts"] = tsv
                        if ptv is not None:
                            f["pt"] = ptv
                        orig = bytes.fromhex(blk)[p]
                        for v in octet_values(orig, f):
                            f2 = dict(f)
                            b = bytearray.fromhex(blk)
                            b[p] = v
                            set_res(f2, k, b.hex())
                            ctx.count(f"res-perturb:{k}")
                            frame_case(ctx, f2, build_frame(f2), pairs, "res-perturb")


# ------------------------------------------------------------------------------------------------
# histories: results the caller keeps, re-stamps and serialises - for every entry point of the property
#   raw   HyteraIPSC.from_ipsc_bytes(bytes)              kai   HyteraIPSC.from_kaitai(parser object)
#   braw  Burst.from_hytera_ipsc(bytes)                  bkai  Burst.from_hytera_ipsc(parser object)
#   ser   HyteraIPSC.as_ipsc_bytes()
# Every decode must be a function of the octets alone: a NEW object (never one handed out before, never sharing a
# mutable part with one), reading as the frame encodes whatever was decoded, assigned or serialised before; an
# object the caller keeps must read as it did (or as the caller re-stamped it) whatever happens to other objects.
# ------------------------------------------------------------------------------------------------
ATTRS = (  # public attributes of HyteraIPSC in the order of show_obj, with their range
    ("call_type", CALL), ("slot_type", SLOT), ("frame_type", FRAME), ("packet_type", PACKET), ("timeslot", TS),
    ("sequence_number", 256), ("color_code", 16), ("destination_radio_id", 1 << 24), ("source_radio_id", 1 << 24),
    ("payload", "b33"), ("payload_pad", "b1"), ("first_header", "b2"), ("second_header", "b2"), ("reserved_3", "b3"),
    ("reserved_7a", "b7"), ("reserved_2a", "b2"), ("reserved_2b", "b2"), ("reserved_1", "b1"),
)
ATTR_RANGE = dict(ATTRS)
ATTR_RES = {"first_header": "first", "reserved_3": "r3", "reserved_7a": "r7", "reserved_2a": "r2a", "reserved_2b": "r2b",
            "reserved_1": "r1", "payload_pad": "pad"}
BRIDGE_ATTRS = ("timeslot", "sequence_number", "color_code", "source_radio_id", "destination_radio_id")
BURST_ATTRS = ("timeslot", "sequence_no", "source_radio_id", "target_radio_id", "full_bits")
ENTRY = ("raw", "kai", "braw", "bkai")


def enum_member(attr: str, idx: int):
    from okdmr.dmrlib.hytera.ipsc_elements.call_type import CallType
    from okdmr.dmrlib.hytera.ipsc_elements.frame_type import FrameType
    from okdmr.dmrlib.hytera.ipsc_elements.packet_type import PacketType
    from okdmr.dmrlib.hytera.ipsc_elements.slot_type import SlotType
    from okdmr.dmrlib.hytera.ipsc_elements.timeslot import Timeslot

    cls = {"call_type": CallType, "slot_type": SlotType, "frame_type": FrameType, "packet_type": PacketType, "timeslot": Timeslot}[attr]
    return getattr(cls, ATTR_RANGE[attr][idx])


def layout_obj(frame: bytes):
    """the 18 attributes a 72-octet frame encodes, read by the layout of the property (not by the library);
    None when a type value is undefined"""
    if len(frame) != 72:
        return None
    inv = lambda d, v: next((k for k, x in d.items() if x == v), None)  # noqa: E731
    pt, ct = inv(PACKET_VALUES, frame[8]), inv(CALL_VALUES, frame[62])
    ts = inv(TS_VALUES, int.from_bytes(frame[16:18], "little"))
    st = inv(SLOT_VALUES, int.from_bytes(frame[18:20], "little"))
    ft = inv(FRAME_VALUES, int.from_bytes(frame[22:24], "little"))
    if None in (pt, ct, ts, st, ft):
        return None
    sw = swap16(frame[26:60])
    return {
        "call_type": CALL.index(ct), "slot_type": SLOT.index(st), "frame_type": FRAME.index(ft), "packet_type": PACKET.index(pt),
        "timeslot": TS.index(ts), "sequence_number": frame[4], "color_code": frame[20] & 15,
        "destination_radio_id": int.from_bytes(frame[64:67], "little"), "source_radio_id": int.from_bytes(frame[68:71], "little"),
        "payload": sw[:33].hex(), "payload_pad": sw[33:].hex(), "first_header": frame[0:2].hex(), "second_header": frame[2:4].hex(),
        "reserved_3": frame[5:8].hex(), "reserved_7a": frame[9:16].hex(), "reserved_2a": frame[24:26].hex(),
        "reserved_2b": frame[60:62].hex(), "reserved_1": frame[71:72].hex(),
    }


def show_mirror(m) -> str:
    return " ".join((str(m[a]) if str(m[a]) != "" else "-") for a, _ in ATTRS)


def parse_shown(s: str):
    """the mirror of an object from its canonical reading (None for an error / unexpected reading)"""
    parts = s.split(" ")
    if is_err(s) or len(parts) != len(ATTRS):
        return None
    m = {}
    for (a, rg), v in zip(ATTRS, parts):
        m[a] = v if isinstance(rg, str) else int(v) if v.isdigit() else v
    return m


def mirror_bytes(m) -> bytes:
    """the 72 octets an object with these attribute values stands for, by the layout of the property"""
    return build_frame({
        "first": m["first_header"], "second": m["second_header"], "seq": m["sequence_number"], "r3": m["reserved_3"],
        "pt": PACKET_VALUES[PACKET[m["packet_type"]]], "r7": m["reserved_7a"], "ts": TS_VALUES[TS[m["timeslot"]]],
        "st": SLOT_VALUES[SLOT[m["slot_type"]]], "ccword": bytes([m["color_code"] * 17] * 2).hex(),
        "ft": FRAME_VALUES[FRAME[m["frame_type"]]], "r2a": m["reserved_2a"], "burst": m["payload"], "pad": int(m["payload_pad"], 16),
        "r2b": m["reserved_2b"], "ct": CALL_VALUES[CALL[m["call_type"]]], "dstword": idword(m["destination_radio_id"]),
        "srcword": idword(m["source_radio_id"]), "r1": m["reserved_1"],
    })


def read_obj(o) -> str:
    r = call(show_obj, o)
    return r if isinstance(r, str) else "ERR unreadable"


def read_burst(b, with_target: bool):
    from okdmr.dmrlib.utils.bits_bytes import bits_to_bytes

    def go():
        return {
            "cls": cls_name(b), "bits": hx(bits_to_bytes(b.full_bits)), "timeslot": b.timeslot, "seq": b.sequence_no,
            "src": b.source_radio_id, "target": b.target_radio_id if with_target else None,
        }

    r = call(go)
    return r if isinstance(r, dict) else {"unreadable": r}


def other_value(rng, attr, cur, pool):
    """another in-range value for a public attribute (canonical form: member index, int, hex)"""
    rg = ATTR_RANGE[attr]
    for _ in range(50):
        if isinstance(rg, list):
            v = rng.randrange(len(rg))
        elif isinstance(rg, int):
            v = rand_id(rng) if rg == 1 << 24 else rng.choice([0, rg - 1, rng.randrange(rg), rng.randrange(rg)])
        elif attr == "payload":
            v = rng.choice(pool["any"] + pool["voice"][:8] + pool["data"][:8]).hex()
        elif attr == "second_header":
            v = rng.choice(["5a5a", "5a5a", "a5a5", "0000", bytes(rng.randrange(256) for _ in range(2)).hex()])
        else:
            v = draw_res(rng, ATTR_RES[attr])
        if v != cur:
            return v
    return cur


def is_oor(attr, val) -> bool:
    """an assigned value outside the attribute's range (canonical form)"""
    rg = ATTR_RANGE[attr]
    if isinstance(rg, list):
        return False
    if isinstance(rg, int):
        return val >= rg
    return (0 if val == "-" else len(val) // 2) != int(rg[1:])


def run_history(frames, inr, steps, window=6):
    """execute one history on the real code.  frames: list of bytes; inr[i]: frames[i] is in the property's range;
    steps (JSON-able):  ["dec", entry, frame index, same input object as last time?]  ["set", ref, attribute, value]
    ["bset", ref, burst attribute, value]  ["ser", ref]  ["read", ref].
    Returns (model lines with the real code's answers, failures [first only], statistics)."""
    burst_mod, H, K = L()
    held = []  # {"o": HyteraIPSC, "b": Burst | None, "m": mirror, "bm": burst reading | None, "at": step, "fi": frame, "tgt": bool, "stamped": bool}
    lines, kept_octets, inputs, first_answer, bad, aliased = [("h.reset", "ok")], [], {}, {}, [], []
    stats = {}

    def flag(kind, at, what, expected, actual):
        bad.append({"kind": kind, "at": at, "what": what, "expected": expected, "actual": actual})

    def check_held(at, refs):
        for r in refs:
            e = held[r]
            cur = read_obj(e["o"])
            if cur != show_mirror(e["m"]):
                flag("held-result-changed", at, f"the HyteraIPSC object handed out by step {e['at']} (handle {r}) no longer reads as it did / as the caller "
                     f"re-stamped it, after step {at} which is not aimed at it", show_mirror(e["m"]), cur)
                return
            if e["b"] is not None:
                if e["b"].hytera_ipsc is not e["o"]:
                    flag("held-result-changed", at, f"the burst of step {e['at']} no longer keeps the object it decoded", "same object", "another object")
                    return
                cur = read_burst(e["b"], e["tgt"])
                if cur != e["bm"]:
                    flag("held-result-changed", at, f"the burst handed out by step {e['at']} (handle {r}) no longer reads as it did, after step {at} which is not aimed at it", e["bm"], cur)
                    return

    for at, st in enumerate(steps):
        if bad:
            break
        kind = st[0]
        stats[kind] = stats.get(kind, 0) + 1
        if kind == "dec":
            _, ep, fi, same = st
            frame = frames[fi]
            ent = inputs.get(fi)
            if ent is None or not same:
                ent = inputs[fi] = {"bytes": bytes(bytearray(frame))}  # an equal, but new, bytes object

            def go():
                if ep in ("raw", "braw"):
                    arg = ent["bytes"]
                else:
                    if "k" not in ent:
                        ent["k"] = K.from_bytes(ent["bytes"])
                    arg = ent["k"]
                return (H.from_ipsc_bytes if ep == "raw" else H.from_kaitai)(arg) if ep in ("raw", "kai") else burst_mod.Burst.from_hytera_ipsc(arg)

            STATE["bt"], STATE["opaque_error"] = None, False
            res = call(go)
            if is_err(res):
                if not STATE["opaque_error"]:
                    lines.append((f"h.{ep} {hx(frame)}", res))
                if inr[fi]:
                    flag("decoder-raises", at, f"entry point '{ep}' raised on a well-formed frame", "a result", res)
                continue
            b = res if ep in ("braw", "bkai") else None
            o = res if b is None else b.hytera_ipsc
            ref = len(held)
            # two results must never be (or share) one mutable object.  The history goes on: the assignments that follow show
            # what the sharing does to the values; the sharing itself is reported if nothing else was by the end
            for r, e in enumerate(held):
                if aliased:
                    break
                if e["o"] is o:
                    aliased.append((at, f"entry point '{ep}' returned the very HyteraIPSC object that step {e['at']} handed out (handle {r}): "
                                    "results of two calls share one mutable object", f"the object of step {e['at']}"))
                elif b is not None and e["b"] is not None and (e["b"] is b or e["b"].full_bits is b.full_bits):
                    aliased.append((at, f"entry point '{ep}' returned the very burst / payload bit array that step {e['at']} handed out (handle {r})",
                                    f"the object of step {e['at']}"))
            got = read_obj(o)
            want = layout_obj(frame)
            tgt = bool(want and want["destination_radio_id"])
            bm = read_burst(b, tgt) if b is not None else None
            if b is None:
                answer = got
            else:
                i = b.hytera_ipsc
                answer = "%s %s %s %d %d %d %d %d" % (cls_name(b), bt_name(STATE["bt"]), bm.get("bits"), b.timeslot, b.sequence_no, i.color_code, b.source_radio_id, i.destination_radio_id)
            lines.append((f"h.{ep} {hx(frame)}", f"{ref} {answer}"))
            if not bad and inr[fi] and want is not None:
                if got != show_mirror(want):
                    flag("decode-depends-on-history", at, f"entry point '{ep}': the decoded frame does not carry the values the 72 octets encode "
                         "(call slot frame packet timeslot seq colour dst src payload pad headers reserved) - the same octets decode correctly in a fresh history",
                         show_mirror(want), got)
                elif b is not None:
                    wb = {"cls": expected_class({"st": SLOT_VALUES[SLOT[want["slot_type"]]], "ct": CALL_VALUES[CALL[want["call_type"]]]}),
                          "bits": want["payload"], "timeslot": want["timeslot"] + 1, "seq": want["sequence_number"], "src": want["source_radio_id"],
                          "target": want["destination_radio_id"] if tgt else None}
                    if bm != wb:
                        flag("decode-depends-on-history", at, f"entry point '{ep}': the burst does not carry the class / payload bits / timeslot / sequence / ids the 72 octets encode", wb, bm)
            key = (ep, fi)
            if not bad and key in first_answer and first_answer[key] != answer:
                flag("decode-depends-on-history", at, f"entry point '{ep}' answers differently for the same octets than at step {first_answer[key + ('at',)]}", first_answer[key], answer)
            if key not in first_answer:
                first_answer[key] = answer
                first_answer[key + ("at",)] = at
            held.append({"o": o, "b": b, "m": parse_shown(got) or want, "bm": bm, "at": at, "fi": fi, "tgt": tgt, "stamped": False})
            if held[-1]["m"] is None:  # unreadable result: nothing to track
                held.pop()
                flag("decode-depends-on-history", at, f"entry point '{ep}' returned an object that cannot be read", "18 attributes", got)
        elif kind in ("set", "bset", "ser", "read"):
            ref = st[1]
            if ref >= len(held):
                continue
            e = held[ref]
            if kind == "set":
                _, _, attr, val = st
                cur = getattr(e["o"], attr, None)
                rg = ATTR_RANGE[attr]
                octets = None if not isinstance(rg, str) else b"" if val == "-" else bytes.fromhex(val)
                if octets is not None and isinstance(cur, bytearray) and len(cur) == len(octets):
                    cur[:] = octets  # a mutable attribute is changed in place
                else:
                    setattr(e["o"], attr, enum_member(attr, val) if isinstance(rg, list) else val if isinstance(rg, int) else octets)
                if is_oor(attr, val):
                    e["oor"] = True
                e["m"][attr] = val
                e["stamped"] = True
                lines.append((f"h.set {ref} {attr} {val}", "ok"))
            elif kind == "bset":
                _, _, attr, val = st
                if e["b"] is None:
                    continue
                if attr == "full_bits":
                    e["b"].full_bits.invert()  # in place: the caller's own burst
                    e["bm"]["bits"] = bytes(x ^ 0xFF for x in bytes.fromhex(e["bm"]["bits"])).hex()
                elif attr == "sequence_no":
                    e["b"].set_sequence_no(val)
                    e["bm"]["seq"] = val
                elif attr == "target_radio_id":
                    e["b"].target_radio_id = val
                    e["tgt"] = True
                    e["bm"]["target"] = val
                else:
                    setattr(e["b"], attr, val)
                    e["bm"]["src" if attr == "source_radio_id" else attr] = val
            elif kind == "ser":
                s = call(e["o"].as_ipsc_bytes)
                out = s if is_err(s) else hx(s)
                lines.append((f"h.ser {ref}", out))
                if not is_err(s):
                    kept_octets.append((s, out, at))
                want = call(mirror_bytes, e["m"]) if inr[e["fi"]] and not e.get("oor") else None
                if isinstance(want, bytes):
                    if is_err(s) or bytes(s) != want:
                        if e["stamped"]:
                            flag("reserialise-after-restamp", at, f"the object of step {e['at']} (handle {ref}), re-stamped by the caller with in-range values, does not "
                                 "serialise to the frame its attributes now describe (original octets with exactly the assigned fields replaced)", want.hex(), out)
                        else:
                            flag("reserialise", at, f"the object of step {e['at']} (handle {ref}) does not serialise to the original 72 octets", want.hex(), out)
            else:
                lines.append((f"h.read {ref}", read_obj(e["o"])))
                check_held(at, [ref])
        if not bad:
            n = len(held)
            check_held(at, sorted(set(range(min(2, n))) | set(range(max(0, n - window), n))))
    if not bad:
        check_held(len(steps), range(len(held)))
        for s, out, at in kept_octets:
            if hx(s) != out:
                flag("held-result-changed", len(steps), f"the octets returned by as_ipsc_bytes at step {at} changed afterwards", out, hx(s))
                break
    if not bad and aliased:
        at, what, actual = aliased[0]
        flag("aliased-result", at, what, "a new object", actual)
    for r, e in enumerate(held):
        lines.append((f"h.read {r}", read_obj(e["o"])))
    stats["held"] = len(held)
    return lines, bad[:1], stats


def variants(rng, f):
    """frames one field away from f (same payload): a cache keyed on part of the octets would confuse them"""
    out = []
    names = ["seq", "cc", "dst", "src", "ts", "pt", "ft", "r3", "r7", "r2a", "r2b", "r1", "pad", "first"]
    if {v: k for k, v in SLOT_VALUES.items()}[f["st"]] in VOICE_SLOTS:
        names.append("st")
    for g in rng.sample(names, 3):
        f2 = dict(f)
        if g == "seq":
            f2["seq"] = (f["seq"] + rng.choice([1, 0x40, 255])) & 255
        elif g == "cc":
            set_typed(f2, "cc", (f["cc"] + rng.randrange(1, 16)) % 16)
        elif g in ("dst", "src"):
            set_typed(f2, g, f[g] ^ (1 << rng.randrange(24)))
        elif g == "ts":
            f2["ts"] = 0x3333 - f["ts"]
        elif g == "pt":
            f2["pt"] = rng.choice([v for v in PACKET_VALUES.values() if v != f["pt"]])
        elif g == "ft":
            f2["ft"] = rng.choice([v for v in FRAME_VALUES.values() if v != f["ft"]])
        elif g == "st":
            f2["st"] = rng.choice([SLOT_VALUES[n] for n in sorted(VOICE_SLOTS) if SLOT_VALUES[n] != f["st"]])
        else:
            b = bytearray.fromhex(get_res(f, g))
            b[rng.randrange(len(b))] ^= 1 << rng.randrange(8)
            set_res(f2, g, b.hex())
        out.append(f2)
    return out


def constructs(frame: bytes) -> bool:
    """both burst entry points build the frame (the Burst constructor's own refusals are outside the model)"""
    for path in ("raw", "kaitai"):
        line, _, opaque = view(path, frame)
        if opaque or is_err(line):
            return False
    return True


def episode_frames(rng, pool, n_other=2, with_errors=False):
    """[X, three single-field neighbours of X, unrelated generated frames, a captured frame] with in-range flags;
    with_errors: plus frames some / all entry points refuse (undefined call or slot type: all four; second header
    other than 5a5a: the two parser-object entry points) - errs maps the frame index to the refusing entry points"""
    while True:
        fx = gen_frame(rng, pool, wf_bias=1.0) if rng.random() < 0.6 else fields_of_captured(rng.choice(CAPTURED))
        if constructs(build_frame(fx)):
            break
    fs = [fx] + variants(rng, fx) + [gen_frame(rng, pool, wf_bias=1.0) for _ in range(n_other)] + [fields_of_captured(rng.choice(CAPTURED))]
    fs = [f for f in fs if constructs(build_frame(f))]
    frames, inr, errs = [], [], {}
    for f in fs:
        fr = build_frame(f)
        if fr not in frames:
            frames.append(fr)
            inr.append(bool(in_range(f)))
    if with_errors:
        for what in rng.sample(["ct", "st", "second"], rng.choice([1, 2])):
            f2 = dict(fx)
            if what == "ct":
                f2["ct"] = rng.choice([3, 0x0B, 0x7E, 0xFF])
            elif what == "st":
                f2["st"] = rng.choice([0x0001, 0x1112, 0xDDDE, 0xFFFE])
            else:
                f2["second"] = rng.choice(["a5a5", "5a5b", "0000"])
            fr = build_frame(f2)
            if fr not in frames:
                errs[len(frames)] = ENTRY if what != "second" else ("kai", "bkai")
                frames.append(fr)
                inr.append(False)
    return frames, inr, errs


class Planner:
    """builds the steps of a history and tracks what each handle will read as (to choose *other* values)"""

    def __init__(self, rng, pool, frames, errs=None):
        self.rng, self.pool, self.frames, self.errs = rng, pool, frames, errs or {}
        self.steps, self.m, self.is_burst = [], [], []

    def dec(self, ep, fi, same):
        self.steps.append(["dec", ep, fi, bool(same)])
        if ep in self.errs.get(fi, ()):
            return None  # refused: nothing is handed out
        self.m.append(dict(layout_obj(self.frames[fi])))
        self.is_burst.append(ep in ("braw", "bkai"))
        return len(self.m) - 1

    def set(self, ref, attr, oor_p=0.0):
        v = other_value(self.rng, attr, self.m[ref][attr], self.pool)
        rg = ATTR_RANGE[attr]
        if self.rng.random() < oor_p and not isinstance(rg, list):
            # a value outside the attribute's range (too long / too short octets, an integer one past the top): the
            # serialiser's slicing and overflow errors against the model; no oracle for this object from here on
            if isinstance(rg, int):
                v = self.rng.choice([rg, rg + 1, rg * 256])
            else:
                n = int(rg[1:])
                v = bytes(self.rng.randrange(256) for _ in range(self.rng.choice([max(0, n - 1), n + 1, n + 2]))).hex() or "-"
        self.m[ref][attr] = v
        self.steps.append(["set", ref, attr, v])

    def bset(self, ref, attr):
        rng = self.rng
        v = {"timeslot": rng.choice([1, 2]), "sequence_no": rng.randrange(256), "source_radio_id": rand_id(rng),
             "target_radio_id": 1 + rng.randrange((1 << 24) - 1), "full_bits": "invert"}[attr]
        self.steps.append(["bset", ref, attr, v])

    def ser(self, ref):
        self.steps.append(["ser", ref])

    def read(self, ref):
        self.steps.append(["read", ref])


def plan_restamp(rng, pool, frames):
    """the bridge history: first arrivals of X by every entry point; serialise, re-stamp (all 18 public attributes, or
    the five a bridge changes), serialise; the same octets again by every entry point (same input object / equal copy);
    the neighbours of X and unrelated frames; X once more; serialise everything"""
    p = Planner(rng, pool, frames)
    eps = list(ENTRY)
    rng.shuffle(eps)
    for ep in eps[: rng.choice([1, 2, 4, 4])]:
        p.dec(ep, 0, False)
    if rng.random() < 0.5:
        p.dec(rng.choice(ENTRY), 0, True)
    n0 = len(p.m)
    for t in rng.sample(range(n0), rng.choice([1, 1, 2, n0]) if n0 > 1 else 1):
        p.ser(t)
        attrs = list(BRIDGE_ATTRS) if rng.random() < 0.4 else [a for a, _ in ATTRS]
        rng.shuffle(attrs)
        for a in attrs:
            p.set(t, a)
            if rng.random() < 0.15:
                p.ser(t)
        p.ser(t)
        if p.is_burst[t]:
            for a in rng.sample(BURST_ATTRS, rng.choice([1, 3, 5])):
                p.bset(t, a)
    for ep in ENTRY:
        for same in (True, False):
            p.dec(ep, 0, same)
    for fi in range(1, len(frames)):
        p.dec(rng.choice(ENTRY), fi, False)
    p.dec(rng.choice(ENTRY), 0, True)
    for r in range(len(p.m)):
        p.ser(r)
    return p.steps


def plan_random(rng, pool, frames, n, errs=None):
    p = Planner(rng, pool, frames, errs)
    p.dec(rng.choice(ENTRY), 0, False)
    for _ in range(n):
        r = rng.random()
        k = len(p.m)
        if r < 0.4:
            p.dec(rng.choice(ENTRY), rng.choice([0, 0, rng.randrange(len(frames))]), rng.random() < 0.5)
        elif r < 0.7:
            p.set(rng.randrange(k), rng.choice(ATTRS)[0], oor_p=0.08)
        elif r < 0.78:
            bs = [i for i in range(k) if p.is_burst[i]]
            if bs:
                p.bset(rng.choice(bs), rng.choice(BURST_ATTRS))
        elif r < 0.92:
            p.ser(rng.randrange(k))
        else:
            p.read(rng.randrange(k))
    return p.steps


def plan_hold(rng, pool, frames):
    """many different frames decoded and kept (more than any plausible cache / pool holds), some re-stamped, the first
    ones decoded again, everything read back at the end"""
    p = Planner(rng, pool, frames)
    for fi in range(len(frames)):
        p.dec(rng.choice(ENTRY), fi, False)
    for t in rng.sample(range(len(frames)), min(24, len(frames))):
        for a in rng.sample([a for a, _ in ATTRS], 4):
            p.set(t, a)
        if p.is_burst[t]:
            p.bset(t, rng.choice(BURST_ATTRS))
    for fi in list(range(min(12, len(frames)))) + rng.sample(range(len(frames)), min(12, len(frames))):
        p.dec(rng.choice(ENTRY), fi, rng.random() < 0.5)
    return p.steps


def history_probe(ctx, rng, pool, hist_lines):
    def episode(tag, frames, inr, steps, window=6):
        lines, bad, stats = run_history(frames, inr, steps, window)
        hist_lines.extend(lines)
        ctx.case(("history", tag, [f.hex() for f in frames], steps), nontrivial=True,
                 sample={"tag": "history:" + tag, "frames": [f.hex() for f in frames[:2]], "steps": steps[:12]} if ctx.hist.get(f"hist:episodes:{tag}", 0) == 1 else None)
        ctx.count(f"hist:episodes:{tag}")
        for k, v in stats.items():
            ctx.count(f"hist:steps:{k}", v)
        for st in steps:
            if st[0] == "dec":
                ctx.count(f"hist:entry:{st[1]}:{'same-input-object' if st[3] else 'equal-copy'}")
            elif st[0] in ("set", "bset"):
                ctx.count(f"hist:{st[0]}:{st[2]}")
                if st[0] == "set" and is_oor(st[2], st[3]):
                    ctx.count("hist:set:out-of-range value (correspondence only)")
        for b in bad:
            ctx.fail(b["kind"], {"history": steps[: b["at"] + 1], "frames": [f.hex() for f in frames], "in_range": inr, "failing_step": b["at"]},
                     b["what"], expected=b["expected"], actual=b["actual"])
        return bool(bad)

    found = 0
    # the captured frames of the demo kind first: wake-up, sync, voice - every entry point, bridge re-stamp
    for _ in range(ctx.budget(60, 1500)):
        frames, inr, _ = episode_frames(rng, pool)
        found += episode("restamp", frames, inr, plan_restamp(rng, pool, frames))
        if found >= 8:
            return
    for _ in range(ctx.budget(40, 1500)):
        frames, inr, errs = episode_frames(rng, pool, n_other=rng.choice([0, 2, 4]), with_errors=rng.random() < 0.5)
        found += episode("random", frames, inr, plan_random(rng, pool, frames, rng.choice([20, 40, 80]), errs))
        if found >= 8:
            return
    for _ in range(ctx.budget(1, 6)):
        frames, inr = [], []
        want = 300 if not ctx.thorough() else 1200
        for h in CAPTURED:
            frames.append(bytes.fromhex(h))
            inr.append(True)
        while len(frames) < want:
            f = gen_frame(rng, pool, wf_bias=1.0)
            fr = build_frame(f)
            if fr not in frames and constructs(fr):
                frames.append(fr)
                inr.append(bool(in_range(f)))
        found += episode("hold", frames, inr, plan_hold(rng, pool, frames), window=2)


def hold_corpus():
    """every captured frame decoded by every entry point; the objects are kept by the harness until the end of the run"""
    burst_mod, H, K = L()
    kept = []
    for h in CAPTURED:
        frame = bytes.fromhex(h)
        want = layout_obj(frame)
        for ep in ENTRY:
            res = call(lambda: H.from_ipsc_bytes(frame) if ep == "raw" else H.from_kaitai(K.from_bytes(frame)) if ep == "kai"
                       else burst_mod.Burst.from_hytera_ipsc(frame if ep == "braw" else K.from_bytes(frame)))
            if is_err(res):
                continue  # reported by the stateless oracle
            b = res if ep in ("braw", "bkai") else None
            o = res if b is None else b.hytera_ipsc
            tgt = bool(want and want["destination_radio_id"])
            kept.append({"frame": h, "entry": ep, "o": o, "b": b, "tgt": tgt, "first": read_obj(o), "bfirst": read_burst(b, tgt) if b is not None else None})
    return kept


def check_corpus_held(ctx, kept):
    ids = {}
    for e in kept:
        cur = read_obj(e["o"])
        curb = read_burst(e["b"], e["tgt"]) if e["b"] is not None else None
        inp = {"frame": e["frame"], "entry": e["entry"], "held_over_run": True}
        if cur != e["first"] or curb != e["bfirst"]:
            ctx.fail("held-result-changed", inp, f"the object entry point '{e['entry']}' handed out for a captured frame at the start of the run reads differently at its end "
                     "(nothing was assigned to it)", expected=[e["first"], e["bfirst"]], actual=[cur, curb])
            return
        for x in (e["o"], e["b"], e["b"].full_bits if e["b"] is not None else None):
            if x is not None and id(x) in ids:
                ctx.fail("aliased-result", inp, f"entry point '{e['entry']}' handed out a mutable object that another call ({ids[id(x)]}) had handed out before",
                         expected="a new object per call", actual="one shared object")
                return
            if x is not None:
                ids[id(x)] = f"{e['entry']} {e['frame']}"
    ctx.count("hist:kept-until-end-of-run", len(kept))


def run(ctx):
    patch_burst()
    ctx.rule = (
        "72-octet frames assembled from fields by the layout of the property (independent of the library): sequence 0..255, "
        "all 4 packet / 16 slot / 6 frame / 4 call types, both timeslots, colour 0..15 as the repeated nibble word, 24-bit ids "
        "(boundaries favoured) in the upper three octets of their words, random first header / reserved octets / pad octet, "
        "payload = a 33-octet burst that constructs as the indicated kind, built with the library itself (captured bursts, their "
        "parsed content re-encoded with other colour codes and addresses, random rate-1/2, rate-3/4 and rate-1 blocks through "
        "BPTC / trellis, random vocoder frames around voice sync patterns or generated EMBs, arbitrary octets for sync / wake-up); "
        "~20 % leave the range in one respect (undefined type values, colour word with differing nibbles, non-zero low id octet, "
        "second header != 5a5a, payload that does not construct) and, with mutated / truncated / extended frames, only feed the "
        "correspondence. Every frame goes through both decoder paths, the object view, the burst view and the serialiser. "
        "Reserved octets (first header, 3 / 7 / 2 / 2 / 1 reserved, pad) are drawn from a dictionary built from the captured frames' "
        "actual blocks and the class defaults, from single-octet perturbations of those blocks, or at random; res-cross = every "
        "dictionary block of every reserved field x every value of every other field (timeslot, packet / call / slot / frame type, "
        "colour, boundary sequence numbers and ids), res-perturb = every octet of every dictionary block set to boundary values, "
        "neighbours of the original and the octets of the other fields of the same frame (slot number, sequence, colour, type "
        "values, id octets), on both timeslots (quick: default + 3 captured blocks per field; thorough: all blocks x packet types). "
        "Histories (hist:*): for each entry point (from_ipsc_bytes, from_kaitai, Burst.from_hytera_ipsc on bytes / on the parser "
        "object, as_ipsc_bytes) the same octets are decoded repeatedly (same input object and an equal copy), every result is kept, "
        "every public attribute of a kept HyteraIPSC (and timeslot / sequence / ids / payload bits of a kept burst) is assigned "
        "another in-range value, the same octets, single-field neighbours of the frame and unrelated frames are decoded again, objects "
        "are serialised before and after re-stamping; after every step the kept objects must read as decoded / as re-stamped, every "
        "decode must be a new object reading as the 72 octets encode (layout of the property), every serialisation must equal the "
        "layout applied to the object's current attributes; one long history keeps 300 (thorough 1200) distinct frames; all captured "
        "frames are decoded by every entry point at the start and read back at the end of the run. "
        "Distinct = distinct frame octets / distinct histories."
    )
    ctx.trusted_base += [
        "Lean 4.33 kernel",
        "tools/extract_ipsc.py (calls the five IPSC enumerations on all 2^8 / 2^16 values, is_vocoder and is_wakeup on all members)",
        "hand-written model Model/Ipsc.lean tied to hytera_ipsc.py, bits_bytes.py, Burst.from_hytera_ipsc and the generated Kaitai parser by this run's correspondence",
        "kaitaistruct and the generated parser ip_site_connect_protocol.py in site-packages (their field map is modelled, not verified)",
        "the Burst constructor is opaque here (C01): the harness records the burst type requested from it",
        "histories: the model hands out a new handle per decode by construction (Model/Ipsc.lean Heap / HOp); that the real code does is what the history run checks (object identity, reads after foreign assignments)",
    ]
    ctx.assumptions += [
        "the frame carries each 24-bit id in the upper three octets of a little-endian 32-bit word whose low octet is 0, and the colour code as the word cc*0x1111 (all 46 captured frames do)",
        "warnings raised by the _missing_ hooks of PacketType / FrameType are not errors (default warning filters)",
        "the public attributes of a decoded HyteraIPSC may be assigned by the caller (the class exposes them 'to be possibly changed by implementing party'); a decode or a kept object must not be affected by assignments to another result",
    ]
    rng = ctx.rng
    views, objs, sers, misc = [], [], [], []
    pairs = (views, objs, sers)
    # corpus: the captured frames of the test-suite (every one failed before 0c42cee on the raw path / serialiser)
    for h in CAPTURED:
        frame_case(ctx, fields_of_captured(h), bytes.fromhex(h), pairs, "captured")
    # every captured frame decoded by every entry point and KEPT until the end of the run (read back after all other work)
    long_held = hold_corpus()
    pool = make_pool(rng, 6 if not ctx.thorough() else 40)
    for k, v in pool.items():
        ctx.count(f"pool:{k}", len(v))
    # all type combinations once (both tiers): 16 slot x 4 call x 2 timeslot, packet/frame type cycling
    i = 0
    for sn in SLOT:
        for cn in CALL:
            for tn in TS:
                f = gen_frame(rng, pool, wf_bias=1.0)
                f["st"], f["ct"], f["ts"] = SLOT_VALUES[sn], CALL_VALUES[cn], TS_VALUES[tn]
                f["pt"] = list(PACKET_VALUES.values())[i % 4]
                f["ft"] = list(FRAME_VALUES.values())[i % 6]
                payload, kind = pick_payload(rng, pool, sn, cn.startswith("Wakeup"))
                f["burst"], f["kind"] = payload.hex(), kind
                i += 1
                frame_case(ctx, f, build_frame(f), pairs, "type-sweep")
    # every sequence number, colour code, and id boundaries
    for s in range(256):
        f = gen_frame(rng, pool, wf_bias=1.0)
        f["seq"] = s
        f["cc"] = s % 16
        f["ccword"] = bytes([f["cc"] * 17] * 2).hex()
        f["dst"] = [0, 1, 255, 256, 65535, 65536, 0xFFFFFF, 0x800000][s % 8]
        f["src"] = (s * 65793) & 0xFFFFFF
        f["dstword"], f["srcword"] = idword(f["dst"]), idword(f["src"])
        frame_case(ctx, f, build_frame(f), pairs, "value-sweep")
    # reserved blocks of the captured frames x the other fields, single-octet perturbations (fixed share of the budget)
    reserved_sweep(ctx, rng, pool, pairs)
    # histories: every entry point, results kept / re-stamped / decoded again / serialised
    hist_lines = []
    history_probe(ctx, rng, pool, hist_lines)
    n = ctx.budget(2000, 100000)
    for _ in range(n):
        f = gen_frame(rng, pool)
        frame = build_frame(f)
        frame_case(ctx, f, frame, pairs, "random")
        if rng.random() < 0.15:
            frame_case(ctx, None, mutate(rng, frame), pairs, "mutated")
    # byteswap_bytes on every length 0..70 (odd lengths included), half_byte_to_bytes, build from fields with default reserved octets
    from okdmr.dmrlib.utils.bits_bytes import byteswap_bytes, half_byte_to_bytes

    kept_misc = []  # results of the two helpers, read again at the end
    for ln in list(range(0, 71)) * (1 if not ctx.thorough() else 10):
        d = bytes(rng.randrange(256) for _ in range(ln))
        r = call(byteswap_bytes, d)
        misc.append((f"ipsc.swap {hx(d)}", r if is_err(r) else hx(r)))
        if not is_err(r):
            kept_misc.append(("byteswap_bytes", d.hex(), r, hx(r)))
        ctx.case(("swap", d.hex()))
        if not is_err(r):
            r2 = call(byteswap_bytes, r)
            if r2 != d:
                ctx.fail("byteswap-involution", {"data": d.hex()}, "byteswap_bytes applied twice does not give the input back", expected=d.hex(), actual=r2 if is_err(r2) else r2.hex())
    for h in list(range(0, 40)) + [255, 256, 4095]:
        for k in (0, 1, 2, 3):
            r = call(half_byte_to_bytes, h, k)
            misc.append((f"ipsc.half {h} {k}", r if is_err(r) else hx(r)))
            if not is_err(r):
                kept_misc.append(("half_byte_to_bytes", f"{h} {k}", r, hx(r)))
    _, H, _ = L()
    from okdmr.dmrlib.hytera.ipsc_elements.call_type import CallType
    from okdmr.dmrlib.hytera.ipsc_elements.frame_type import FrameType
    from okdmr.dmrlib.hytera.ipsc_elements.packet_type import PacketType
    from okdmr.dmrlib.hytera.ipsc_elements.slot_type import SlotType
    from okdmr.dmrlib.hytera.ipsc_elements.timeslot import Timeslot

    for _ in range(ctx.budget(300, 5000)):
        ct, st, ft, pt, ts = rng.randrange(4), rng.randrange(16), rng.randrange(6), rng.randrange(4), rng.randrange(2)
        seq = rng.choice([0, 255, 256, rng.randrange(256)])
        cc = rng.choice([0, 15, 16, 17, 255, rng.randrange(16)])
        dst = rng.choice([0, 0xFFFFFF, 0x1000000, rand_id(rng)])
        src = rng.choice([0, 0xFFFFFF, 0x1000000, rand_id(rng)])
        payload = bytes(rng.randrange(256) for _ in range(rng.choice([33, 33, 33, 32, 34, 0, 1])))
        pad = bytes(rng.randrange(256) for _ in range(rng.choice([1, 1, 1, 0, 2])))

        def mk():
            o = H(call_type=getattr(CallType, CALL[ct]), frame_type=getattr(FrameType, FRAME[ft]), packet_type=getattr(PacketType, PACKET[pt]),
                  slot_type=getattr(SlotType, SLOT[st]), timeslot=getattr(Timeslot, TS[ts]), sequence_number=seq, color_code=cc,
                  destination_radio_id=dst, source_radio_id=src, payload=payload)
            o.payload_pad = pad
            return o.as_ipsc_bytes()

        r = call(mk)
        misc.append((f"ipsc.build {ct} {st} {ft} {pt} {ts} {seq} {cc} {dst} {src} {hx(payload)} {hx(pad)}", r if is_err(r) else hx(r)))
        ctx.case(("build", ct, st, ft, pt, ts, seq, cc, dst, src, payload.hex(), pad.hex()))
    # objects kept over the whole run
    for fn, arg, r, first in kept_misc:
        if hx(r) != first:
            ctx.fail("held-result-changed", {"helper": fn, "argument": arg}, f"the octets returned by {fn} changed while the caller kept them", expected=first, actual=hx(r))
            break
    check_corpus_held(ctx, long_held)
    if not ctx.search_only and ctx.driver_ok:
        ctx.correspond("histories (objects kept, re-stamped, decoded again, serialised)", hist_lines)
        ctx.correspond("Burst.from_hytera_ipsc (both paths)", views)
        ctx.correspond("HyteraIPSC.from_ipsc_bytes / from_kaitai", objs)
        ctx.correspond("HyteraIPSC.as_ipsc_bytes of decoded frames", sers)
        ctx.correspond("byteswap / half_byte / as_ipsc_bytes from fields", misc)


def replay(obj):
    patch_burst()
    fl = obj.get("failure") or {}
    inp = fl.get("input") or {}
    print(json.dumps(obj.get("type")), fl.get("what"))
    if "data" in inp:
        from okdmr.dmrlib.utils.bits_bytes import byteswap_bytes

        d = bytes.fromhex(inp["data"])
        r = call(lambda: byteswap_bytes(byteswap_bytes(d)))
        print("implementation: byteswap_bytes(byteswap_bytes(", d.hex(), ")) =", r if is_err(r) else r.hex())
        return 0 if r == d else 1
    if "history" in inp:
        frames = [bytes.fromhex(h) for h in inp["frames"]]
        lines, bad, _ = run_history(frames, inp["in_range"], inp["history"])
        print("history of", len(inp["history"]), "steps over", len(frames), "frames; model lines / implementation answers:")
        for line, out in lines[-12:]:
            print("  ", line[:100], "->", out[:160])
        if bad:
            b = bad[0]
            print("STILL FAILS at step", b["at"], inp["history"][b["at"]] if b["at"] < len(inp["history"]) else "(end)", ":", b["kind"], b["what"])
            print("  expected:", b["expected"])
            print("  actual:  ", b["actual"])
            return 1
        print("property holds on this history now")
        return 0
    if inp.get("held_over_run"):
        # the object was kept over the whole run: re-run the reduced form (all captured frames by all entry points, kept, read back)
        class _C:  # minimal stand-in for the context
            def __init__(self):
                self.failures, self.hist = [], {}

            def fail(self, kind, input, what, expected=None, actual=None):
                self.failures.append((kind, what, expected, actual))

            def count(self, k, n=1):
                pass

        c = _C()
        kept = hold_corpus()
        for h in CAPTURED:
            for path in ("raw", "kaitai"):
                view(path, bytes.fromhex(h)), obj(path, bytes.fromhex(h)), ser(path, bytes.fromhex(h))
        check_corpus_held(c, kept)
        if c.failures:
            print("STILL FAILS:", *c.failures[0])
            return 1
        print("objects kept over a reduced run (captured frames only) read as they did; the full run is needed to reproduce")
        return 0
    if "helper" in inp or "frame" not in inp:
        print("nothing to replay")
        return 0
    frame = bytes.fromhex(inp["frame"])
    for path in ("raw", "kaitai"):
        line, _, _ = view(path, frame)
        print(f"implementation [{path}]: burst view =", line)
        print(f"implementation [{path}]: as_ipsc_bytes =", ser(path, frame))
    print("model lines: ipsc.raw / ipsc.kai / ipsc.ser.raw / ipsc.ser.kai", inp["frame"])
    f = inp.get("fields")
    if f and in_range(f):
        r = oracle(f, frame)
        if r:
            print("STILL FAILS:", r[0], r[1], "expected:", r[2], "actual:", r[3])
            return 1
        print("property holds on this input now")
    return 0
