"""C13 — Hytera IPSC frames map to bursts identically by either decoder and re-encode (DESIGN §5 C13)."""
import json
import warnings

from common import impl_error

PROP = "C13"
MODULES = ["C13"]
GEN = ["Ipsc"]
MATCHERS = {}

# member orders of tools/extract_ipsc.py (indices on the line protocol)
PACKET = ["TypeA", "TypeB", "TerminatorWithLC", "PIHeader"]
CALL = ["PrivateCall", "GroupCall", "WakeupCall_2", "WakeupCall_c"]
FRAME = ["Data", "VoiceSync", "DataSyncOrCSBK", "DataHeader", "Voice", "Sync"]
SLOT = [
    "PrivacyIndicator", "VoiceLCHeader", "TerminatorWithLC", "CSBK", "DataHeader", "Rate12Data", "Rate34Data",
    "VoiceFrameA", "VoiceFrameB", "VoiceFrameC", "VoiceFrameD", "VoiceFrameE", "VoiceFrameF", "Wakeup",
    "VoiceOrDataSync", "Undefined",
]
TS = ["Timeslot_1", "Timeslot_2"]

# the frame layout as the property states it (values, independent of the library's tables)
PACKET_VALUES = {"TypeA": 0x41, "TypeB": 0x42, "TerminatorWithLC": 0x43, "PIHeader": 0x01}
CALL_VALUES = {"PrivateCall": 0, "GroupCall": 1, "WakeupCall_2": 2, "WakeupCall_c": 0x0C}
FRAME_VALUES = {"Data": 0x0000, "VoiceSync": 0x1111, "DataSyncOrCSBK": 0x3333, "DataHeader": 0x6666, "Voice": 0xBBBB, "Sync": 0xEEEE}
SLOT_VALUES = {n: 0x1111 * i for i, n in enumerate(SLOT)}
TS_VALUES = {"Timeslot_1": 0x1111, "Timeslot_2": 0x2222}
VOICE_SLOTS = {"VoiceFrameA", "VoiceFrameB", "VoiceFrameC", "VoiceFrameD", "VoiceFrameE", "VoiceFrameF"}

CAPTURED = [
    "5a5a5a5a0000000042000501020000002222eeee555533334000bd0000008000150000000800fd00230038003b0038003b00b41200447eb7ffffef0844400000fd0800003b382300",
    "5a5a5a5a0000000042000501020000002222dddd555500004000000000000000000000000000020002000000000000000000000000000000b2dd503250380c00000014000000ff01",
    "5a5a5a5a0300000041000501020000002222999911110000100038d424a26d410436c0dda2f46165307000904607a54d4715ff8e3685dd23255501e3000001000900000022072800",
    "5a5a5a5a8f00000043000501020000002222222255550000409c5e06ca0ac804e823d04aa04b9d1457ff5dd7dff52001600d7039003cc12d031c003cca0a01006f0000003c382300",
    "5a5a5a5a0000000042000501020000002222eeee11111111402800000000000000000000090028000700220068291110c8291110282a1110801d0067080901000900000022072800",
    "5a5a5a5aff00000041000501020000002222bbbb1111000040548adb76e648040a81cad1c5ba0176635063f37200816df708c868af68a235db99008e76e601000900000022072800",
    "5a5a5a5a0001000041000501020000002222cccc111100004006b83a07c49456750ece2681f6413100100000250e1c20ff8689eb34e57f442cc500f607c401000900000022072800",
    "5a5a5a5afb0000004100050102000000222277771111000040569bec50c139eee49d9eeae5fba716fd55f77d735f89eb6e689fea30a64bc52248002e50c101000900000022072800",
    "5a5a5a5ad40100004100050102000000222211111111000040f08047a3158e16287641f422596dc457ff5dd7def548310023e03c002e5124042a00fba315000075d40300a9352600",
    "5a5a5a5ad6010000410005010200000022227777111100004013e8b9528173612a00b96b81e86752fd55f77d715f00736b2ae8b9528173612a00006b5281000075d40300a9352600",
    "5a5a5a5add0100004100050102000000222288881111000040449eec52e0d60074d5ec1de09e01521032220111d9d5d61d749eec52e0d60174d5001d52e0000075d40300a9352600",
    "5a5a5a5adc0100004100050102000000222277771111000040568efd52e0d60075c5fd0de08e0752fd55f77d705fd5d61d759eec52e0d60174d5001d52e0000075d40300a9352600",
    "5a5a5a5adb01000041000501020000002222cccc111100004006dc8c16e4574cb8c4dfddc3ae417600100000260ec5f60d75aedf76c3f64675c5000d16e4000075d40300a9352600",
    "5a5a5a5ad22b00004100050102000000222244445555000040950a391d32802bb93b9221c163bd1557ff5dd7d5f52d5c5211f0218729d34aaa06006d1d3200003b38230063382300",
    "5a5a5a5a872a00004100050102000000222244445555000040910f39d932282ba139b224016ebd1557ff5dd7d5f5105c9a1132208b2d1b43aa0c006bd93200003b38230063382300",
    "5a5a5a5a862a00004100050102000000222266665555000040b02f25b5e2b622e2f2d276e5320d9657ff5dd7dcf51fe3a1ef2f2202032df2207200e2b5e20000633823003b382300",
    "5a5a5a5a852a00004100050102000000222244445555000040903b3141203d2865701a3761f6bd1557ff5dd7d5f5185cde1de0314f24db13ba15002141200000633823003b382300",
    "5a5a5a5a02e0000001000501020000002222222211110000405c7b168990007cb99b434101430d847f5dfd777d756b9de0513022c7ca1f0194140000630201000900000022072800",
    "5a5a5a5a570300004100050102000000222233335555000040f5c545f705e8bd0c26080850b4fd9457ff5dd7dcf5e6ae3877796501781fbb1a330046f7050000fc372300fe372300",
    "5a5a5a5a50030000410005010200000022224444555500004091613a89349c25697b03a66368bd5557ff5dd7d5f5785db87af534662b1d4a3794000989340000fc372300fe372300",
    "5a5a5a5a0d05000041000501020000002222777755550000401382a900c0a043ce88a4ee83f82770fd55f77d775fca2cc4aec5e043821a3162c2004200c001006f000000fc372300",
    "5a5a5a5a0e05000041000501020000002222888855550000405039d447807d326646b3e88005352530200230f4885a4c48c824a101825937a85a006a478001006f000000fc372300",
    "5a5a5a5a0f05000041000501020000002222999955550000407775dc07c518074810ef0ee74405069a600850a2164238080c2882e8cc5c3764f200ce07c501006f000000fc372300",
    "5a5a5a5a1005000041000501020000002222aaaa555500004033738fc8529055805a9cca706335cc0160a010a5c64bb4ca804aaf12a2d4c4c4f500aac85201006f000000fc372300",
    "5a5a5a5a1105000041000501020000002222bbbb55550000402194aa9ed656db622cc12234cff55331432be89bd127e946e221e84027e4ed622e00629ed601006f000000fc372300",
    "5a5a5a5a1205000041000501020000002222cccc55550000405303c82326d1ed005fce062125a512c10964d1cb3f5b4dea0a24ce12205dbb2a4800ea232601006f000000fc372300",
    "5a5a5a5a0000000042000501010000001111eeee555511114028000000000000000000006f0023003700fa00342a2c10942a2c10f42a2c10835600f0360801006f000000fa372300",
    "5a5a5a5a0000000042000501010000001111eeee5555eeee40000500000000005000000046000000410000004100000000000024000000000000b543000001006f000000fa372300",
    "5a5a5a5a0000000042000501010000001111dddd555500004000000000000000000000000100020002000100000000000000000000000000ffffef082a00000000000000fb372300",
    "5a5a5a5a0000000042000501020000002222dddd555500004000000000000000000000000100020002000100000000000000000000000000ffffef082a00000000000000fb372300",
    "5a5a5a5a0000000042000501010000001111dddd555500004000000000000000000000000100020002000100000000000000000000000000ffffef082a0000000000000000000000",
    "5a5a5a5a0000000042000501020000002222dddd555500004000000000000000000000000100020002000100000000000000000000000000ffffef0891d1000000000000fa372300",
    "5a5a5a5a660000004100050101000000111111111111000040b951018849a00b381b4016806c6dc457ff5dd7def5993218016020a005412310390033884901000900000022072800",
    "5a5a5a5a670000004100050101000000111111111111000040b951018849a00b381b4016806c6dc457ff5dd7def5993218016020a005412310390033884901000900000022072800",
    "5a5a5a5a690000004100050101000000111100001111000040905b1219a4cc30a1d92317220a0d8457ff5dd7ddf53f9dc071c040a5085f0b1d1c001919a401000900000022072800",
    "5a5a5a5a0000000042000501010000001111eeee11111111400000001000400000000000090028000700220000000000000000000000000030305032503801000900000022072800",
    "5a5a5a5a2003000041000501020000002222777755550000807325ef402209df1b7f9caf6575e774fd55f77d795f9f41364a68ca604641ec96a400b3402201006f000000fa372300",
    "5a5a5a5a610400004100050102000000222211115555000040b970078009fc078821205220655d5457ff5dd7d8f57854d004d03e003e012a036500f3800901006f000000fc372300",
    "5a5a5a5a6204000041000501020000002222777755550000401a4abacd1c74706c3af98a7a2957affd55f77d735f8e1e002cd30912a74156e68600c0cd1c01006f000000fc372300",
    "5a5a5a5a63040000410005010200000022228888555500004031369242a379718a59ca2ad74055daa020f030f3f889fe8a6c99d641c55111ae3b000a42a301006f000000fc372300",
    "5a5a5a5a64040000410005010200000022229999555500004003ce9167a6a153e49cf648c7997505a06060a0a0667e356eca60c823c0d0234000008267a601006f000000fc372300",
    "5a5a5a5a6504000041000501020000002222aaaa555500004007858e30e61d73a2dfce6481d4557591607042a5c60e53cea2968c11c71833e4df004430e601006f000000fc372300",
    "5a5a5a5a6604000041000501020000002222bbbb55550000401568bb16c47955c40abc8ce05e15362341b35290312a9400c829076d9b5157e290008416c401006f000000fc372300",
    "5a5a5a5a6704000041000501020000002222cccc55550000401325b026a21c13ca5ee10cc5467522c10964d1c13fde50a2ae37b024a23c33ee59000826a201006f000000fc372300",
    "5a5a5a5ab00400004300050102000000222222225555000040b91f0754094c07f021505280659d5457ff5dd7dff56c01e807b03940320122037c00c0540901006f000000fc372300",
    "5a5a5a5a0c01000041000501020000002222cccc1111000040430dfd63c51649510c98c3c4101132001000002c0e732111ad6ca004a3317cf40400c063c501000900000022072800",
]


def L():
    """the library under test (imported lazily: the harness must start even if an import is broken)"""
    import okdmr.dmrlib.etsi.layer2.burst as burst_mod
    from okdmr.dmrlib.hytera.hytera_ipsc import HyteraIPSC
    from okdmr.kaitai.hytera.ip_site_connect_protocol import IpSiteConnectProtocol

    return burst_mod, HyteraIPSC, IpSiteConnectProtocol


def hx(b) -> str:
    return bytes(b).hex() if len(b) else "-"


def call(fn, *a):
    try:
        with warnings.catch_warnings():
            warnings.simplefilter("ignore")
            return fn(*a)
    except BaseException as e:  # noqa: every exception of the real code is an observable
        return impl_error(e)


def is_err(x) -> bool:
    return isinstance(x, str) and x.startswith("ERR ")


# ------------------------------------------------------------------------------------------------
# recording the burst type requested from the Burst constructor (the model treats the constructor as opaque)
# ------------------------------------------------------------------------------------------------
STATE = {"bt": None, "opaque_error": False, "patched": False}


def patch_burst():
    if STATE["patched"]:
        return
    burst_mod, _, _ = L()
    orig = burst_mod.Burst.__init__

    def recording_init(self, full_bits=None, burst_type=None, *a, **kw):
        from okdmr.dmrlib.etsi.layer2.elements.burst_types import BurstTypes

        if burst_type is None:
            burst_type = BurstTypes.Undefined
        STATE["bt"] = burst_type
        try:
            if full_bits is None:
                return orig(self, burst_type=burst_type, *a, **kw)
            return orig(self, full_bits, burst_type, *a, **kw)
        except BaseException:
            # the 264-bit assertion is modelled; everything else the constructor does with the content is not
            if full_bits is None or len(full_bits) == 264:
                STATE["opaque_error"] = True
            raise

    burst_mod.Burst.__init__ = recording_init
    STATE["patched"] = True


def bt_name(bt) -> str:
    return {"Undefined": "undefined", "Vocoder": "vocoder", "DataAndControl": "data"}.get(getattr(bt, "name", ""), str(bt))


def cls_name(b) -> str:
    return {"HyteraIPSCSync": "sync", "HyteraIPSCWakeup": "wakeup", "Burst": "burst"}.get(type(b).__name__, type(b).__name__)


def view(path: str, frame: bytes):
    """(canonical view line | ERR, burst | None, opaque constructor error?) for one decoder path"""
    burst_mod, _, K = L()
    STATE["bt"] = None
    STATE["opaque_error"] = False

    def go():
        arg = frame if path == "raw" else K.from_bytes(frame)
        return burst_mod.Burst.from_hytera_ipsc(arg)

    b = call(go)
    if is_err(b):
        return b, None, STATE["opaque_error"]
    from okdmr.dmrlib.utils.bits_bytes import bits_to_bytes

    i = b.hytera_ipsc
    line = "%s %s %s %d %d %d %d %d" % (
        cls_name(b), bt_name(STATE["bt"]), hx(bits_to_bytes(b.full_bits)), b.timeslot, b.sequence_no,
        i.color_code, b.source_radio_id, i.destination_radio_id,
    )
    return line, b, False


def obj(path: str, data: bytes) -> str:
    """the HyteraIPSC object of one decoder path, canonical"""
    _, H, K = L()
    o = call(lambda: H.from_ipsc_bytes(data) if path == "raw" else H.from_kaitai(K.from_bytes(data)))
    if is_err(o):
        return o
    return show_obj(o)


def show_obj(o) -> str:
    rb = lambda x: hx(x) if isinstance(x, (bytes, bytearray)) else "NOTBYTES:" + type(x).__name__  # noqa: E731
    return " ".join(
        [
            str(CALL.index(o.call_type.name)), str(SLOT.index(o.slot_type.name)), str(FRAME.index(o.frame_type.name)),
            str(PACKET.index(o.packet_type.name)), str(TS.index(o.timeslot.name)), str(o.sequence_number),
            str(o.color_code), str(o.destination_radio_id), str(o.source_radio_id), rb(o.payload),
            rb(getattr(o, "payload_pad", b"")), rb(o.first_header), rb(o.second_header), rb(o.reserved_3),
            rb(o.reserved_7a), rb(o.reserved_2a), rb(o.reserved_2b), rb(o.reserved_1),
        ]
    )


def ser(path: str, data: bytes) -> str:
    _, H, K = L()
    o = call(lambda: H.from_ipsc_bytes(data) if path == "raw" else H.from_kaitai(K.from_bytes(data)))
    if is_err(o):
        return o
    r = call(o.as_ipsc_bytes)
    return r if is_err(r) else hx(r)


# ------------------------------------------------------------------------------------------------
# frames from fields (the layout of the property, written down independently of the library)
# ------------------------------------------------------------------------------------------------
def swap16(b: bytes) -> bytes:
    assert len(b) % 2 == 0
    out = bytearray()
    for i in range(0, len(b), 2):
        out += bytes([b[i + 1], b[i]])
    return bytes(out)


def build_frame(f) -> bytes:
    """f: first(2) seq r3(3) pt(int) r7(7) ts(int) st(int) ccword(2 octets hex) ft(int) r2a(2) burst(33) pad(int) r2b(2) ct(int)
    dstword(4 octets) srcword(4 octets) r1(1)"""
    return (
        bytes.fromhex(f["first"]) + bytes.fromhex(f.get("second", "5a5a")) + bytes([f["seq"]]) + bytes.fromhex(f["r3"])
        + bytes([f["pt"]]) + bytes.fromhex(f["r7"]) + f["ts"].to_bytes(2, "little") + f["st"].to_bytes(2, "little")
        + bytes.fromhex(f["ccword"]) + f["ft"].to_bytes(2, "little") + bytes.fromhex(f["r2a"])
        + swap16(bytes.fromhex(f["burst"]) + bytes([f["pad"]])) + bytes.fromhex(f["r2b"]) + bytes([f["ct"]])
        + bytes.fromhex(f["dstword"]) + bytes.fromhex(f["srcword"]) + bytes.fromhex(f["r1"])
    )


def idword(v: int, low: int = 0) -> str:
    return (bytes([low]) + v.to_bytes(3, "little")).hex()


def expected_class(f) -> str:
    """burst class the frame indicates"""
    st = {v: k for k, v in SLOT_VALUES.items()}.get(f["st"])
    ct = {v: k for k, v in CALL_VALUES.items()}.get(f["ct"])
    if st == "VoiceOrDataSync":
        return "sync"
    if st == "Wakeup" or ct in ("WakeupCall_2", "WakeupCall_c"):
        return "wakeup"
    return "burst"


def in_range(f) -> bool:
    """the frames the property quantifies over"""
    return (
        f.get("second", "5a5a") == "5a5a" and f["pt"] in PACKET_VALUES.values() and f["ct"] in CALL_VALUES.values()
        and f["ft"] in FRAME_VALUES.values() and f["st"] in SLOT_VALUES.values() and f["ts"] in TS_VALUES.values()
        and f.get("cc") is not None and f["ccword"] == bytes([f["cc"] * 17] * 2).hex()
        and f.get("dst") is not None and f["dstword"] == idword(f["dst"]) and f["srcword"] == idword(f["src"])
        and f.get("parses", False)
    )


def oracle(f, frame: bytes):
    """the property on the real code for an in-range frame; returns None or (kind, what, expected, actual)"""
    lr, br, _ = view("raw", frame)
    lk, bk, _ = view("kaitai", frame)
    if is_err(lr) or is_err(lk):
        return ("decoder-raises", "a decoder path raised on a well-formed frame", "two bursts", {"raw": lr, "kaitai": lk})
    if lr != lk:
        return ("paths-differ", "the raw-bytes path and the generic-parser path give different bursts", lk, lr)
    want = "%s %s %d %d %d %d %d" % (expected_class(f), f["burst"], 1 if f["ts"] == 0x1111 else 2, f["seq"], f["cc"], f["src"], f["dst"])
    for path, line, b in (("raw", lr, br), ("kaitai", lk, bk)):
        parts = line.split(" ")
        got = " ".join([parts[0]] + parts[2:])
        if got != want:
            return ("fields-differ", f"{path} path: class / payload / timeslot / sequence / colour / ids differ from what the frame encodes", want, got)
        t = call(lambda: b.target_radio_id)
        tw = f["dst"] if f["dst"] else call(b.guess_target_radio_id)
        if t != tw:
            return ("fields-differ", f"{path} path: target_radio_id differs from the destination id the frame encodes", tw, t)
        if b.hytera_ipsc.source_radio_id != f["src"]:
            return ("fields-differ", f"{path} path: hytera_ipsc.source_radio_id differs from the frame", f["src"], b.hytera_ipsc.source_radio_id)
        s = call(b.hytera_ipsc.as_ipsc_bytes)
        if s != frame:
            return ("reserialise", f"{path} path: the decoded frame does not serialise to the original 72 octets", frame.hex(), s if is_err(s) else s.hex())
    return None


# ------------------------------------------------------------------------------------------------
# payloads that parse as the indicated burst kind, built with the library itself
# ------------------------------------------------------------------------------------------------
def rand_bits(rng, n):
    from bitarray import bitarray

    return bitarray([rng.randrange(2) for _ in range(n)])


def make_pool(rng, per_kind: int):
    """33-octet bursts keyed by kind: 'voice', 'any' and 'data:<DataTypes name>'; every entry is checked to construct"""
    from bitarray import bitarray
    from okdmr.dmrlib.etsi.fec.bptc_196_96 import BPTC19696
    from okdmr.dmrlib.etsi.fec.trellis import Trellis34
    from okdmr.dmrlib.etsi.layer2.elements.burst_types import BurstTypes
    from okdmr.dmrlib.etsi.layer2.elements.data_types import DataTypes
    from okdmr.dmrlib.etsi.layer2.elements.sync_patterns import SyncPatterns
    from okdmr.dmrlib.etsi.layer2.pdu.embedded_signalling import EmbeddedSignalling
    from okdmr.dmrlib.etsi.layer2.pdu.slot_type import SlotType as L2Slot

    burst_mod, _, K = L()
    Burst = burst_mod.Burst
    pool = {"voice": [], "any": []}
    data_sync = [SyncPatterns.BsSourcedData, SyncPatterns.MsSourcedData, SyncPatterns.Tdma1Data, SyncPatterns.Tdma2Data]
    voice_sync = [SyncPatterns.BsSourcedVoice, SyncPatterns.MsSourcedVoice, SyncPatterns.Tdma1Voice, SyncPatterns.Tdma2Voice]

    def ok(payload: bytes, bt) -> bool:
        bits = bitarray()
        bits.frombytes(payload)
        return not is_err(call(lambda: Burst(full_bits=bits, burst_type=bt)))

    def assemble_data(info196, cc, dt, sync):
        slot = L2Slot(colour_code=cc, data_type=dt).as_bits()
        return (info196[:98] + slot[:10] + sync.as_bits() + slot[10:] + info196[98:]).tobytes()

    def add(kind, payload, bt):
        if len(payload) == 33 and ok(payload, bt):
            pool.setdefault(kind, []).append(payload)

    # captured bursts, and re-encodings of their parsed content by the library with other colour codes / addresses
    for h in CAPTURED:
        b = call(lambda: Burst.from_hytera_ipsc(K.from_bytes(bytes.fromhex(h))))
        if is_err(b):
            continue
        raw = b.full_bits.tobytes()
        if type(b).__name__ != "Burst":
            pool["any"].append(raw)
            continue
        if b.is_data_or_control:
            kind = "data:" + b.data_type.name
            add(kind, raw, BurstTypes.DataAndControl)
            for _ in range(per_kind):
                d = b.data
                for attr in ("source_address", "target_address", "group_address", "llid_source", "llid_destination"):
                    if isinstance(getattr(d, attr, None), int) and rng.random() < 0.5:
                        setattr(d, attr, rng.randrange(1 << 24))
                info = call(b.interleave)
                if is_err(info):
                    break
                add(kind, assemble_data(info, rng.randrange(16), b.slot_type.data_type, rng.choice(data_sync)), BurstTypes.DataAndControl)
        elif ok(raw, BurstTypes.Undefined):
            add("voice", raw, BurstTypes.Vocoder)
    # unconfirmed data blocks of random content through the library's encoders
    for _ in range(per_kind):
        add("data:Rate12Data", assemble_data(BPTC19696.encode(rand_bits(rng, 96)), rng.randrange(16), DataTypes.Rate12Data, rng.choice(data_sync)), BurstTypes.DataAndControl)
        add("data:Rate34Data", assemble_data(Trellis34.encode(rand_bits(rng, 144)), rng.randrange(16), DataTypes.Rate34Data, rng.choice(data_sync)), BurstTypes.DataAndControl)
        r1 = rand_bits(rng, 192)
        add("data:Rate1Data", assemble_data(r1[:96] + bitarray("0000") + r1[96:], rng.randrange(16), DataTypes.Rate1Data, rng.choice(data_sync)), BurstTypes.DataAndControl)
    # voice bursts: random vocoder frames around a voice sync pattern or an EMB + embedded LC fragment
    for _ in range(per_kind * 3):
        v = rand_bits(rng, 216)
        if rng.random() < 0.3:
            center = rng.choice(voice_sync).as_bits()
        else:
            e = EmbeddedSignalling(colour_code=rng.randrange(16), preemption_and_power_control_indicator=rng.randrange(2), link_control_start_stop=rng.randrange(4)).as_bits()
            center = e[:8] + rand_bits(rng, 32) + e[8:]
        p = (v[:108] + center + v[108:]).tobytes()
        if ok(p, BurstTypes.Undefined):
            add("voice", p, BurstTypes.Vocoder)
    # sync / wake-up payloads are not DMR bursts: arbitrary content
    for _ in range(per_kind * 3):
        p = bytes(rng.randrange(256) for _ in range(33)) if rng.random() < 0.7 else bytes([rng.choice([0, 0xFF, 0x5A])] * 33)
        add("any", p, BurstTypes.Undefined)
    pool["data"] = [p for k, v in pool.items() if k.startswith("data:") for p in v]
    return pool


SLOT_KIND = {
    "PrivacyIndicator": "data:PIHeader", "VoiceLCHeader": "data:VoiceLCHeader", "TerminatorWithLC": "data:TerminatorWithLC",
    "CSBK": "data:CSBK", "DataHeader": "data:DataHeader", "Rate12Data": "data:Rate12Data", "Rate34Data": "data:Rate34Data",
    "Wakeup": "any", "VoiceOrDataSync": "any", "Undefined": "data",
}


def pick_payload(rng, pool, slot_name, wake):
    if wake or slot_name in ("Wakeup", "VoiceOrDataSync"):
        # a sync / wake-up burst keeps its octets verbatim; a payload carrying a DMR data sync pattern would be
        # taken apart by the Burst constructor without de-interleaving and does not "parse as the indicated kind"
        kind = rng.choice(["any", "any", "voice"])
    elif slot_name in VOICE_SLOTS:
        kind = "voice"
    else:
        kind = SLOT_KIND.get(slot_name, "data")
        if not pool.get(kind) or rng.random() < 0.15:
            kind = "data"
        if slot_name in ("PrivacyIndicator", "VoiceLCHeader") and rng.random() < 0.3:
            kind = "voice"  # the library requests a vocoder burst for these two slot types
    return rng.choice(pool[kind]), kind


def rand_id(rng):
    r = rng.random()
    if r < 0.3:
        return rng.choice([0, 1, 0xFF, 0x100, 0xFFFF, 0x10000, 0x123456, 0xFFFFFE, 0xFFFFFF, 2308090, 111])
    if r < 0.5:
        return rng.randrange(1 << 8) << rng.choice([0, 8, 16])
    return rng.randrange(1 << 24)


# ------------------------------------------------------------------------------------------------
# reserved octets: the blocks the captured frames actually carry, single-octet perturbations of them, and
# their crossing with the values of the other fields (special cases on "well-known" reserved blocks are
# reached by construction: a uniformly random 7-octet block equals a captured one with probability 2^-56)
# ------------------------------------------------------------------------------------------------
RES_FIELDS = (("first", 2), ("r3", 3), ("r7", 7), ("r2a", 2), ("r2b", 2), ("r1", 1), ("pad", 1))
RES_LEN = dict(RES_FIELDS)
RES_DEFAULT = {"first": "5a5a", "r3": "000000", "r7": "00050101000000", "r2a": "4000", "r2b": "e208", "r1": "00", "pad": "00"}
RES_CLASS_CONST = {"first": "DEFAULT_FIRST_HEADER", "r3": "DEFAULT_RESERVED_3", "r7": "DEFAULT_RESERVED_7A", "r2a": "DEFAULT_RESERVED_2A",
                   "r2b": "DEFAULT_RESERVED_2B", "r1": "DEFAULT_RESERVED_1"}
_RES = {}


def res_dict():
    """{'blocks': field -> distinct hex blocks (default first, then in order of capture), 'tuples': the coherent
    combinations of all seven reserved fields of the captured frames}"""
    if _RES:
        return _RES
    blocks = {k: [RES_DEFAULT[k]] for k, _ in RES_FIELDS}
    tuples = []
    for h in CAPTURED:
        f = fields_of_captured(h)
        t = {k: (f[k] if k != "pad" else "%02x" % f[k]) for k, _ in RES_FIELDS}
        if t not in tuples:
            tuples.append(t)
        for k, v in t.items():
            if v not in blocks[k]:
                blocks[k].append(v)
    # the constants of the class under test are generator input too (a changed default is one more block to try)
    try:
        _, H, _ = L()
        for k, nm in RES_CLASS_CONST.items():
            v = getattr(H, nm, None)
            if isinstance(v, (bytes, bytearray)) and len(v) == RES_LEN[k] and bytes(v).hex() not in blocks[k]:
                blocks[k].append(bytes(v).hex())
    except BaseException:  # noqa
        pass
    _RES.update(blocks=blocks, tuples=tuples)
    return _RES


def set_res(f, k, hexval):
    if k == "pad":
        f["pad"] = int(hexval, 16)
    else:
        f[k] = hexval


def get_res(f, k) -> str:
    return "%02x" % f["pad"] if k == "pad" else f[k]


def set_typed(f, g, v):
    if g == "cc":
        f["cc"] = v
        f["ccword"] = bytes([v * 17] * 2).hex()
    elif g in ("dst", "src"):
        f[g] = v
        f[g + "word"] = idword(v)
    else:
        f[g] = v


def repick(rng, pool, f):
    """a payload that parses as the kind the (changed) slot / call type indicates"""
    sn = {v: k for k, v in SLOT_VALUES.items()}[f["st"]]
    cn = {v: k for k, v in CALL_VALUES.items()}[f["ct"]]
    payload, kind = pick_payload(rng, pool, sn, cn.startswith("Wakeup"))
    f["burst"], f["kind"] = payload.hex(), kind


def octet_values(orig: int, f):
    """values for one reserved octet: boundaries, neighbours of the original, and the octets of the OTHER fields of
    the same frame (a reserved octet that mirrors - or contradicts - the slot number, sequence number, colour, a type
    value or an id octet)"""
    slot = 1 if f["ts"] == 0x1111 else 2
    cc = f.get("cc") or 0
    dst, src = f.get("dst") or 0, f.get("src") or 0
    vals = {
        0, 1, 2, 3, 0x7F, 0x80, 0xFE, 0xFF, orig ^ 1, orig ^ 0x80, (orig + 1) & 255, (orig - 1) & 255,
        slot, 3 - slot, f["seq"], (f["seq"] + 1) & 255, cc, (cc * 17) & 255, f["pt"] & 255, f["ct"] & 255, f["st"] & 255,
        f["ft"] & 255, f["ts"] & 255, dst & 255, (dst >> 16) & 255, src & 255, (src >> 16) & 255,
    }
    vals.discard(orig)
    return sorted(vals)


def draw_res(rng, k):
    """one reserved block: the default, a captured block, a captured block with one octet changed, or random octets"""
    n = RES_LEN[k]
    r = rng.random()
    if r < 0.3:
        return RES_DEFAULT[k]
    if r < 0.5:
        return rng.choice(res_dict()["blocks"][k])
    if r < 0.65:
        b = bytearray.fromhex(rng.choice(res_dict()["blocks"][k]))
        p = rng.randrange(n)
        b[p] = rng.choice([0, 1, 2, 3, 0x7F, 0x80, 0xFF, b[p] ^ 1, (b[p] + 1) & 255, (b[p] - 1) & 255])
        return b.hex()
    return bytes(rng.randrange(256) for _ in range(n)).hex()


def gen_frame(rng, pool, wf_bias=0.8):
    """fields of one frame; ~20 % leave the property's range in one respect"""
    f = {}
    f["second"] = "5a5a"
    f["seq"] = rng.choice([0, 1, 127, 128, 254, 255]) if rng.random() < 0.3 else rng.randrange(256)
    if rng.random() < 0.15:  # the seven reserved fields of one captured frame, together
        for k, v in rng.choice(res_dict()["tuples"]).items():
            set_res(f, k, v)
    else:
        for k, _ in RES_FIELDS:
            set_res(f, k, draw_res(rng, k))
    slot_name = rng.choice(SLOT)
    f["st"] = SLOT_VALUES[slot_name]
    f["pt"] = rng.choice(list(PACKET_VALUES.values()))
    f["ft"] = rng.choice(list(FRAME_VALUES.values()))
    f["ts"] = rng.choice(list(TS_VALUES.values()))
    ct_name = rng.choice(["PrivateCall", "GroupCall", "PrivateCall", "GroupCall", "WakeupCall_2", "WakeupCall_c"])
    f["ct"] = CALL_VALUES[ct_name]
    f["cc"] = rng.randrange(16)
    f["ccword"] = bytes([f["cc"] * 17] * 2).hex()
    f["dst"], f["src"] = rand_id(rng), rand_id(rng)
    f["dstword"], f["srcword"] = idword(f["dst"]), idword(f["src"])
    payload, kind = pick_payload(rng, pool, slot_name, ct_name.startswith("Wakeup"))
    f["burst"] = payload.hex()
    f["kind"] = kind
    f["parses"] = True
    if rng.random() >= wf_bias:
        r = rng.random()
        if r < 0.2:  # undefined type values (packet/frame type fall back with a warning, the others are rejected)
            k = rng.choice(["pt", "ft", "st", "ts", "ct"])
            defined = {"pt": PACKET_VALUES, "ct": CALL_VALUES, "ft": FRAME_VALUES, "st": SLOT_VALUES, "ts": TS_VALUES}[k].values()
            if k in ("pt", "ct"):
                cands = [0, 2, 3, 0x0B, 0x0D, 0x40, 0x44, 0x7F, 0x80, 0xFF, rng.randrange(256)]
            else:
                cands = [0x0001, 0x0100, 0x1112, 0x1211, 0x2211, 0x1122, 0x3333, 0xDDDE, 0xFFFE, 0xEEEF, 0xFFFF, rng.randrange(1 << 16)]
            cands = [v for v in cands if v not in defined] or [0x7E]
            f[k] = rng.choice(cands)
        elif r < 0.4:  # colour word whose two octets / nibbles differ: both decoders must still agree (low nibble)
            f["ccword"] = bytes(rng.randrange(256) for _ in range(2)).hex()
            f["cc"] = None
        elif r < 0.6:  # non-zero low octet of an id word: ignored by both decoders, lost on serialisation
            f["dstword"] = idword(f["dst"], rng.randrange(1, 256))
            if rng.random() < 0.5:
                f["srcword"] = idword(f["src"], rng.randrange(1, 256))
        elif r < 0.75:  # second header other than 5a5a: the generic parser refuses the frame
            f["second"] = bytes(rng.randrange(256) for _ in range(2)).hex()
        else:  # payload that does not parse as the indicated kind
            f["burst"] = bytes(rng.randrange(256) for _ in range(33)).hex()
            f["parses"] = False
    return f


def mutate(rng, frame: bytes) -> bytes:
    b = bytearray(frame)
    r = rng.random()
    if r < 0.3:
        del b[rng.randrange(len(b) + 1) :]
    elif r < 0.5:
        b += bytes(rng.randrange(256) for _ in range(rng.randrange(1, 5)))
    elif r < 0.8 and b:
        for _ in range(rng.randrange(1, 4)):
            b[rng.randrange(len(b))] = rng.randrange(256)
    else:
        b = bytearray(rng.randrange(256) for _ in range(rng.choice([0, 1, 3, 4, 5, 26, 59, 60, 71, 72, 73, 80])))
    return bytes(b)


def frame_case(ctx, f, frame, pairs, tag):
    """correspondence lines of one frame + the oracle when it is in range"""
    views, objs, sers = pairs
    hexf = hx(frame)
    for path, op in (("raw", "raw"), ("kaitai", "kai")):
        line, _, opaque = view(path, frame)
        if opaque:
            ctx.count("frame:constructor-rejects-payload (outside the model)")
        else:
            views.append((f"ipsc.{op} {hexf}", line))
        objs.append((f"ipsc.obj.{op} {hexf}", obj(path, frame)))
        sers.append((f"ipsc.ser.{op} {hexf}", ser(path, frame)))
    inr = f is not None and in_range(f)
    ctx.count(f"frame:{tag}:{'in-range' if inr else 'out-of-range'}")
    ctx.case(("frame", hexf), nontrivial=True, sample={"tag": tag, "frame": hexf, "fields": f} if ctx.evaluations % 499 == 7 else None)
    if inr:
        ctx.count(f"class:{expected_class(f)}")
        ctx.count(f"kind:{f.get('kind')}")
        r = oracle(f, frame)
        if r:
            ctx.fail(r[0], {"fields": f, "frame": hexf}, r[1], expected=r[2], actual=r[3])


def fields_of_captured(h: str):
    """read a captured frame back into the property's field view (by the layout, not by the library)"""
    b = bytes.fromhex(h)
    sw = swap16(b[26:60])
    f = {
        "first": b[0:2].hex(), "second": b[2:4].hex(), "seq": b[4], "r3": b[5:8].hex(), "pt": b[8], "r7": b[9:16].hex(),
        "ts": int.from_bytes(b[16:18], "little"), "st": int.from_bytes(b[18:20], "little"), "ccword": b[20:22].hex(),
        "ft": int.from_bytes(b[22:24], "little"), "r2a": b[24:26].hex(), "burst": sw[:33].hex(), "pad": sw[33],
        "r2b": b[60:62].hex(), "ct": b[62], "dstword": b[63:67].hex(), "srcword": b[67:71].hex(), "r1": b[71:72].hex(),
        "cc": b[20] & 15, "dst": int.from_bytes(b[64:67], "little"), "src": int.from_bytes(b[68:71], "little"), "parses": True,
        "kind": "captured",
    }
    assert build_frame(f) == b
    return f


def run(ctx):
    patch_burst()
    ctx.rule = (
        "72-octet frames assembled from fields by the layout of the property (independent of the library): sequence 0..255, "
        "all 4 packet / 16 slot / 6 frame / 4 call types, both timeslots, colour 0..15 as the repeated nibble word, 24-bit ids "
        "(boundaries favoured) in the upper three octets of their words, random first header / reserved octets / pad octet, "
        "payload = a 33-octet burst that constructs as the indicated kind, built with the library itself (captured bursts, their "
        "parsed content re-encoded with other colour codes and addresses, random rate-1/2, rate-3/4 and rate-1 blocks through "
        "BPTC / trellis, random vocoder frames around voice sync patterns or generated EMBs, arbitrary octets for sync / wake-up); "
        "~20 % leave the range in one respect (undefined type values, colour word with differing nibbles, non-zero low id octet, "
        "second header != 5a5a, payload that does not construct) and, with mutated / truncated / extended frames, only feed the "
        "correspondence. Every frame goes through both decoder paths, the object view, the burst view and the serialiser. "
        "Distinct = distinct frame octets."
    )
    ctx.trusted_base += [
        "Lean 4.33 kernel",
        "tools/extract_ipsc.py (calls the five IPSC enumerations on all 2^8 / 2^16 values, is_vocoder and is_wakeup on all members)",
        "hand-written model Model/Ipsc.lean tied to hytera_ipsc.py, bits_bytes.py, Burst.from_hytera_ipsc and the generated Kaitai parser by this run's correspondence",
        "kaitaistruct and the generated parser ip_site_connect_protocol.py in site-packages (their field map is modelled, not verified)",
        "the Burst constructor is opaque here (C01): the harness records the burst type requested from it",
    ]
    ctx.assumptions += [
        "the frame carries each 24-bit id in the upper three octets of a little-endian 32-bit word whose low octet is 0, and the colour code as the word cc*0x1111 (all 46 captured frames do)",
        "warnings raised by the _missing_ hooks of PacketType / FrameType are not errors (default warning filters)",
    ]
    rng = ctx.rng
    views, objs, sers, misc = [], [], [], []
    pairs = (views, objs, sers)
    # corpus: the captured frames of the test-suite (every one failed before 0c42cee on the raw path / serialiser)
    for h in CAPTURED:
        frame_case(ctx, fields_of_captured(h), bytes.fromhex(h), pairs, "captured")
    pool = make_pool(rng, 6 if not ctx.thorough() else 40)
    for k, v in pool.items():
        ctx.count(f"pool:{k}", len(v))
    # all type combinations once (both tiers): 16 slot x 4 call x 2 timeslot, packet/frame type cycling
    i = 0
    for sn in SLOT:
        for cn in CALL:
            for tn in TS:
                f = gen_frame(rng, pool, wf_bias=1.0)
                f["st"], f["ct"], f["ts"] = SLOT_VALUES[sn], CALL_VALUES[cn], TS_VALUES[tn]
                f["pt"] = list(PACKET_VALUES.values())[i % 4]
                f["ft"] = list(FRAME_VALUES.values())[i % 6]
                payload, kind = pick_payload(rng, pool, sn, cn.startswith("Wakeup"))
                f["burst"], f["kind"] = payload.hex(), kind
                i += 1
                frame_case(ctx, f, build_frame(f), pairs, "type-sweep")
    # every sequence number, colour code, and id boundaries
    for s in range(256):
        f = gen_frame(rng, pool, wf_bias=1.0)
        f["seq"] = s
        f["cc"] = s % 16
        f["ccword"] = bytes([f["cc"] * 17] * 2).hex()
        f["dst"] = [0, 1, 255, 256, 65535, 65536, 0xFFFFFF, 0x800000][s % 8]
        f["src"] = (s * 65793) & 0xFFFFFF
        f["dstword"], f["srcword"] = idword(f["dst"]), idword(f["src"])
        frame_case(ctx, f, build_frame(f), pairs, "value-sweep")
    n = ctx.budget(2000, 100000)
    for _ in range(n):
        f = gen_frame(rng, pool)
        frame = build_frame(f)
        frame_case(ctx, f, frame, pairs, "random")
        if rng.random() < 0.15:
            frame_case(ctx, None, mutate(rng, frame), pairs, "mutated")
    # byteswap_bytes on every length 0..70 (odd lengths included), half_byte_to_bytes, build from fields with default reserved octets
    from okdmr.dmrlib.utils.bits_bytes import byteswap_bytes, half_byte_to_bytes

    for ln in list(range(0, 71)) * (1 if not ctx.thorough() else 10):
        d = bytes(rng.randrange(256) for _ in range(ln))
        r = call(byteswap_bytes, d)
        misc.append((f"ipsc.swap {hx(d)}", r if is_err(r) else hx(r)))
        ctx.case(("swap", d.hex()))
        if not is_err(r):
            r2 = call(byteswap_bytes, r)
            if r2 != d:
                ctx.fail("byteswap-involution", {"data": d.hex()}, "byteswap_bytes applied twice does not give the input back", expected=d.hex(), actual=r2 if is_err(r2) else r2.hex())
    for h in list(range(0, 40)) + [255, 256, 4095]:
        for k in (0, 1, 2, 3):
            r = call(half_byte_to_bytes, h, k)
            misc.append((f"ipsc.half {h} {k}", r if is_err(r) else hx(r)))
    _, H, _ = L()
    from okdmr.dmrlib.hytera.ipsc_elements.call_type import CallType
    from okdmr.dmrlib.hytera.ipsc_elements.frame_type import FrameType
    from okdmr.dmrlib.hytera.ipsc_elements.packet_type import PacketType
    from okdmr.dmrlib.hytera.ipsc_elements.slot_type import SlotType
    from okdmr.dmrlib.hytera.ipsc_elements.timeslot import Timeslot

    for _ in range(ctx.budget(300, 5000)):
        ct, st, ft, pt, ts = rng.randrange(4), rng.randrange(16), rng.randrange(6), rng.randrange(4), rng.randrange(2)
        seq = rng.choice([0, 255, 256, rng.randrange(256)])
        cc = rng.choice([0, 15, 16, 17, 255, rng.randrange(16)])
        dst = rng.choice([0, 0xFFFFFF, 0x1000000, rand_id(rng)])
        src = rng.choice([0, 0xFFFFFF, 0x1000000, rand_id(rng)])
        payload = bytes(rng.randrange(256) for _ in range(rng.choice([33, 33, 33, 32, 34, 0, 1])))
        pad = bytes(rng.randrange(256) for _ in range(rng.choice([1, 1, 1, 0, 2])))

        def mk():
            o = H(call_type=getattr(CallType, CALL[ct]), frame_type=getattr(FrameType, FRAME[ft]), packet_type=getattr(PacketType, PACKET[pt]),
                  slot_type=getattr(SlotType, SLOT[st]), timeslot=getattr(Timeslot, TS[ts]), sequence_number=seq, color_code=cc,
                  destination_radio_id=dst, source_radio_id=src, payload=payload)
            o.payload_pad = pad
            return o.as_ipsc_bytes()

        r = call(mk)
        misc.append((f"ipsc.build {ct} {st} {ft} {pt} {ts} {seq} {cc} {dst} {src} {hx(payload)} {hx(pad)}", r if is_err(r) else hx(r)))
        ctx.case(("build", ct, st, ft, pt, ts, seq, cc, dst, src, payload.hex(), pad.hex()))
    if not ctx.search_only and ctx.driver_ok:
        ctx.correspond("Burst.from_hytera_ipsc (both paths)", views)
        ctx.correspond("HyteraIPSC.from_ipsc_bytes / from_kaitai", objs)
        ctx.correspond("HyteraIPSC.as_ipsc_bytes of decoded frames", sers)
        ctx.correspond("byteswap / half_byte / as_ipsc_bytes from fields", misc)


def replay(obj):
    patch_burst()
    fl = obj.get("failure") or {}
    inp = fl.get("input") or {}
    print(json.dumps(obj.get("type")), fl.get("what"))
    if "data" in inp:
        from okdmr.dmrlib.utils.bits_bytes import byteswap_bytes

        d = bytes.fromhex(inp["data"])
        r = call(lambda: byteswap_bytes(byteswap_bytes(d)))
        print("implementation: byteswap_bytes(byteswap_bytes(", d.hex(), ")) =", r if is_err(r) else r.hex())
        return 0 if r == d else 1
    if "frame" not in inp:
        print("nothing to replay")
        return 0
    frame = bytes.fromhex(inp["frame"])
    for path in ("raw", "kaitai"):
        line, _, _ = view(path, frame)
        print(f"implementation [{path}]: burst view =", line)
        print(f"implementation [{path}]: as_ipsc_bytes =", ser(path, frame))
    print("model lines: ipsc.raw / ipsc.kai / ipsc.ser.raw / ipsc.ser.kai", inp["frame"])
    f = inp.get("fields")
    if f and in_range(f):
        r = oracle(f, frame)
        if r:
            print("STILL FAILS:", r[0], r[1], "expected:", r[2], "actual:", r[3])
            return 1
        print("property holds on this input now")
    return 0
