"""C13 — Hytera IPSC frames map to bursts identically by either decoder and re-encode (DESIGN §5 C13)."""
import json
import warnings

from common import impl_error

PROP = "C13"
MODULES = ["C13", "C13t"]
GEN = ["Ipsc", "TranslIpsc", "TranslBitsBytes"]
MATCHERS = {}

# member orders of tools/extract_ipsc.py (indices on the line protocol)
PACKET = ["TypeA", "TypeB", "TerminatorWithLC", "PIHeader"]
CALL = ["PrivateCall", "GroupCall", "WakeupCall_2", "WakeupCall_c"]
FRAME = ["Data", "VoiceSync", "DataSyncOrCSBK", "DataHeader", "Voice", "Sync"]
SLOT = [
    "PrivacyIndicator", "VoiceLCHeader", "TerminatorWithLC", "CSBK", "DataHeader", "Rate12Data", "Rate34Data",
    "VoiceFrameA", "VoiceFrameB", "VoiceFrameC", "VoiceFrameD", "VoiceFrameE", "VoiceFrameF", "Wakeup",
    "VoiceOrDataSync", "Undefined",
]
TS = ["Timeslot_1", "Timeslot_2"]

# the frame layout as the property states it (values, independent of the library's tables)
PACKET_VALUES = {"TypeA": 0x41, "TypeB": 0x42, "TerminatorWithLC": 0x43, "PIHeader": 0x01}
CALL_VALUES = {"PrivateCall": 0, "GroupCall": 1, "WakeupCall_2": 2, "WakeupCall_c": 0x0C}
FRAME_VALUES = {"Data": 0x0000, "VoiceSync": 0x1111, "DataSyncOrCSBK": 0x3333, "DataHeader": 0x6666, "Voice": 0xBBBB, "Sync": 0xEEEE}
SLOT_VALUES = {n: 0x1111 * i for i, n in enumerate(SLOT)}
TS_VALUES = {"Timeslot_1": 0x1111, "Timeslot_2": 0x2222}
VOICE_SLOTS = {"VoiceFrameA", "VoiceFrameB", "VoiceFrameC", "VoiceFrameD", "VoiceFrameE", "VoiceFrameF"}

CAPTURED = [
    "5a5a5a5a0000000042000501020000002222eeee555533334000bd0000008000150000000800fd00230038003b0038003b00b41200447eb7ffffef0844400000fd0800003b382300",
    "5a5a5a5a0000000042000501020000002222dddd555500004000000000000000000000000000020002000000000000000000000000000000b2dd503250380c00000014000000ff01",
    "5a5a5a5a0300000041000501020000002222999911110000100038d424a26d410436c0dda2f46165307000904607a54d4715ff8e3685dd23255501e3000001000900000022072800",
    "5a5a5a5a8f00000043000501020000002222222255550000409c5e06ca0ac804e823d04aa04b9d1457ff5dd7dff52001600d7039003cc12d031c003cca0a01006f0000003c382300",
    "5a5a5a5a0000000042000501020000002222eeee11111111402800000000000000000000090028000700220068291110c8291110282a1110801d0067080901000900000022072800",
    "5a5a5a5aff00000041000501020000002222bbbb1111000040548adb76e648040a81cad1c5ba0176635063f37200816df708c868af68a235db99008e76e601000900000022072800",
    "5a5a5a5a0001000041000501020000002222cccc111100004006b83a07c49456750ece2681f6413100100000250e1c20ff8689eb34e57f442cc500f607c401000900000022072800",
    "5a5a5a5afb0000004100050102000000222277771111000040569bec50c139eee49d9eeae5fba716fd55f77d735f89eb6e689fea30a64bc52248002e50c101000900000022072800",
    "5a5a5a5ad40100004100050102000000222211111111000040f08047a3158e16287641f422596dc457ff5dd7def548310023e03c002e5124042a00fba315000075d40300a9352600",
    "5a5a5a5ad6010000410005010200000022227777111100004013e8b9528173612a00b96b81e86752fd55f77d715f00736b2ae8b9528173612a00006b5281000075d40300a9352600",
    "5a5a5a5add0100004100050102000000222288881111000040449eec52e0d60074d5ec1de09e01521032220111d9d5d61d749eec52e0d60174d5001d52e0000075d40300a9352600",
    "5a5a5a5adc0100004100050102000000222277771111000040568efd52e0d60075c5fd0de08e0752fd55f77d705fd5d61d759eec52e0d60174d5001d52e0000075d40300a9352600",
    "5a5a5a5adb01000041000501020000002222cccc111100004006dc8c16e4574cb8c4dfddc3ae417600100000260ec5f60d75aedf76c3f64675c5000d16e4000075d40300a9352600",
    "5a5a5a5ad22b00004100050102000000222244445555000040950a391d32802bb93b9221c163bd1557ff5dd7d5f52d5c5211f0218729d34aaa06006d1d3200003b38230063382300",
    "5a5a5a5a872a00004100050102000000222244445555000040910f39d932282ba139b224016ebd1557ff5dd7d5f5105c9a1132208b2d1b43aa0c006bd93200003b38230063382300",
    "5a5a5a5a862a00004100050102000000222266665555000040b02f25b5e2b622e2f2d276e5320d9657ff5dd7dcf51fe3a1ef2f2202032df2207200e2b5e20000633823003b382300",
    "5a5a5a5a852a00004100050102000000222244445555000040903b3141203d2865701a3761f6bd1557ff5dd7d5f5185cde1de0314f24db13ba15002141200000633823003b382300",
    "5a5a5a5a02e0000001000501020000002222222211110000405c7b168990007cb99b434101430d847f5dfd777d756b9de0513022c7ca1f0194140000630201000900000022072800",
    "5a5a5a5a570300004100050102000000222233335555000040f5c545f705e8bd0c26080850b4fd9457ff5dd7dcf5e6ae3877796501781fbb1a330046f7050000fc372300fe372300",
    "5a5a5a5a50030000410005010200000022224444555500004091613a89349c25697b03a66368bd5557ff5dd7d5f5785db87af534662b1d4a3794000989340000fc372300fe372300",
    "5a5a5a5a0d05000041000501020000002222777755550000401382a900c0a043ce88a4ee83f82770fd55f77d775fca2cc4aec5e043821a3162c2004200c001006f000000fc372300",
    "5a5a5a5a0e05000041000501020000002222888855550000405039d447807d326646b3e88005352530200230f4885a4c48c824a101825937a85a006a478001006f000000fc372300",
    "5a5a5a5a0f05000041000501020000002222999955550000407775dc07c518074810ef0ee74405069a600850a2164238080c2882e8cc5c3764f200ce07c501006f000000fc372300",
    "5a5a5a5a1005000041000501020000002222aaaa555500004033738fc8529055805a9cca706335cc0160a010a5c64bb4ca804aaf12a2d4c4c4f500aac85201006f000000fc372300",
    "5a5a5a5a1105000041000501020000002222bbbb55550000402194aa9ed656db622cc12234cff55331432be89bd127e946e221e84027e4ed622e00629ed601006f000000fc372300",
    "5a5a5a5a1205000041000501020000002222cccc55550000405303c82326d1ed005fce062125a512c10964d1cb3f5b4dea0a24ce12205dbb2a4800ea232601006f000000fc372300",
    "5a5a5a5a0000000042000501010000001111eeee555511114028000000000000000000006f0023003700fa00342a2c10942a2c10f42a2c10835600f0360801006f000000fa372300",
    "5a5a5a5a0000000042000501010000001111eeee5555eeee40000500000000005000000046000000410000004100000000000024000000000000b543000001006f000000fa372300",
    "5a5a5a5a0000000042000501010000001111dddd555500004000000000000000000000000100020002000100000000000000000000000000ffffef082a00000000000000fb372300",
    "5a5a5a5a0000000042000501020000002222dddd555500004000000000000000000000000100020002000100000000000000000000000000ffffef082a00000000000000fb372300",
    "5a5a5a5a0000000042000501010000001111dddd555500004000000000000000000000000100020002000100000000000000000000000000ffffef082a0000000000000000000000",
    "5a5a5a5a0000000042000501020000002222dddd555500004000000000000000000000000100020002000100000000000000000000000000ffffef0891d1000000000000fa372300",
    "5a5a5a5a660000004100050101000000111111111111000040b951018849a00b381b4016806c6dc457ff5dd7def5993218016020a005412310390033884901000900000022072800",
    "5a5a5a5a670000004100050101000000111111111111000040b951018849a00b381b4016806c6dc457ff5dd7def5993218016020a005412310390033884901000900000022072800",
    "5a5a5a5a690000004100050101000000111100001111000040905b1219a4cc30a1d92317220a0d8457ff5dd7ddf53f9dc071c040a5085f0b1d1c001919a401000900000022072800",
    "5a5a5a5a0000000042000501010000001111eeee11111111400000001000400000000000090028000700220000000000000000000000000030305032503801000900000022072800",
    "5a5a5a5a2003000041000501020000002222777755550000807325ef402209df1b7f9caf6575e774fd55f77d795f9f41364a68ca604641ec96a400b3402201006f000000fa372300",
    "5a5a5a5a610400004100050102000000222211115555000040b970078009fc078821205220655d5457ff5dd7d8f57854d004d03e003e012a036500f3800901006f000000fc372300",
    "5a5a5a5a6204000041000501020000002222777755550000401a4abacd1c74706c3af98a7a2957affd55f77d735f8e1e002cd30912a74156e68600c0cd1c01006f000000fc372300",
    "5a5a5a5a63040000410005010200000022228888555500004031369242a379718a59ca2ad74055daa020f030f3f889fe8a6c99d641c55111ae3b000a42a301006f000000fc372300",
    "5a5a5a5a64040000410005010200000022229999555500004003ce9167a6a153e49cf648c7997505a06060a0a0667e356eca60c823c0d0234000008267a601006f000000fc372300",
    "5a5a5a5a6504000041000501020000002222aaaa555500004007858e30e61d73a2dfce6481d4557591607042a5c60e53cea2968c11c71833e4df004430e601006f000000fc372300",
    "5a5a5a5a6604000041000501020000002222bbbb55550000401568bb16c47955c40abc8ce05e15362341b35290312a9400c829076d9b5157e290008416c401006f000000fc372300",
    "5a5a5a5a6704000041000501020000002222cccc55550000401325b026a21c13ca5ee10cc5467522c10964d1c13fde50a2ae37b024a23c33ee59000826a201006f000000fc372300",
    "5a5a5a5ab00400004300050102000000222222225555000040b91f0754094c07f021505280659d5457ff5dd7dff56c01e807b03940320122037c00c0540901006f000000fc372300",
    "5a5a5a5a0c01000041000501020000002222cccc1111000040430dfd63c51649510c98c3c4101132001000002c0e732111ad6ca004a3317cf40400c063c501000900000022072800",
]


def L():
    """the library under test (imported lazily: the harness must start even if an import is broken)"""
    import okdmr.dmrlib.etsi.layer2.burst as burst_mod
    from okdmr.dmrlib.hytera.hytera_ipsc import HyteraIPSC
    from okdmr.kaitai.hytera.ip_site_connect_protocol import IpSiteConnectProtocol

    return burst_mod, HyteraIPSC, IpSiteConnectProtocol


def hx(b) -> str:
    return bytes(b).hex() if len(b) else "-"


def call(fn, *a):
    try:
        with warnings.catch_warnings():
            warnings.simplefilter("ignore")
            return fn(*a)
    except BaseException as e:  # noqa: every exception of the real code is an observable
        return impl_error(e)


def is_err(x) -> bool:
    return isinstance(x, str) and x.startswith("ERR ")


# ------------------------------------------------------------------------------------------------
# recording the burst type requested from the Burst constructor (the model treats the constructor as opaque)
# ------------------------------------------------------------------------------------------------
STATE = {"bt": None, "opaque_error": False, "patched": False}


def patch_burst():
    if STATE["patched"]:
        return
    burst_mod, _, _ = L()
    orig = burst_mod.Burst.__init__

    def recording_init(self, full_bits=None, burst_type=None, *a, **kw):
        from okdmr.dmrlib.etsi.layer2.elements.burst_types import BurstTypes

        if burst_type is None:
            burst_type = BurstTypes.Undefined
        STATE["bt"] = burst_type
        try:
            if full_bits is None:
                return orig(self, burst_type=burst_type, *a, **kw)
            return orig(self, full_bits, burst_type, *a, **kw)
        except BaseException:
            # the 264-bit assertion is modelled; everything else the constructor does with the content is not
            if full_bits is None or len(full_bits) == 264:
                STATE["opaque_error"] = True
            raise

    burst_mod.Burst.__init__ = recording_init
    STATE["patched"] = True


def bt_name(bt) -> str:
    return {"Undefined": "undefined", "Vocoder": "vocoder", "DataAndControl": "data"}.get(getattr(bt, "name", ""), str(bt))


def cls_name(b) -> str:
    return {"HyteraIPSCSync": "sync", "HyteraIPSCWakeup": "wakeup", "Burst": "burst"}.get(type(b).__name__, type(b).__name__)


def view(path: str, frame: bytes):
    """(canonical view line | ERR, burst | None, opaque constructor error?) for one decoder path"""
    burst_mod, _, K = L()
    STATE["bt"] = None
    STATE["opaque_error"] = False

    def go():
        arg = frame if path == "raw" else K.from_bytes(frame)
        return burst_mod.Burst.from_hytera_ipsc(arg)

    b = call(go)
    if is_err(b):
        return b, None, STATE["opaque_error"]
    from okdmr.dmrlib.utils.bits_bytes import bits_to_bytes

    i = b.hytera_ipsc
    line = "%s %s %s %d %d %d %d %d" % (
        cls_name(b), bt_name(STATE["bt"]), hx(bits_to_bytes(b.full_bits)), b.timeslot, b.sequence_no,
        i.color_code, b.source_radio_id, i.destination_radio_id,
    )
    return line, b, False


def obj(path: str, data: bytes) -> str:
    """the HyteraIPSC object of one decoder path, canonical"""
    _, H, K = L()
    o = call(lambda: H.from_ipsc_bytes(data) if path == "raw" else H.from_kaitai(K.from_bytes(data)))
    if is_err(o):
        return o
    return show_obj(o)


def show_obj(o) -> str:
    rb = lambda x: hx(x) if isinstance(x, (bytes, bytearray)) else "NOTBYTES:" + type(x).__name__  # noqa: E731
    return " ".join(
        [
            str(CALL.index(o.call_type.name)), str(SLOT.index(o.slot_type.name)), str(FRAME.index(o.frame_type.name)),
            str(PACKET.index(o.packet_type.name)), str(TS.index(o.timeslot.name)), str(o.sequence_number),
            str(o.color_code), str(o.destination_radio_id), str(o.source_radio_id), rb(o.payload),
            rb(getattr(o, "payload_pad", b"")), rb(o.first_header), rb(o.second_header), rb(o.reserved_3),
            rb(o.reserved_7a), rb(o.reserved_2a), rb(o.reserved_2b), rb(o.reserved_1),
        ]
    )


def ser(path: str, data: bytes) -> str:
    _, H, K = L()
    o = call(lambda: H.from_ipsc_bytes(data) if path == "raw" else H.from_kaitai(K.from_bytes(data)))
    if is_err(o):
        return o
    r = call(o.as_ipsc_bytes)
    return r if is_err(r) else hx(r)


# ------------------------------------------------------------------------------------------------
# frames from fields (the layout of the property, written down independently of the library)
# ------------------------------------------------------------------------------------------------
def swap16(b: bytes) -> bytes:
    assert len(b) % 2 == 0
    out = bytearray()
    for i in range(0, len(b), 2):
        out += bytes([b[i + 1], b[i]])
    return bytes(out)


def build_frame(f) -> bytes:
    """f: first(2) seq r3(3) pt(int) r7(7) ts(int) st(int) ccword(2 octets hex) ft(int) r2a(2) burst(33) pad(int) r2b(2) ct(int)
    dstword(4 octets) srcword(4 octets) r1(1)"""
    return (
        bytes.fromhex(f["first"]) + bytes.fromhex(f.get("second", "5a5a")) + bytes([f["seq"]]) + bytes.fromhex(f["r3"])
        + bytes([f["pt"]]) + bytes.fromhex(f["r7"]) + f["ts"].to_bytes(2, "little") + f["st"].to_bytes(2, "little")
        + bytes.fromhex(f["ccword"]) + f["ft"].to_bytes(2, "little") + bytes.fromhex(f["r2a"])
        + swap16(bytes.fromhex(f["burst"]) + bytes([f["pad"]])) + bytes.fromhex(f["r2b"]) + bytes([f["ct"]])
        + bytes.fromhex(f["dstword"]) + bytes.fromhex(f["srcword"]) + bytes.fromhex(f["r1"])
    )


def idword(v: int, low: int = 0) -> str:
    return (bytes([low]) + v.to_bytes(3, "little")).hex()


def expected_class(f) -> str:
    """burst class the frame indicates"""
    st = {v: k for k, v in SLOT_VALUES.items()}.get(f["st"])
    ct = {v: k for k, v in CALL_VALUES.items()}.get(f["ct"])
    if st == "VoiceOrDataSync":
        return "sync"
    if st == "Wakeup" or ct in ("WakeupCall_2", "WakeupCall_c"):
        return "wakeup"
    return "burst"


def in_range(f) -> bool:
    """the frames the property quantifies over"""
    return (
        f.get("second", "5a5a") == "5a5a" and f["pt"] in PACKET_VALUES.values() and f["ct"] in CALL_VALUES.values()
        and f["ft"] in FRAME_VALUES.values() and f["st"] in SLOT_VALUES.values() and f["ts"] in TS_VALUES.values()
        and f.get("cc") is not None and f["ccword"] == bytes([f["cc"] * 17] * 2).hex()
        and f.get("dst") is not None and f["dstword"] == idword(f["dst"]) and f["srcword"] == idword(f["src"])
        and f.get("parses", False)
    )


def oracle(f, frame: bytes):
    """the property on the real code for an in-range frame; returns None or (kind, what, expected, actual)"""
    lr, br, _ = view("raw", frame)
    lk, bk, _ = view("kaitai", frame)
    if is_err(lr) or is_err(lk):
        return ("decoder-raises", "a decoder path raised on a well-formed frame", "two bursts", {"raw": lr, "kaitai": lk})
    if lr != lk:
        return ("paths-differ", "the raw-bytes path and the generic-parser path give different bursts", lk, lr)
    want = "%s %s %d %d %d %d %d" % (expected_class(f), f["burst"], 1 if f["ts"] == 0x1111 else 2, f["seq"], f["cc"], f["src"], f["dst"])
    for path, line, b in (("raw", lr, br), ("kaitai", lk, bk)):
        parts = line.split(" ")
        got = " ".join([parts[0]] + parts[2:])
        if got != want:
            return ("fields-differ", f"{path} path: class / payload / timeslot / sequence / colour / ids differ from what the frame encodes", want, got)
        t = call(lambda: b.target_radio_id)
        tw = f["dst"] if f["dst"] else call(b.guess_target_radio_id)
        if t != tw:
            return ("fields-differ", f"{path} path: target_radio_id differs from the destination id the frame encodes", tw, t)
        if b.hytera_ipsc.source_radio_id != f["src"]:
            return ("fields-differ", f"{path} path: hytera_ipsc.source_radio_id differs from the frame", f["src"], b.hytera_ipsc.source_radio_id)
        if parts[0] in ("sync", "wakeup"):
            # the payload bits through the burst's own serialiser (coverage round: as_bits of the two IPSC-only burst classes was never
            # executed; they are not DMR bursts - no slot type, no EMB - and hand the frame's payload back as it is)
            ab = call(lambda: hx(b.as_bits().tobytes()))
            if ab != parts[2]:
                return ("fields-differ", f"{path} path: as_bits() of the {parts[0]} burst is not the payload the frame carries", parts[2], ab)
        s = call(b.hytera_ipsc.as_ipsc_bytes)
        if s != frame:
            return ("reserialise", f"{path} path: the decoded frame does not serialise to the original 72 octets", frame.hex(), s if is_err(s) else s.hex())
    return None


# ------------------------------------------------------------------------------------------------
# payloads that parse as the indicated burst kind, built with the library itself
# ------------------------------------------------------------------------------------------------
def rand_bits(rng, n):
    from bitarray import bitarray

    return bitarray([rng.randrange(2) for _ in range(n)])


def make_pool(rng, per_kind: int):
    """33-octet bursts keyed by kind: 'voice', 'any' and 'data:<DataTypes name>'; every entry is checked to construct"""
    from bitarray import bitarray
    from okdmr.dmrlib.etsi.fec.bptc_196_96 import BPTC19696
    from okdmr.dmrlib.etsi.fec.trellis import Trellis34
    from okdmr.dmrlib.etsi.layer2.elements.burst_types import BurstTypes
    from okdmr.dmrlib.etsi.layer2.elements.data_types import DataTypes
    from okdmr.dmrlib.etsi.layer2.elements.sync_patterns import SyncPatterns
    from okdmr.dmrlib.etsi.layer2.pdu.embedded_signalling import EmbeddedSignalling
    from okdmr.dmrlib.etsi.layer2.pdu.slot_type import SlotType as L2Slot

    burst_mod, _, K = L()
    Burst = burst_mod.Burst
    pool = {"voice": [], "any": []}
    data_sync = [SyncPatterns.BsSourcedData, SyncPatterns.MsSourcedData, SyncPatterns.Tdma1Data, SyncPatterns.Tdma2Data]
    voice_sync = [SyncPatterns.BsSourcedVoice, SyncPatterns.MsSourcedVoice, SyncPatterns.Tdma1Voice, SyncPatterns.Tdma2Voice]

    def ok(payload: bytes, bt) -> bool:
        bits = bitarray()
        bits.frombytes(payload)
        return not is_err(call(lambda: Burst(full_bits=bits, burst_type=bt)))

    def assemble_data(info196, cc, dt, sync):
        slot = L2Slot(colour_code=cc, data_type=dt).as_bits()
        return (info196[:98] + slot[:10] + sync.as_bits() + slot[10:] + info196[98:]).tobytes()

    def add(kind, payload, bt):
        if len(payload) == 33 and ok(payload, bt):
            pool.setdefault(kind, []).append(payload)

    # captured bursts, and re-encodings of their parsed content by the library with other colour codes / addresses
    for h in CAPTURED:
        b = call(lambda: Burst.from_hytera_ipsc(K.from_bytes(bytes.fromhex(h))))
        if is_err(b):
            continue
        raw = b.full_bits.tobytes()
        if type(b).__name__ != "Burst":
            pool["any"].append(raw)
            continue
        if b.is_data_or_control:
            kind = "data:" + b.data_type.name
            add(kind, raw, BurstTypes.DataAndControl)
            for _ in range(per_kind):
                d = b.data
                for attr in ("source_address", "target_address", "group_address", "llid_source", "llid_destination"):
                    if isinstance(getattr(d, attr, None), int) and rng.random() < 0.5:
                        setattr(d, attr, rng.randrange(1 << 24))
                info = call(b.interleave)
                if is_err(info):
                    break
                add(kind, assemble_data(info, rng.randrange(16), b.slot_type.data_type, rng.choice(data_sync)), BurstTypes.DataAndControl)
        elif ok(raw, BurstTypes.Undefined):
            add("voice", raw, BurstTypes.Vocoder)
    # unconfirmed data blocks of random content through the library's encoders
    for _ in range(per_kind):
        add("data:Rate12Data", assemble_data(BPTC19696.encode(rand_bits(rng, 96)), rng.randrange(16), DataTypes.Rate12Data, rng.choice(data_sync)), BurstTypes.DataAndControl)
        add("data:Rate34Data", assemble_data(Trellis34.encode(rand_bits(rng, 144)), rng.randrange(16), DataTypes.Rate34Data, rng.choice(data_sync)), BurstTypes.DataAndControl)
        r1 = rand_bits(rng, 192)
        add("data:Rate1Data", assemble_data(r1[:96] + bitarray("0000") + r1[96:], rng.randrange(16), DataTypes.Rate1Data, rng.choice(data_sync)), BurstTypes.DataAndControl)
    # voice bursts: random vocoder frames around a voice sync pattern or an EMB + embedded LC fragment
    for _ in range(per_kind * 3):
        v = rand_bits(rng, 216)
        if rng.random() < 0.3:
            center = rng.choice(voice_sync).as_bits()
        else:
            e = EmbeddedSignalling(colour_code=rng.randrange(16), preemption_and_power_control_indicator=rng.randrange(2), link_control_start_stop=rng.randrange(4)).as_bits()
            center = e[:8] + rand_bits(rng, 32) + e[8:]
        p = (v[:108] + center + v[108:]).tobytes()
        if ok(p, BurstTypes.Undefined):
            add("voice", p, BurstTypes.Vocoder)
    # sync / wake-up payloads are not DMR bursts: arbitrary content
    for _ in range(per_kind * 3):
        p = bytes(rng.randrange(256) for _ in range(33)) if rng.random() < 0.7 else bytes([rng.choice([0, 0xFF, 0x5A])] * 33)
        add("any", p, BurstTypes.Undefined)
    pool["data"] = [p for k, v in pool.items() if k.startswith("data:") for p in v]
    return pool


SLOT_KIND = {
    "PrivacyIndicator": "data:PIHeader", "VoiceLCHeader": "data:VoiceLCHeader", "TerminatorWithLC": "data:TerminatorWithLC",
    "CSBK": "data:CSBK", "DataHeader": "data:DataHeader", "Rate12Data": "data:Rate12Data", "Rate34Data": "data:Rate34Data",
    "Wakeup": "any", "VoiceOrDataSync": "any", "Undefined": "data",
}


def pick_payload(rng, pool, slot_name, wake):
    if wake or slot_name in ("Wakeup", "VoiceOrDataSync"):
        # a sync / wake-up burst keeps its octets verbatim; a payload carrying a DMR data sync pattern would be
        # taken apart by the Burst constructor without de-interleaving and does not "parse as the indicated kind"
        kind = rng.choice(["any", "any", "voice"])
    elif slot_name in VOICE_SLOTS:
        kind = "voice"
    else:
        kind = SLOT_KIND.get(slot_name, "data")
        if not pool.get(kind) or rng.random() < 0.15:
            kind = "data"
        if slot_name in ("PrivacyIndicator", "VoiceLCHeader") and rng.random() < 0.3:
            kind = "voice"  # the library requests a vocoder burst for these two slot types
    return rng.choice(pool[kind]), kind


def rand_id(rng):
    r = rng.random()
    if r < 0.3:
        return rng.choice([0, 1, 0xFF, 0x100, 0xFFFF, 0x10000, 0x123456, 0xFFFFFE, 0xFFFFFF, 2308090, 111])
    if r < 0.5:
        return rng.randrange(1 << 8) << rng.choice([0, 8, 16])
    return rng.randrange(1 << 24)


# ------------------------------------------------------------------------------------------------
# reserved octets: the blocks the captured frames actually carry, single-octet perturbations of them, and
# their crossing with the values of the other fields (special cases on "well-known" reserved blocks are
# reached by construction: a uniformly random 7-octet block equals a captured one with probability 2^-56)
# ------------------------------------------------------------------------------------------------
RES_FIELDS = (("first", 2), ("r3", 3), ("r7", 7), ("r2a", 2), ("r2b", 2), ("r1", 1), ("pad", 1))
RES_LEN = dict(RES_FIELDS)
RES_DEFAULT = {"first": "5a5a", "r3": "000000", "r7": "00050101000000", "r2a": "4000", "r2b": "e208", "r1": "00", "pad": "00"}
RES_CLASS_CONST = {"first": "DEFAULT_FIRST_HEADER", "r3": "DEFAULT_RESERVED_3", "r7": "DEFAULT_RESERVED_7A", "r2a": "DEFAULT_RESERVED_2A",
                   "r2b": "DEFAULT_RESERVED_2B", "r1": "DEFAULT_RESERVED_1"}
_RES = {}


def res_dict():
    """{'blocks': field -> distinct hex blocks (default first, then in order of capture), 'tuples': the coherent
    combinations of all seven reserved fields of the captured frames}"""
    if _RES:
        return _RES
    blocks = {k: [RES_DEFAULT[k]] for k, _ in RES_FIELDS}
    tuples = []
    for h in CAPTURED:
        f = fields_of_captured(h)
        t = {k: (f[k] if k != "pad" else "%02x" % f[k]) for k, _ in RES_FIELDS}
        if t not in tuples:
            tuples.append(t)
        for k, v in t.items():
            if v not in blocks[k]:
                blocks[k].append(v)
    # the constants of the class under test are generator input too (a changed default is one more block to try)
    try:
        _, H, _ = L()
        for k, nm in RES_CLASS_CONST.items():
            v = getattr(H, nm, None)
            if isinstance(v, (bytes, bytearray)) and len(v) == RES_LEN[k] and bytes(v).hex() not in blocks[k]:
                blocks[k].append(bytes(v).hex())
    except BaseException:  # noqa
        pass
    _RES.update(blocks=blocks, tuples=tuples)
    return _RES


def set_res(f, k, hexval):
    if k == "pad":
        f["pad"] = int(hexval, 16)
    else:
        f[k] = hexval


def get_res(f, k) -> str:
    return "%02x" % f["pad"] if k == "pad" else f[k]


def set_typed(f, g, v):
    if g == "cc":
        f["cc"] = v
        f["ccword"] = bytes([v * 17] * 2).hex()
    elif g in ("dst", "src"):
        f[g] = v
        f[g + "word"] = idword(v)
    else:
        f[g] = v


def repick(rng, pool, f):
    """a payload that parses as the kind the (changed) slot / call type indicates"""
    sn = {v: k for k, v in SLOT_VALUES.items()}[f["st"]]
    cn = {v: k for k, v in CALL_VALUES.items()}[f["ct"]]
    payload, kind = pick_payload(rng, pool, sn, cn.startswith("Wakeup"))
    f["burst"], f["kind"] = payload.hex(), kind


def octet_values(orig: int, f):
    """values for one reserved octet: boundaries, neighbours of the original, and the octets of the OTHER fields of
    the same frame (a reserved octet that mirrors - or contradicts - the slot number, sequence number, colour, a type
    value or an id octet)"""
    slot = 1 if f["ts"] == 0x1111 else 2
    cc = f.get("cc") or 0
    dst, src = f.get("dst") or 0, f.get("src") or 0
    vals = {
        0, 1, 2, 3, 0x7F, 0x80, 0xFE, 0xFF, orig ^ 1, orig ^ 0x80, (orig + 1) & 255, (orig - 1) & 255,
        slot, 3 - slot, f["seq"], (f["seq"] + 1) & 255, cc, (cc * 17) & 255, f["pt"] & 255, f["ct"] & 255, f["st"] & 255,
        f["ft"] & 255, f["ts"] & 255, dst & 255, (dst >> 16) & 255, src & 255, (src >> 16) & 255,
    }
    vals.discard(orig)
    return sorted(vals)


def draw_res(rng, k):
    """one reserved block: the default, a captured block, a captured block with one octet changed, or random octets"""
    n = RES_LEN[k]
    r = rng.random()
    if r < 0.3:
        return RES_DEFAULT[k]
    if r < 0.5:
        return rng.choice(res_dict()["blocks"][k])
    if r < 0.65:
        b = bytearray.fromhex(rng.choice(res_dict()["blocks"][k]))
        p = rng.randrange(n)
        b[p] = rng.choice([0, 1, 2, 3, 0x7F, 0x80, 0xFF, b[p] ^ 1, (b[p] + 1) & 255, (b[p] - 1) & 255])
        return b.hex()
    return bytes(rng.randrange(256) for _ in range(n)).hex()


def gen_frame(rng, pool, wf_bias=0.8):
    """fields of one frame; ~20 % leave the property's range in one respect"""
    f = {}
    f["second"] = "5a5a"
    f["seq"] = rng.choice([0, 1, 127, 128, 254, 255]) if rng.random() < 0.3 else rng.randrange(256)
    if rng.random() < 0.15:  # the seven reserved fields of one captured frame, together
        for k, v in rng.choice(res_dict()["tuples"]).items():
            set_res(f, k, v)
    else:
        for k, _ in RES_FIELDS:
            set_res(f, k, draw_res(rng, k))
    slot_name = rng.choice(SLOT)
    f["st"] = SLOT_VALUES[slot_name]
    f["pt"] = rng.choice(list(PACKET_VALUES.values()))
    f["ft"] = rng.choice(list(FRAME_VALUES.values()))
    f["ts"] = rng.choice(list(TS_VALUES.values()))
    ct_name = rng.choice(["PrivateCall", "GroupCall", "PrivateCall", "GroupCall", "WakeupCall_2", "WakeupCall_c"])
    f["ct"] = CALL_VALUES[ct_name]
    f["cc"] = rng.randrange(16)
    f["ccword"] = bytes([f["cc"] * 17] * 2).hex()
    f["dst"], f["src"] = rand_id(rng), rand_id(rng)
    f["dstword"], f["srcword"] = idword(f["dst"]), idword(f["src"])
    payload, kind = pick_payload(rng, pool, slot_name, ct_name.startswith("Wakeup"))
    f["burst"] = payload.hex()
    f["kind"] = kind
    f["parses"] = True
    if rng.random() >= wf_bias:
        r = rng.random()
        if r < 0.2:  # undefined type values (packet/frame type fall back with a warning, the others are rejected)
            k = rng.choice(["pt", "ft", "st", "ts", "ct"])
            defined = {"pt": PACKET_VALUES, "ct": CALL_VALUES, "ft": FRAME_VALUES, "st": SLOT_VALUES, "ts": TS_VALUES}[k].values()
            if k in ("pt", "ct"):
                cands = [0, 2, 3, 0x0B, 0x0D, 0x40, 0x44, 0x7F, 0x80, 0xFF, rng.randrange(256)]
            else:
                cands = [0x0001, 0x0100, 0x1112, 0x1211, 0x2211, 0x1122, 0x3333, 0xDDDE, 0xFFFE, 0xEEEF, 0xFFFF, rng.randrange(1 << 16)]
            cands = [v for v in cands if v not in defined] or [0x7E]
            f[k] = rng.choice(cands)
        elif r < 0.4:  # colour word whose two octets / nibbles differ: both decoders must still agree (low nibble)
            f["ccword"] = bytes(rng.randrange(256) for _ in range(2)).hex()
            f["cc"] = None
        elif r < 0.6:  # non-zero low octet of an id word: ignored by both decoders, lost on serialisation
            f["dstword"] = idword(f["dst"], rng.randrange(1, 256))
            if rng.random() < 0.5:
                f["srcword"] = idword(f["src"], rng.randrange(1, 256))
        elif r < 0.75:  # second header other than 5a5a: the generic parser refuses the frame
            f["second"] = bytes(rng.randrange(256) for _ in range(2)).hex()
        else:  # payload that does not parse as the indicated kind
            f["burst"] = bytes(rng.randrange(256) for _ in range(33)).hex()
            f["parses"] = False
    return f


def mutate(rng, frame: bytes) -> bytes:
    b = bytearray(frame)
    r = rng.random()
    if r < 0.3:
        del b[rng.randrange(len(b) + 1) :]
    elif r < 0.5:
        b += bytes(rng.randrange(256) for _ in range(rng.randrange(1, 5)))
    elif r < 0.8 and b:
        for _ in range(rng.randrange(1, 4)):
            b[rng.randrange(len(b))] = rng.randrange(256)
    else:
        b = bytearray(rng.randrange(256) for _ in range(rng.choice([0, 1, 3, 4, 5, 26, 59, 60, 71, 72, 73, 80])))
    return bytes(b)


AMBIENT_SAMPLE = []  # in-range frames (captured + every ninth relation frame) decoded once more in the child interpreter


def frame_case(ctx, f, frame, pairs, tag):
    """correspondence lines of one frame + the oracle when it is in range"""
    views, objs, sers = pairs
    hexf = hx(frame)
    for path, op in (("raw", "raw"), ("kaitai", "kai")):
        line, _, opaque = view(path, frame)
        if opaque:
            ctx.count("frame:constructor-rejects-payload (outside the model)")
        else:
            views.append((f"ipsc.{op} {hexf}", line))
        objs.append((f"ipsc.obj.{op} {hexf}", obj(path, frame)))
        sers.append((f"ipsc.ser.{op} {hexf}", ser(path, frame)))
    inr = f is not None and in_range(f)
    ctx.count(f"frame:{tag}:{'in-range' if inr else 'out-of-range'}")
    if inr and tag in ("rel", "captured") and len(AMBIENT_SAMPLE) < 400 and (tag == "captured" or ctx.evaluations % 9 == 0):
        AMBIENT_SAMPLE.append((dict(f), frame))
    ctx.case(("frame", hexf), nontrivial=True, sample={"tag": tag, "frame": hexf, "fields": f} if ctx.evaluations % 499 == 7 else None)
    if inr:
        ctx.count(f"class:{expected_class(f)}")
        ctx.count(f"kind:{f.get('kind')}")
        r = oracle(f, frame)
        if r:
            ctx.fail(r[0], {"fields": f, "frame": hexf}, r[1], expected=r[2], actual=r[3])


def fields_of_captured(h: str):
    """read a captured frame back into the property's field view (by the layout, not by the library)"""
    b = bytes.fromhex(h)
    sw = swap16(b[26:60])
    f = {
        "first": b[0:2].hex(), "second": b[2:4].hex(), "seq": b[4], "r3": b[5:8].hex(), "pt": b[8], "r7": b[9:16].hex(),
        "ts": int.from_bytes(b[16:18], "little"), "st": int.from_bytes(b[18:20], "little"), "ccword": b[20:22].hex(),
        "ft": int.from_bytes(b[22:24], "little"), "r2a": b[24:26].hex(), "burst": sw[:33].hex(), "pad": sw[33],
        "r2b": b[60:62].hex(), "ct": b[62], "dstword": b[63:67].hex(), "srcword": b[67:71].hex(), "r1": b[71:72].hex(),
        "cc": b[20] & 15, "dst": int.from_bytes(b[64:67], "little"), "src": int.from_bytes(b[68:71], "little"), "parses": True,
        "kind": "captured",
    }
    assert build_frame(f) == b
    return f


def reserved_sweep(ctx, rng, pool, pairs):
    """structured reserved-octet classes (a fixed share of the budget):
    res-cross    every dictionary block of every reserved field x every value of every other field (one at a time),
    res-perturb  every octet of every dictionary block set to every value of `octet_values`, on both timeslots
                 (thorough: x every packet type)."""
    R = res_dict()
    thorough = ctx.thorough()
    typed = [
        ("ts", list(TS_VALUES.values())), ("pt", list(PACKET_VALUES.values())), ("ct", list(CALL_VALUES.values())),
        ("st", list(SLOT_VALUES.values())), ("ft", list(FRAME_VALUES.values())), ("cc", list(range(16))),
        ("seq", [0, 1, 255]), ("dst", [0, 0xFFFFFF]), ("src", [0, 0xFFFFFF]),
    ]

    def blocks_of(k):
        bl = R["blocks"][k]
        if thorough or len(bl) <= 4:
            return list(bl)
        return [bl[0]] + rng.sample(bl[1:], 3)  # the default + three captured blocks (all of them in thorough)

    def base():
        f = gen_frame(rng, pool, wf_bias=1.0)
        if rng.random() < 0.5:  # the other reserved fields as one captured frame has them
            for k, v in rng.choice(R["tuples"]).items():
                set_res(f, k, v)
        return f

    for k, n in RES_FIELDS:
        for blk in blocks_of(k):
            for g, vals in typed:
                for v in vals:
                    f = base()
                    set_res(f, k, blk)
                    set_typed(f, g, v)
                    if g in ("st", "ct"):
                        repick(rng, pool, f)
                    ctx.count(f"res-cross:{k}")
                    frame_case(ctx, f, build_frame(f), pairs, "res-cross")
            for p in range(n):
                for tsv in TS_VALUES.values():
                    for ptv in (list(PACKET_VALUES.values()) if thorough else [None]):
                        f = base()
                        f["ts"] = tsv
                        if ptv is not None:
                            f["pt"] = ptv
                        orig = bytes.fromhex(blk)[p]
                        for v in octet_values(orig, f):
                            f2 = dict(f)
                            b = bytearray.fromhex(blk)
                            b[p] = v
                            set_res(f2, k, b.hex())
                            ctx.count(f"res-perturb:{k}")
                            frame_case(ctx, f2, build_frame(f2), pairs, "res-perturb")


# ------------------------------------------------------------------------------------------------
# rel:* - correlation between the frame's OWN fields (trailer ids, colour word, timeslot word, sequence number) and
# the values INSIDE the payload the frame carries (link-layer ids of a data header, addresses of a CSBK / full LC,
# ids a sync / wake-up payload repeats, colour code of the slot-type PDU / EMB, TDMA sync pattern, block counters),
# and between sibling fields of the frame.  Payloads are built with the library's own PDU classes and FEC encoders
# and read back by the library from the 33 octets alone (Burst constructor, no IPSC frame involved), so the relation
# holds as the library sees it; the verdict compares with the layout reading of the 72 octets, as everywhere.
# ------------------------------------------------------------------------------------------------
M24 = 0xFFFFFF
SRC_ATTRS = ("llid_source", "source_address")
DST_ATTRS = ("llid_destination", "target_address", "group_address", "bs_address")
DT_SLOT = {"PIHeader": "PrivacyIndicator", "VoiceLCHeader": "VoiceLCHeader", "TerminatorWithLC": "TerminatorWithLC", "CSBK": "CSBK",
           "DataHeader": "DataHeader", "Rate12Data": "Rate12Data", "Rate34Data": "Rate34Data", "Rate1Data": "Undefined"}
_REL = {}


def rev24(v: int) -> int:
    return int.from_bytes(v.to_bytes(3, "big"), "little")


def rel_lib():
    if "ns" in _REL:
        return _REL["ns"]
    from bitarray import bitarray
    from bitarray.util import int2ba
    from okdmr.dmrlib.etsi.fec.bptc_196_96 import BPTC19696
    from okdmr.dmrlib.etsi.fec.trellis import Trellis34
    from okdmr.dmrlib.etsi.fec.vbptc_128_72 import VBPTC12873
    from okdmr.dmrlib.etsi.layer2.elements.burst_types import BurstTypes
    from okdmr.dmrlib.etsi.layer2.elements.csbk_opcodes import CsbkOpcodes
    from okdmr.dmrlib.etsi.layer2.elements.data_types import DataTypes
    from okdmr.dmrlib.etsi.layer2.elements.sync_patterns import SyncPatterns
    from okdmr.dmrlib.etsi.layer2.pdu.csbk import CSBK
    from okdmr.dmrlib.etsi.layer2.pdu.data_header import DataHeader
    from okdmr.dmrlib.etsi.layer2.pdu.embedded_signalling import EmbeddedSignalling
    from okdmr.dmrlib.etsi.layer2.pdu.full_link_control import FullLinkControl
    from okdmr.dmrlib.etsi.layer2.pdu.pi_header import PIHeader
    from okdmr.dmrlib.etsi.layer2.pdu.slot_type import SlotType as L2Slot

    class NS:
        pass

    ns = NS()
    for k, v in list(locals().items()):
        if k not in ("ns", "NS"):
            setattr(ns, k, v)
    _REL["ns"] = ns
    return ns


def bits_of(data: bytes):
    from bitarray import bitarray

    b = bitarray()
    b.frombytes(bytes(data))
    return b


def pdu_templates(rng):
    """[(label, DataTypes name, PDU class, 96 template bits, source attribute | None, destination attribute | None)]: the PDUs of
    the captured frames and PDUs parsed by the library from random 96-bit words with the format / opcode field forced to
    each defined value; an attribute qualifies when a value assigned to it is read back after as_bits -> from_bits"""
    if "templates" in _REL:
        return _REL["templates"]
    ns = rel_lib()
    burst_mod, _, K = L()
    cand = []  # (label, data type name(s), class, bits)
    for h in CAPTURED:
        b = call(lambda: burst_mod.Burst.from_hytera_ipsc(K.from_bytes(bytes.fromhex(h))))
        if is_err(b) or type(b).__name__ != "Burst" or not b.is_data_or_control:
            continue
        d = b.data
        if isinstance(d, (ns.DataHeader, ns.CSBK, ns.FullLinkControl)):
            bits = call(d.as_bits)
            if not is_err(bits) and len(bits) == 96:
                sub = getattr(d, "data_packet_format", None) or getattr(d, "csbko", None) or getattr(d, "full_link_control_opcode", None)
                cand.append((f"{type(d).__name__}/{getattr(sub, 'name', sub)}/captured", [b.data_type.name], type(d), bits))
    r = __import__("random").Random(0xC13)  # the template words are fixed: which formats the library parses does not depend on the seed

    def forced(cls, lo, hi, values, names, label):
        for v in values:
            for i in range(24):
                bits = ns.bitarray([r.randrange(2) for _ in range(96)])
                bits[lo:hi] = ns.int2ba(v, length=hi - lo)
                if i % 2:  # the third octet is an enumeration with two members in some CSBKs (answer response, reason code)
                    bits[24:32] = ns.int2ba(r.choice([0x20, 0x21]), length=8)
                if cls is not ns.DataHeader:
                    bits[8:16] = ns.int2ba(r.choice([0, 0, 0x10, 0x68]), length=8)  # feature set: standard / Motorola / Hytera
                p = call(cls.from_bits, bits)
                if is_err(p) or p is None:
                    continue
                out = call(p.as_bits)
                if is_err(out) or len(out) != 96:
                    continue
                sub = getattr(p, "data_packet_format", None) or getattr(p, "csbko", None) or getattr(p, "full_link_control_opcode", None)
                cand.append((f"{label}/{getattr(sub, 'name', v)}", names, cls, out))
                break

    forced(ns.DataHeader, 4, 8, range(16), ["DataHeader"], "DataHeader")
    forced(ns.CSBK, 2, 8, range(64), ["CSBK"], "CSBK")
    forced(ns.FullLinkControl, 2, 8, [0, 3], ["VoiceLCHeader", "TerminatorWithLC"], "FullLinkControl")
    out, seen = [], set()
    A, B = 0x123456, 0xABCDEF
    for label, names, cls, bits in cand:
        def rt(attr, other=None):
            p = call(cls.from_bits, bits.copy())
            if is_err(p) or not isinstance(getattr(p, attr, None), int) or isinstance(getattr(p, attr), bool):
                return False
            setattr(p, attr, A)
            if other:
                setattr(p, other, B)
            o = call(p.as_bits)
            if is_err(o) or len(o) != 96:
                return False
            q = call(cls.from_bits, o)
            return not is_err(q) and getattr(q, attr, None) == A and (not other or getattr(q, other, None) == B)

        sa = next((a for a in SRC_ATTRS if rt(a)), None)
        da = next((a for a in DST_ATTRS if rt(a) and (sa is None or rt(a, sa))), None)
        if sa is None and da is None:
            continue
        for nm in names:
            key = (label.replace("/captured", ""), nm, sa, da)
            if key not in seen:
                seen.add(key)
                out.append((label, nm, cls, bits, sa, da))
    _REL["templates"] = out
    return out


def valid_check_field(ns, cls, bits, dt_name):
    """the PDU with its check field recomputed by the library (CRC-CCITT regenerated from a zeroed field; RS(12,9) parity with
    the mask of the data type); None when the library offers no way"""
    if cls in (ns.DataHeader, ns.CSBK):
        z = bits.copy()
        z[80:96] = 0
        p = call(cls.from_bits, z)
        o = None if is_err(p) else call(p.as_bits)
        return o if o is not None and not is_err(o) and len(o) == 96 and o[80:96].any() else None
    if cls is ns.FullLinkControl:
        def go():
            from okdmr.dmrlib.etsi.fec.reed_solomon_12_9_4 import ReedSolomon1294
            from okdmr.dmrlib.etsi.layer2.elements.crc_masks import CrcMasks

            mask = getattr(CrcMasks, dt_name).value
            mask = mask if isinstance(mask, (bytes, bytearray)) else int(mask).to_bytes(3, "big")
            full = ReedSolomon1294.generate(bits[:72].tobytes(), mask)  # the 9 data octets + 3 parity octets
            return bits_of(full)

        o = call(go)
        return o if not is_err(o) and len(o) == 96 else None
    return None


def assemble_data_burst(ns, info196, cc, dt, sync):
    slot = ns.L2Slot(colour_code=cc, data_type=dt).as_bits()
    return (info196[:98] + slot[:10] + sync.as_bits() + slot[10:] + info196[98:]).tobytes()


def read_back(ns, payload: bytes, bt):
    """what the library parses from the 33 octets alone: (burst | None)"""
    burst_mod, _, _ = L()
    b = call(lambda: burst_mod.Burst(full_bits=bits_of(payload), burst_type=bt))
    return None if is_err(b) else b


def make_carriers(ctx, rng, ps, pd, pcc):
    """payloads that embed the ids ps (source) / pd (destination) and the colour code pcc, one or more per payload kind:
    dicts {label, slot (IPSC slot type to indicate), wake, payload, ps, pd, cc, tdma, octets (small numbers the payload carries)}"""
    ns = rel_lib()
    DT, SP, BT = ns.DataTypes, ns.SyncPatterns, ns.BurstTypes
    data_sync = [SP.BsSourcedData, SP.MsSourcedData, SP.Tdma1Data, SP.Tdma2Data]
    out = []

    def tdma_of(sync):
        return {"Tdma1Data": 1, "Tdma2Data": 2, "Tdma1Voice": 1, "Tdma2Voice": 2}.get(sync.name)

    def add_data(label, dt_name, bits96=None, info196=None, ids=(None, None), octets=(), pdu_cls=None, sa=None, da=None):
        dt = getattr(DT, dt_name)
        sync = rng.choice(data_sync)
        info = info196 if info196 is not None else call(ns.BPTC19696.encode, bits96)
        if is_err(info):
            ctx.count("rel:carrier-dropped:" + label)
            return
        payload = assemble_data_burst(ns, info, pcc, dt, sync)
        b = read_back(ns, payload, BT.DataAndControl)
        good = b is not None and len(payload) == 33 and b.data is not None and getattr(b.slot_type, "colour_code", None) == pcc
        if good and pdu_cls is not None:
            good = isinstance(b.data, pdu_cls) and (sa is None or getattr(b.data, sa, None) == ids[0]) and (da is None or getattr(b.data, da, None) == ids[1])
        if not good:
            ctx.count("rel:carrier-dropped:" + label)
            return
        slot = DT_SLOT[dt_name] if rng.random() < 0.85 else "Undefined"
        out.append({"label": label, "slot": slot, "wake": False, "payload": payload, "ps": ids[0], "pd": ids[1], "cc": pcc,
                    "tdma": tdma_of(sync), "octets": tuple(octets)})

    # 1. PDUs with address fields, through BPTC(196,96)
    for label, dt_name, cls, bits, sa, da in pdu_templates(rng):
        p = call(cls.from_bits, bits.copy())
        if is_err(p):
            continue
        if sa:
            setattr(p, sa, ps)
        if da:
            setattr(p, da, pd)
        octs = []
        if isinstance(getattr(p, "blocks_to_follow", None), int) and not isinstance(p.blocks_to_follow, bool):
            octs.append(p.blocks_to_follow)
        o = call(p.as_bits)
        if is_err(o) or len(o) != 96:
            ctx.count("rel:carrier-dropped:" + label)
            continue
        if rng.random() < 0.6:
            v = valid_check_field(ns, cls, o, dt_name)
            if v is not None:
                o = v
                ctx.count("rel:carrier:check-field-recomputed")
        add_data(label, dt_name, bits96=o, ids=(ps if sa else None, pd if da else None), octets=octs, pdu_cls=cls, sa=sa, da=da)
    # 2. PDUs without address attributes: the ids travel in the data octets (big-endian, as on air; the IPv4 form 10.a.b.c too)
    def id_octets(n, at=0):
        form = rng.choice(["be", "be", "le", "ip"])
        s = {"be": ps.to_bytes(3, "big") + pd.to_bytes(3, "big"), "le": ps.to_bytes(3, "little") + pd.to_bytes(3, "little"),
             "ip": b"\x0a" + ps.to_bytes(3, "big") + b"\x0a" + pd.to_bytes(3, "big")}[form]
        d = bytearray(rng.randrange(256) for _ in range(n))
        d[at : at + len(s)] = s
        return bytes(d[:n]), form

    d, form = id_octets(10, rng.choice([0, 2]))
    pi = call(lambda: ns.PIHeader(data=d).as_bits())
    if not is_err(pi) and len(pi) == 96:
        add_data(f"PIHeader/ids-in-data:{form}", "PIHeader", bits96=pi, ids=(ps, pd))
    sync_csbk = call(lambda: ns.CSBK(csbko=ns.CsbkOpcodes.HyteraIPSCSync, raw_data=id_octets(8, 0)[0]).as_bits())
    if not is_err(sync_csbk) and len(sync_csbk) == 96:
        add_data("CSBK/HyteraIPSCSync/ids-in-raw-data", "CSBK", bits96=sync_csbk, ids=(ps, pd))
    d, form = id_octets(12, rng.choice([0, 2, 4]))
    add_data(f"Rate12Data/ids-in-data:{form}", "Rate12Data", bits96=bits_of(d), ids=(ps, pd), octets=[d[0] >> 1])
    d, form = id_octets(18, rng.choice([0, 2, 8]))
    add_data(f"Rate34Data/ids-in-data:{form}", "Rate34Data", info196=call(ns.Trellis34.encode, bits_of(d)), ids=(ps, pd), octets=[d[0] >> 1])
    d, form = id_octets(24, rng.choice([0, 2, 12]))
    r1 = bits_of(d)
    add_data(f"Rate1Data/ids-in-data:{form}", "Rate1Data", info196=r1[:96] + ns.bitarray("0000") + r1[96:], ids=(ps, pd), octets=[d[0] >> 1])
    # 3. sync / wake-up payloads (not DMR bursts): the 00-padded id copy the captured sync frames carry (destination at octets
    # 7/9/11, source at 13/15/17), the same with non-zero fill, the two ids the other way round, and contiguous copies
    def raw_base():
        r = rng.random()
        if r < 0.5:
            caps = [p for p in _REL.get("sync_payloads", [])]
            if caps:
                return bytearray(rng.choice(caps))
        if r < 0.75:
            return bytearray(33)
        return bytearray(rng.randrange(256) for _ in range(33))

    def add_raw(label, payload, ids):
        if len(payload) != 33 or read_back(ns, bytes(payload), BT.Undefined) is None:  # the Burst constructor's own refusals are outside the model
            ctx.count("rel:carrier-dropped:" + label)
            return
        for slot, wake in (("VoiceOrDataSync", False), ("Wakeup", False), (rng.choice(["VoiceOrDataSync", "Wakeup", "CSBK", "VoiceFrameA", "Undefined"]), True)):
            out.append({"label": label, "slot": slot, "wake": wake, "payload": bytes(payload), "ps": ids[0], "pd": ids[1], "cc": None, "tdma": None,
                        "octets": (payload[0], payload[1], payload[32])})

    def padded(first, second, fill):
        p = raw_base()
        for i, v in enumerate(first.to_bytes(3, "big") + second.to_bytes(3, "big")):
            p[6 + 2 * i] = fill() if fill else 0
            p[7 + 2 * i] = v
        return p

    add_raw("sync/00-padded dst@7,9,11 src@13,15,17", padded(pd, ps, None), (ps, pd))
    add_raw("sync/00-padded src@7,9,11 dst@13,15,17", padded(ps, pd, None), (ps, pd))
    add_raw("sync/padded with non-zero fill", padded(pd, ps, lambda: rng.randrange(1, 256)), (ps, pd))
    p = raw_base()
    at = rng.randrange(0, 27)
    p[at : at + 6] = pd.to_bytes(3, "big") + ps.to_bytes(3, "big")
    add_raw("sync/contiguous big-endian dst src", p, (ps, pd))
    p = raw_base()
    at = 2 * rng.randrange(0, 12)
    words = bytes.fromhex(idword(pd) + idword(ps))  # the trailer's own 8 octets, as they stand in the frame
    p2 = bytearray(swap16(bytes(p) + b"\x00"))
    p2[at : at + 8] = words
    add_raw("sync/copy of the trailer id words (frame octet order)", swap16(bytes(p2))[:33], (ps, pd))
    # 4. voice bursts: EMB with the colour code + one 32-bit fragment of the VBPTC(128,72)-encoded full LC carrying the ids
    def lc_fragments():
        tpl = [t for t in pdu_templates(rng) if t[2] is ns.FullLinkControl and t[4] and t[5]]
        if not tpl:
            return None
        _, _, cls, bits, sa, da = rng.choice(tpl)
        p = cls.from_bits(bits.copy())
        setattr(p, sa, ps)
        setattr(p, da, pd)
        enc = ns.VBPTC12873.encode(p.as_bits()[:72])
        return [enc[32 * i : 32 * i + 32] for i in range(4)]

    frags = call(lc_fragments)
    if is_err(frags) or not frags:
        ctx.count("rel:carrier-dropped:voice embedded LC")
        frags = [rand_bits(rng, 32) for _ in range(4)]
        lc_ids = (None, None)
    else:
        lc_ids = (ps, pd)
    for i, letter in enumerate("BCDE"):
        v = rand_bits(rng, 216)
        e = ns.EmbeddedSignalling(colour_code=pcc, preemption_and_power_control_indicator=rng.randrange(2), link_control_start_stop=[1, 3, 3, 2][i]).as_bits()
        payload = (v[:108] + e[:8] + frags[i] + e[8:] + v[108:]).tobytes()
        b = read_back(ns, payload, BT.Undefined)
        if b is None or read_back(ns, payload, BT.Vocoder) is None or getattr(b.emb, "colour_code", None) != pcc:
            ctx.count("rel:carrier-dropped:voice " + letter)
            continue
        out.append({"label": f"voice {letter}/EMB + embedded LC fragment {i}", "slot": "VoiceFrame" + letter, "wake": False, "payload": payload,
                    "ps": lc_ids[0], "pd": lc_ids[1], "cc": pcc, "tdma": None, "octets": ()})
    for sync in (SP.BsSourcedVoice, SP.MsSourcedVoice, SP.Tdma1Voice, SP.Tdma2Voice):
        v = bytearray(rand_bits(rng, 216).tobytes())
        v[0:3], v[24:27] = ps.to_bytes(3, "big"), pd.to_bytes(3, "big")  # vocoder octets that happen to spell the ids
        vb = bits_of(v)
        payload = (vb[:108] + sync.as_bits() + vb[108:]).tobytes()
        if read_back(ns, payload, BT.Undefined) is not None and read_back(ns, payload, BT.Vocoder) is not None:
            out.append({"label": f"voice A/{sync.name}", "slot": "VoiceFrameA", "wake": False, "payload": payload, "ps": ps, "pd": pd, "cc": None,
                        "tdma": tdma_of(sync), "octets": ()})
    return out


def id_relations(rng, ps, pd, f):
    """(name, trailer source, trailer destination) for payload ids ps / pd (None: the payload has no such id) and the frame's other fields"""
    r = lambda: rng.randrange(1 << 24)  # noqa: E731
    bit = lambda: 1 << rng.randrange(24)  # noqa: E731
    out = []
    if ps is not None and pd is not None:
        out += [
            ("equal", ps, pd), ("crossed", pd, ps), ("crossed,src+1", (pd + 1) & M24, ps), ("crossed,dst-1", pd, (ps - 1) & M24),
            ("crossed,src-1", (pd - 1) & M24, ps), ("crossed,dst+1", pd, (ps + 1) & M24), ("equal,src-1", (ps - 1) & M24, pd), ("equal,dst+1", ps, (pd + 1) & M24),
            ("equal,src+1", (ps + 1) & M24, pd), ("equal,dst-1", ps, (pd - 1) & M24), ("equal,src one bit off", ps ^ bit(), pd),
            ("equal,low 16 bits only", ps & 0xFFFF, pd & 0xFFFF), ("crossed,low 16 bits only", pd & 0xFFFF, ps & 0xFFFF), ("equal,shifted right one octet", ps >> 8, pd >> 8),
            ("equal,shifted left one octet", (ps << 8) & M24, (pd << 8) & M24), ("equal,both +1", (ps + 1) & M24, (pd + 1) & M24), ("crossed,both -1", (pd - 1) & M24, (ps - 1) & M24),
            ("crossed,dst one bit off", pd, ps ^ bit()), ("octet-reversed", rev24(ps), rev24(pd)), ("crossed,octet-reversed", rev24(pd), rev24(ps)),
            ("complemented", ps ^ M24, pd ^ M24), ("crossed,complemented", pd ^ M24, ps ^ M24),
        ]
    for nm, v in (("ps", ps), ("pd", pd)):
        if v is None:
            continue
        out += [
            (f"src=dst={nm}", v, v), (f"src={nm},dst random", v, r()), (f"dst={nm},src random", r(), v), (f"src={nm},dst=0", v, 0), (f"dst={nm},src=0", 0, v),
            (f"src={nm},dst={nm}+1", v, (v + 1) & M24), (f"src={nm}-1,dst={nm}", (v - 1) & M24, v), (f"src=dst={nm}+1", (v + 1) & M24, (v + 1) & M24),
            (f"src={nm},dst=FFFFFF", v, M24), (f"dst={nm},src=FFFFFF", M24, v),
        ]
    x = r()
    seq, cc, slot = f["seq"], f["cc"], 1 if f["ts"] == 0x1111 else 2
    out += [
        ("src=dst", x, x), ("src=dst+1", (x + 1) & M24, x), ("src=dst-1", (x - 1) & M24, x), ("src=~dst", x ^ M24, x), ("src=octet-reversed dst", rev24(x), x),
        ("src=dst=0", 0, 0), ("src=dst=FFFFFF", M24, M24), ("src=0,dst=FFFFFF", 0, M24),
        ("src=seq", seq, r()), ("dst=seq", r(), seq), ("src=dst=seq", seq, seq), ("src=seq*010101", seq * 0x010101, r()), ("dst=seq<<16", r(), seq << 16),
        ("src=cc", cc, r()), ("dst=cc", r(), cc), ("dst=cc*111111", r(), cc * 0x111111), ("src=cc*11,dst=cc*1111", cc * 0x11, cc * 0x1111),
        ("dst=slot number", r(), slot), ("src=slot number,dst=other slot", slot, 3 - slot), ("src=slot-type word", f["st"], r()),
        ("dst=timeslot word", r(), f["ts"]), ("src=5a5a5a", 0x5A5A5A, r()), ("dst=packet type", r(), f["pt"]),
    ]
    return out


def coherent_header(rng, f, slot, wake):
    """packet / frame / call type and reserved octets as captured frames of this kind have them"""
    if slot in ("VoiceOrDataSync", "Wakeup") or wake:
        f["pt"] = PACKET_VALUES["TypeB"]
        f["ft"] = rng.choice([0x1111, 0x3333, 0xEEEE]) if slot == "VoiceOrDataSync" else 0
    else:
        f["pt"] = PACKET_VALUES["TerminatorWithLC"] if slot == "TerminatorWithLC" else PACKET_VALUES["TypeA"]
        f["ft"] = 0
    for k, v in rng.choice(res_dict()["tuples"]).items():
        set_res(f, k, v)
    if rng.random() < 0.5:
        f["r7"] = "000501%02x000000" % (1 if f["ts"] == 0x1111 else 2)


def carrier_frame(rng, pool, c, coherent=None):
    """fields of a frame that carries the carrier's payload under the slot type it belongs to"""
    f = gen_frame(rng, pool, wf_bias=1.0)
    f["st"] = SLOT_VALUES[c["slot"]]
    f["ct"] = CALL_VALUES[rng.choice(["WakeupCall_2", "WakeupCall_c"])] if c["wake"] else CALL_VALUES[rng.choice(["PrivateCall", "GroupCall"])]
    if coherent if coherent is not None else rng.random() < 0.6:
        coherent_header(rng, f, c["slot"], c["wake"])
    f["burst"], f["kind"] = c["payload"].hex(), "rel:" + c["label"].split("/")[0]
    if c["cc"] is not None and rng.random() < 0.6:
        set_typed(f, "cc", c["cc"])
    return f


def relation_sweep(ctx, rng, pool, pairs):
    """every relation between trailer ids / colour / timeslot / sequence and the payload's own values x every payload kind
    (both decoders, the object view, the burst view and the serialiser, through frame_case)"""
    burst_mod, _, K = L()
    if "sync_payloads" not in _REL:
        sp = []
        for h in CAPTURED:
            fc = fields_of_captured(h)
            if fc["st"] in (SLOT_VALUES["VoiceOrDataSync"], SLOT_VALUES["Wakeup"]):
                sp.append(bytes.fromhex(fc["burst"]))
        _REL["sync_payloads"] = sp

    def pick_ids():
        r = rng.random()
        if r < 0.35:
            a, b = rng.sample([2308090, 2308091, 2308092, 2308094, 2308155, 2308195, 111, 9, 2623266, 2504105, 250997, 2301], 2)
        elif r < 0.55:
            a, b = rng.sample([1, 2, 0xFF, 0x100, 0xFFFF, 0x10000, 0x7FFFFF, 0x800000, 0xFFFFFE, 0xFFFFFF, 0], 2)
        else:
            a, b = rng.randrange(1 << 24), rng.randrange(1 << 24)
        if rng.random() < 0.08:
            b = a  # the payload's own two ids coincide
        elif rng.random() < 0.08:
            b = (a + 1) & M24
        return a, b

    def emit(tag, c, f):
        ctx.count(f"rel:{tag}")
        ctx.count(f"rel-kind:{c['label'].split(':')[0]}")
        frame_case(ctx, f, build_frame(f), pairs, "rel")

    for rnd in range(ctx.budget(1, 10)):
        # three id pairs / colours per round (captured-like, boundary, random - or whatever pick_ids draws), every payload kind with one of them
        carriers = []
        for k in range(3):
            ps, pd = pick_ids() if (k, rnd % 4) != (2, 3) else (0, 0)
            made = make_carriers(ctx, rng, ps, pd, rng.randrange(16))
            carriers += [c for i, c in enumerate(made) if (i + rnd) % 3 == k]
        ctx.count("rel:carriers", len(carriers))
        correlation_extras(ctx, rng, pool, pairs, carriers)
        for c in carriers:
            # ids: every relation once per carrier
            f0 = carrier_frame(rng, pool, c)
            for name, s, d in id_relations(rng, c["ps"], c["pd"], f0):
                f = dict(f0) if rng.random() < 0.5 else carrier_frame(rng, pool, c)
                set_typed(f, "src", s)
                set_typed(f, "dst", d)
                emit("ids:" + name.replace("ps", "payload-src").replace("pd", "payload-dst"), c, f)
            # the other fields on a frame whose ids agree with the payload (as every captured frame does)
            def consistent():
                f = carrier_frame(rng, pool, c, coherent=rng.random() < 0.8)
                if c["ps"] is not None:
                    set_typed(f, "src", c["ps"])
                if c["pd"] is not None:
                    set_typed(f, "dst", c["pd"])
                return f

            if c["cc"] is not None:
                for name, v in (("equal", c["cc"]), ("+1", (c["cc"] + 1) & 15), ("-1", (c["cc"] - 1) & 15), ("complement", 15 - c["cc"]),
                                ("one bit off", c["cc"] ^ (1 << rng.randrange(4))), ("0", 0), ("15", 15)):
                    f = consistent()
                    set_typed(f, "cc", v)
                    emit("colour:frame = payload " + name, c, f)
            for tsn, tsv in TS_VALUES.items():
                f = consistent()
                f["ts"] = tsv
                emit(f"timeslot:{tsn} x payload sync {'TDMA' + str(c['tdma']) if c['tdma'] else 'not slot-specific'}", c, f)
            seqs = [("payload counter / first octets", lambda f, o=o: o) for o in c["octets"]] + [
                ("a payload octet", lambda f: c["payload"][rng.randrange(33)]), ("colour", lambda f: f["cc"]),
                ("low octet of dst", lambda f: f["dst"] & 255), ("low octet of src", lambda f: f["src"] & 255),
                ("high octet of src", lambda f: f["src"] >> 16), ("slot number", lambda f: 1 if f["ts"] == 0x1111 else 2),
            ]
            for name, fn in seqs:
                f = consistent()
                f["seq"] = fn(f) & 255
                emit("sequence = " + name, c, f)


def checksum_functions():
    """name -> function(bytes) -> int: the checksums a frame could plausibly carry about one of its own parts (the library's own
    CRC / checksum routines where it has them, plus the plain sums)"""
    import zlib

    fns = {
        "sum16": lambda d: sum(d) & 0xFFFF, "sum8": lambda d: sum(d) & 0xFF, "xor8": lambda d: __import__("functools").reduce(lambda a, b: a ^ b, d, 0),
        "neg-sum16": lambda d: (-sum(d)) & 0xFFFF, "crc32-zlib": lambda d: zlib.crc32(bytes(d)), "length": lambda d: len(d),
        "sum16-of-words-le": lambda d: sum(int.from_bytes(d[i : i + 2], "little") for i in range(0, len(d) - 1, 2)) & 0xFFFF,
    }

    def lib(name, make):
        try:
            fn = make()
            fn(bytes(10))
            fns[name] = fn
        except BaseException:  # noqa: a routine the library does not (or no longer) offer is simply not used
            pass

    def crc16(mask_name):
        from okdmr.dmrlib.etsi.crc.crc16 import CRC16
        from okdmr.dmrlib.etsi.layer2.elements.crc_masks import CrcMasks

        m = getattr(CrcMasks, mask_name)
        return lambda d: int(CRC16.calculate(bytes(d), m))

    lib("crc16-ccitt/CSBK mask", lambda: crc16("CSBK"))
    lib("crc16-ccitt/DataHeader mask", lambda: crc16("DataHeader"))

    def cs5():
        from okdmr.dmrlib.etsi.fec.five_bit_checksum import FiveBitChecksum

        return lambda d: FiveBitChecksum.calculate(bytes(d[:9]))

    lib("five-bit checksum of the first 9 octets", cs5)

    def crc32lib():
        from okdmr.dmrlib.etsi.crc.crc32 import CRC32

        return lambda d: int(CRC32.calculate(bytes(d) + bytes(-len(d) % 2)))

    lib("crc32/library", crc32lib)
    return fns


def hi_lo_disjoint(a_lo, a_hi, b_lo, b_hi) -> bool:
    return a_hi <= b_lo or b_hi <= a_lo


def correlation_extras(ctx, rng, pool, pairs, carriers):
    """siblings of the id / colour relations: payload kind x indicated slot type, a checksum of one part of the frame inside
    another part, the frame's magic constant inside other fields, pad / id-word low octets / colour-word octets tied to the
    payload, frames serialised by the library itself.  Frames that leave the property's range only feed the correspondence."""
    _, H, _ = L()

    def emit(tag, f, label):
        ctx.count(f"rel:{tag}")
        frame_case(ctx, f, build_frame(f), pairs, "rel")

    def consistent(c, coherent=True):
        f = carrier_frame(rng, pool, c, coherent=coherent)
        if c["ps"] is not None:
            set_typed(f, "src", c["ps"])
        if c["pd"] is not None:
            set_typed(f, "dst", c["pd"])
        return f

    raw = [c for c in carriers if c["label"].startswith("sync/")]
    # payload kind x slot type: every carrier under four other slot types (in range only when the payload still is of the indicated kind)
    for c in carriers:
        for sn in rng.sample(SLOT, 4):
            f = consistent(c, coherent=False)
            f["st"] = SLOT_VALUES[sn]
            is_raw, is_voice = c["label"].startswith("sync/"), c["label"].startswith("voice")
            sync_like = sn in ("Wakeup", "VoiceOrDataSync") or c["wake"]
            f["parses"] = bool((sync_like and (is_raw or is_voice)) or (not sync_like and ((is_voice and sn in VOICE_SLOTS) or (not is_raw and not is_voice and sn not in VOICE_SLOTS))))
            if not f["parses"] and not constructs(build_frame(f)):
                ctx.count("rel:kind-cross:constructor-rejects (skipped)")
                continue
            emit("kind-cross:payload kind x other slot type", f, c["label"])
        if c["cc"] is not None:  # colour word whose two octets differ, one of them the payload's colour (out of range: both decoders must still agree)
            o = rng.randrange(16)
            for word in (bytes([c["cc"] * 17, o * 17]), bytes([o * 17, c["cc"] * 17]), bytes([c["cc"] | (o << 4)] * 2)):
                f = consistent(c)
                f["ccword"], f["cc"] = word.hex(), None
                emit("colour-word octets: payload colour / another", f, c["label"])
        for lowname, low in (("payload octet", c["payload"][rng.randrange(33)]), ("sequence", None), ("colour*17", None)):
            f = consistent(c)
            v = low if low is not None else f["seq"] if lowname == "sequence" else f["cc"] * 17
            if v:
                f["dstword"] = idword(f["dst"], v)
                if rng.random() < 0.5:
                    f["srcword"] = idword(f["src"], v)
                emit("id-word low octet = " + lowname, f, c["label"])
        for name, v in (("last payload octet", c["payload"][32]), ("first payload octet", c["payload"][0]), ("sequence", None), ("low octet of src", None)):
            f = consistent(c)
            f["pad"] = v if v is not None else f["seq"] if name == "sequence" else f["src"] & 255
            emit("pad = " + name, f, c["label"])
    # a checksum of one part inside another part
    fns = checksum_functions()
    targets = [("r2a", 2), ("r2b", 2), ("first", 2), ("r3", 3), ("r1", 1), ("pad", 1), ("r7", 7), ("seq", 1), ("src", 3), ("dst", 3)]
    part_names = ["payload field (34 octets as in the frame)", "burst (33 octets)", "header (octets 0..25)", "id words", "octets 4..61", "payload + trailer",
                  "type words (octets 16..23)"]
    # the two 16-bit reserved fields next to the payload: every function x every part x both octet orders; the other targets: a sample
    plan = [(t, fn, pn, o) for t in (("r2a", 2), ("r2b", 2)) for fn in sorted(fns) for pn in part_names for o in ("big", "little")]
    plan += [(rng.choice(targets), rng.choice(sorted(fns)), rng.choice(part_names), rng.choice(["big", "little"])) for _ in range(64)]
    for i, ((tgt, n), fname, want_part, order) in enumerate(plan):
        c = carriers[(i * 7 + 3) % len(carriers)]
        for _ in range(1):
            f = consistent(c, coherent=rng.random() < 0.7)
            fr = build_frame(f)
            t_lo, t_hi = {"r2a": (24, 26), "r2b": (60, 62), "first": (0, 2), "r3": (5, 8), "r1": (71, 72), "pad": (58, 59), "r7": (9, 16), "seq": (4, 5),
                          "src": (67, 71), "dst": (63, 67)}[tgt]
            # the part covered must not contain the field that receives the checksum (the relation then holds exactly)
            parts = [("payload field (34 octets as in the frame)", 26, 60), ("burst (33 octets)", None, None), ("header (octets 0..25)", 0, 26), ("id words", 63, 71),
                     ("octets 4..61", 4, 62), ("payload + trailer", 26, 72), ("type words (octets 16..23)", 16, 24)]
            ok_parts = [q for q in parts if q[1] is None or hi_lo_disjoint(q[1], q[2], t_lo, t_hi)]
            part_name, lo, hi = next((q for q in ok_parts if q[0] == want_part), None) or rng.choice(ok_parts)
            part = bytes.fromhex(f["burst"]) if lo is None else fr[lo:hi]
            v = call(fns[fname], part)
            if not isinstance(v, int):
                continue
            val = (v & ((1 << (8 * n)) - 1)).to_bytes(n, order)
            if tgt == "seq":
                f["seq"] = val[0]
            elif tgt in ("src", "dst"):
                set_typed(f, tgt, int.from_bytes(val, "big"))
            elif tgt == "r7":
                f["r7"] = (bytes.fromhex(f["r7"])[: 7 - min(4, max(2, (v.bit_length() + 7) // 8))] + (v & 0xFFFFFFFF).to_bytes(4, order)[-min(4, max(2, (v.bit_length() + 7) // 8)) :]).hex()
            else:
                set_res(f, tgt, val.hex())
            ctx.count("rel:checksum-fn:" + fname)
            emit(f"checksum of a part of the frame in {tgt}", f, c["label"])
    # the frame's magic (5a5a5a5a / 5a5a) and copies of the frame's own header inside other fields
    for c in rng.sample(raw, min(len(raw), 8)) if raw else []:
        f = consistent(c)
        p = bytearray(swap16(bytes.fromhex(f["burst"]) + bytes([f["pad"]])))  # the 34 octets as they stand in the frame
        what = rng.choice(["magic", "magic", "header copy", "trailer copy", "whole header"])
        at = rng.randrange(0, 30)
        fr = build_frame(f)
        ins = {"magic": bytes.fromhex("5a5a5a5a"), "header copy": fr[0:9], "trailer copy": fr[62:72], "whole header": fr[0:26]}[what]
        p[at : at + len(ins)] = ins[: 34 - at]
        sw = swap16(bytes(p[:34]))
        f["burst"], f["pad"] = sw[:33].hex(), sw[33]
        if not constructs(build_frame(f)):
            ctx.count("rel:constructor-rejects (skipped)")
            continue
        emit(f"payload contains the frame's own {what}", f, c["label"])
    for c in rng.sample(carriers, min(len(carriers), 8)):
        f = consistent(c)
        k = rng.choice(["r3", "r7", "r2a", "r2b", "seq+r3", "ids"])
        if k == "seq+r3":
            f["seq"], f["r3"] = 0x5A, "5a5a5a"
        elif k == "ids":
            set_typed(f, "dst", 0x5A5A5A)
            set_typed(f, "src", 0x5A5A5A)
            f["r2b"], f["r1"] = "5a5a", "5a"
        else:
            f[k] = "5a" * RES_LEN[k]
        emit("magic 5a5a in " + k, f, c["label"])
    # frames serialised by the library itself from a constructed object (another code path produces the input)
    for c in rng.sample(carriers, min(len(carriers), 12)):
        f = consistent(c, coherent=False)

        def mk():
            inv = lambda d, v: next(k for k, x in d.items() if x == v)  # noqa: E731
            o = H(call_type=enum_member("call_type", CALL.index(inv(CALL_VALUES, f["ct"]))), frame_type=enum_member("frame_type", FRAME.index(inv(FRAME_VALUES, f["ft"]))),
                  packet_type=enum_member("packet_type", PACKET.index(inv(PACKET_VALUES, f["pt"]))), slot_type=enum_member("slot_type", SLOT.index(inv(SLOT_VALUES, f["st"]))),
                  timeslot=enum_member("timeslot", TS.index(inv(TS_VALUES, f["ts"]))), sequence_number=f["seq"], color_code=f["cc"],
                  destination_radio_id=f["dst"], source_radio_id=f["src"], payload=bytes.fromhex(f["burst"]))
            return o.as_ipsc_bytes()

        fr = call(mk)
        if is_err(fr) or len(fr) != 72:
            ctx.count("rel:library-built:serialiser refused")
            continue
        f2 = fields_of_captured(bytes(fr).hex())
        f2["kind"] = f["kind"]
        want = dict(f, **{k: RES_DEFAULT[k] for k in RES_DEFAULT if k != "pad"}, pad=0)
        if build_frame(want) != bytes(fr):
            ctx.fail("reserialise", {"fields": want, "frame": build_frame(want).hex()}, "a HyteraIPSC object constructed from in-range field values (default reserved octets) "
                     "does not serialise to the frame the layout gives for these fields", expected=build_frame(want).hex(), actual=bytes(fr).hex())
        ctx.count("rel:library-built frame decoded again")
        frame_case(ctx, f2, bytes(fr), pairs, "rel")


# ------------------------------------------------------------------------------------------------
# ambient state and error-path state (cheap, one child process per run): `python -O`, the very first calls on the
# classes are failing ones (wrong length, undefined type value, wrong magic), root logger at DEBUG, sys.stdout that
# raises, `random` reseeded between calls; then well-formed frames (captured + relation frames) by both decoders
# ------------------------------------------------------------------------------------------------
CHILD = r"""
import json, logging, random, sys, warnings
warnings.simplefilter("ignore")
job = json.load(sys.stdin)
sys.path.insert(0, job["root"])  # the tree the parent run imports the library from
frames = [bytes.fromhex(h) for h in job["frames"]]
class Broken:
    def write(self, *a, **k): raise OSError("stdout is gone")
    def flush(self): raise OSError("stdout is gone")
logging.getLogger().setLevel(logging.DEBUG)
sys.stdout = Broken()
from okdmr.dmrlib.hytera.hytera_ipsc import HyteraIPSC
from okdmr.kaitai.hytera.ip_site_connect_protocol import IpSiteConnectProtocol
from okdmr.dmrlib.etsi.layer2.burst import Burst
from okdmr.dmrlib.utils.bits_bytes import bits_to_bytes
first = []
bad = [frames[0][:71], frames[0][:62] + b"\x07" + frames[0][63:], frames[0][:18] + b"\x12\x11" + frames[0][20:], b"", frames[0][:2] + b"\xa5\xa5" + frames[0][4:]]
for x in bad:  # the first calls ever made on the classes fail
    for fn in (HyteraIPSC.from_ipsc_bytes, lambda d: HyteraIPSC.from_kaitai(IpSiteConnectProtocol.from_bytes(d)), Burst.from_hytera_ipsc,
               lambda d: Burst.from_hytera_ipsc(IpSiteConnectProtocol.from_bytes(d))):
        try:
            fn(x); first.append("ok")
        except BaseException as e:
            first.append(type(e).__name__)
out = []
for i, fr in enumerate(frames):
    random.seed(i % 3)
    row = {}
    for name in ("raw", "kaitai"):
        try:
            b = Burst.from_hytera_ipsc(fr if name == "raw" else IpSiteConnectProtocol.from_bytes(fr))
            h = b.hytera_ipsc
            row[name] = [type(b).__name__, bits_to_bytes(b.full_bits).hex(), b.timeslot, b.sequence_no, h.color_code, b.source_radio_id, h.source_radio_id,
                         h.destination_radio_id, b.target_radio_id, h.as_ipsc_bytes().hex()]
        except BaseException as e:
            row[name] = "ERR " + type(e).__name__
    out.append(row)
    if i % 7 == 3:  # failing calls in between
        for x in bad[:2]:
            try:
                Burst.from_hytera_ipsc(x)
            except BaseException:
                pass
sys.stderr.write("C13CHILD " + json.dumps({"first": first, "out": out, "optimised": not __debug__}) + "\n")
"""


def ambient_child(ctx, frames):
    """frames: [(fields, bytes)] in range.  One `python -O` child; the verdict is the layout reading, as everywhere"""
    import subprocess
    import sys

    try:
        import os

        import okdmr.dmrlib

        root = os.path.dirname(os.path.dirname(os.path.dirname(os.path.abspath(okdmr.dmrlib.__file__))))
        r = subprocess.run([sys.executable, "-O", "-c", CHILD], input=json.dumps({"root": root, "frames": [fr.hex() for _, fr in frames]}), capture_output=True,
                           text=True, timeout=120)
        line = next((ln for ln in r.stderr.splitlines() if ln.startswith("C13CHILD ")), None)
    except BaseException as e:  # noqa
        ctx.count(f"ambient:child could not run ({type(e).__name__})")
        return
    if line is None:
        ctx.fail("ambient-child", {"frames": len(frames), "ambient": "python -O, root logger DEBUG, failing sys.stdout, first calls failing"},
                 "the decoders did not get through a list of well-formed frames in a child interpreter (python -O, root logger at DEBUG, sys.stdout "
                 "raising, the first calls on the classes being failing ones)", expected="a result per frame", actual=(r.stderr or "")[-400:])
        return
    res = json.loads(line[len("C13CHILD "):])
    ctx.count("ambient:child python -O" if res.get("optimised") else "ambient:child (not optimised)")
    ctx.count("ambient:first calls failing", len(res["first"]))
    for (f, fr), row in zip(frames, res["out"]):
        ctx.count("ambient:frames")
        cls = {"sync": "HyteraIPSCSync", "wakeup": "HyteraIPSCWakeup", "burst": "Burst"}[expected_class(f)]
        for path in ("raw", "kaitai"):
            got = row[path]
            want = [cls, f["burst"], 1 if f["ts"] == 0x1111 else 2, f["seq"], f["cc"], f["src"], f["src"], f["dst"], f["dst"], fr.hex()]
            if isinstance(got, list) and not f["dst"]:
                got[8] = want[8] = None  # destination 0: the burst's target is the library's guess from the payload
            if got != want:
                ctx.fail("ambient-child", {"fields": f, "frame": fr.hex(), "ambient": "python -O, root logger DEBUG, failing sys.stdout, random reseeded, first calls failing"},
                         f"{path} path in a child interpreter (python -O, root logger at DEBUG, sys.stdout raising, random reseeded, failing calls first and in "
                         "between): class / payload / timeslot / sequence / colour / ids / re-serialisation differ from what the frame encodes", expected=want, actual=got)
                return


# ------------------------------------------------------------------------------------------------
# histories: results the caller keeps, re-stamps and serialises - for every entry point of the property
#   raw   HyteraIPSC.from_ipsc_bytes(bytes)              kai   HyteraIPSC.from_kaitai(parser object)
#   braw  Burst.from_hytera_ipsc(bytes)                  bkai  Burst.from_hytera_ipsc(parser object)
#   ser   HyteraIPSC.as_ipsc_bytes()
# Every decode must be a function of the octets alone: a NEW object (never one handed out before, never sharing a
# mutable part with one), reading as the frame encodes whatever was decoded, assigned or serialised before; an
# object the caller keeps must read as it did (or as the caller re-stamped it) whatever happens to other objects.
# ------------------------------------------------------------------------------------------------
ATTRS = (  # public attributes of HyteraIPSC in the order of show_obj, with their range
    ("call_type", CALL), ("slot_type", SLOT), ("frame_type", FRAME), ("packet_type", PACKET), ("timeslot", TS),
    ("sequence_number", 256), ("color_code", 16), ("destination_radio_id", 1 << 24), ("source_radio_id", 1 << 24),
    ("payload", "b33"), ("payload_pad", "b1"), ("first_header", "b2"), ("second_header", "b2"), ("reserved_3", "b3"),
    ("reserved_7a", "b7"), ("reserved_2a", "b2"), ("reserved_2b", "b2"), ("reserved_1", "b1"),
)
ATTR_RANGE = dict(ATTRS)
ATTR_RES = {"first_header": "first", "reserved_3": "r3", "reserved_7a": "r7", "reserved_2a": "r2a", "reserved_2b": "r2b",
            "reserved_1": "r1", "payload_pad": "pad"}
BRIDGE_ATTRS = ("timeslot", "sequence_number", "color_code", "source_radio_id", "destination_radio_id")
BURST_ATTRS = ("timeslot", "sequence_no", "source_radio_id", "target_radio_id", "full_bits")
ENTRY = ("raw", "kai", "braw", "bkai")


def enum_member(attr: str, idx: int):
    from okdmr.dmrlib.hytera.ipsc_elements.call_type import CallType
    from okdmr.dmrlib.hytera.ipsc_elements.frame_type import FrameType
    from okdmr.dmrlib.hytera.ipsc_elements.packet_type import PacketType
    from okdmr.dmrlib.hytera.ipsc_elements.slot_type import SlotType
    from okdmr.dmrlib.hytera.ipsc_elements.timeslot import Timeslot

    cls = {"call_type": CallType, "slot_type": SlotType, "frame_type": FrameType, "packet_type": PacketType, "timeslot": Timeslot}[attr]
    return getattr(cls, ATTR_RANGE[attr][idx])


def layout_obj(frame: bytes):
    """the 18 attributes a 72-octet frame encodes, read by the layout of the property (not by the library);
    None when a type value is undefined"""
    if len(frame) != 72:
        return None
    inv = lambda d, v: next((k for k, x in d.items() if x == v), None)  # noqa: E731
    pt, ct = inv(PACKET_VALUES, frame[8]), inv(CALL_VALUES, frame[62])
    ts = inv(TS_VALUES, int.from_bytes(frame[16:18], "little"))
    st = inv(SLOT_VALUES, int.from_bytes(frame[18:20], "little"))
    ft = inv(FRAME_VALUES, int.from_bytes(frame[22:24], "little"))
    if None in (pt, ct, ts, st, ft):
        return None
    sw = swap16(frame[26:60])
    return {
        "call_type": CALL.index(ct), "slot_type": SLOT.index(st), "frame_type": FRAME.index(ft), "packet_type": PACKET.index(pt),
        "timeslot": TS.index(ts), "sequence_number": frame[4], "color_code": frame[20] & 15,
        "destination_radio_id": int.from_bytes(frame[64:67], "little"), "source_radio_id": int.from_bytes(frame[68:71], "little"),
        "payload": sw[:33].hex(), "payload_pad": sw[33:].hex(), "first_header": frame[0:2].hex(), "second_header": frame[2:4].hex(),
        "reserved_3": frame[5:8].hex(), "reserved_7a": frame[9:16].hex(), "reserved_2a": frame[24:26].hex(),
        "reserved_2b": frame[60:62].hex(), "reserved_1": frame[71:72].hex(),
    }


def show_mirror(m) -> str:
    return " ".join((str(m[a]) if str(m[a]) != "" else "-") for a, _ in ATTRS)


def parse_shown(s: str):
    """the mirror of an object from its canonical reading (None for an error / unexpected reading)"""
    parts = s.split(" ")
    if is_err(s) or len(parts) != len(ATTRS):
        return None
    m = {}
    for (a, rg), v in zip(ATTRS, parts):
        m[a] = v if isinstance(rg, str) else int(v) if v.isdigit() else v
    return m


def mirror_bytes(m) -> bytes:
    """the 72 octets an object with these attribute values stands for, by the layout of the property"""
    return build_frame({
        "first": m["first_header"], "second": m["second_header"], "seq": m["sequence_number"], "r3": m["reserved_3"],
        "pt": PACKET_VALUES[PACKET[m["packet_type"]]], "r7": m["reserved_7a"], "ts": TS_VALUES[TS[m["timeslot"]]],
        "st": SLOT_VALUES[SLOT[m["slot_type"]]], "ccword": bytes([m["color_code"] * 17] * 2).hex(),
        "ft": FRAME_VALUES[FRAME[m["frame_type"]]], "r2a": m["reserved_2a"], "burst": m["payload"], "pad": int(m["payload_pad"], 16),
        "r2b": m["reserved_2b"], "ct": CALL_VALUES[CALL[m["call_type"]]], "dstword": idword(m["destination_radio_id"]),
        "srcword": idword(m["source_radio_id"]), "r1": m["reserved_1"],
    })


def read_obj(o) -> str:
    r = call(show_obj, o)
    return r if isinstance(r, str) else "ERR unreadable"


def read_burst(b, with_target: bool):
    from okdmr.dmrlib.utils.bits_bytes import bits_to_bytes

    def go():
        return {
            "cls": cls_name(b), "bits": hx(bits_to_bytes(b.full_bits)), "timeslot": b.timeslot, "seq": b.sequence_no,
            "src": b.source_radio_id, "target": b.target_radio_id if with_target else None,
        }

    r = call(go)
    return r if isinstance(r, dict) else {"unreadable": r}


def other_value(rng, attr, cur, pool):
    """another in-range value for a public attribute (canonical form: member index, int, hex)"""
    rg = ATTR_RANGE[attr]
    for _ in range(50):
        if isinstance(rg, list):
            v = rng.randrange(len(rg))
        elif isinstance(rg, int):
            v = rand_id(rng) if rg == 1 << 24 else rng.choice([0, rg - 1, rng.randrange(rg), rng.randrange(rg)])
        elif attr == "payload":
            v = rng.choice(pool["any"] + pool["voice"][:8] + pool["data"][:8]).hex()
        elif attr == "second_header":
            v = rng.choice(["5a5a", "5a5a", "a5a5", "0000", bytes(rng.randrange(256) for _ in range(2)).hex()])
        else:
            v = draw_res(rng, ATTR_RES[attr])
        if v != cur:
            return v
    return cur


def is_oor(attr, val) -> bool:
    """an assigned value outside the attribute's range (canonical form)"""
    rg = ATTR_RANGE[attr]
    if isinstance(rg, list):
        return False
    if isinstance(rg, int):
        return val >= rg
    return (0 if val == "-" else len(val) // 2) != int(rg[1:])


def run_history(frames, inr, steps, window=6):
    """execute one history on the real code.  frames: list of bytes; inr[i]: frames[i] is in the property's range;
    steps (JSON-able):  ["dec", entry, frame index, same input object as last time?]  ["set", ref, attribute, value]
    ["bset", ref, burst attribute, value]  ["ser", ref]  ["read", ref].
    Returns (model lines with the real code's answers, failures [first only], statistics)."""
    burst_mod, H, K = L()
    held = []  # {"o": HyteraIPSC, "b": Burst | None, "m": mirror, "bm": burst reading | None, "at": step, "fi": frame, "tgt": bool, "stamped": bool}
    lines, kept_octets, inputs, first_answer, bad, aliased = [("h.reset", "ok")], [], {}, {}, [], []
    stats = {}

    def flag(kind, at, what, expected, actual):
        bad.append({"kind": kind, "at": at, "what": what, "expected": expected, "actual": actual})

    def check_held(at, refs):
        for r in refs:
            e = held[r]
            cur = read_obj(e["o"])
            if cur != show_mirror(e["m"]):
                flag("held-result-changed", at, f"the HyteraIPSC object handed out by step {e['at']} (handle {r}) no longer reads as it did / as the caller "
                     f"re-stamped it, after step {at} which is not aimed at it", show_mirror(e["m"]), cur)
                return
            if e["b"] is not None:
                if e["b"].hytera_ipsc is not e["o"]:
                    flag("held-result-changed", at, f"the burst of step {e['at']} no longer keeps the object it decoded", "same object", "another object")
                    return
                cur = read_burst(e["b"], e["tgt"])
                if cur != e["bm"]:
                    flag("held-result-changed", at, f"the burst handed out by step {e['at']} (handle {r}) no longer reads as it did, after step {at} which is not aimed at it", e["bm"], cur)
                    return

    for at, st in enumerate(steps):
        if bad:
            break
        kind = st[0]
        stats[kind] = stats.get(kind, 0) + 1
        if kind == "dec":
            _, ep, fi, same = st
            frame = frames[fi]
            ent = inputs.get(fi)
            if ent is None or not same:
                ent = inputs[fi] = {"bytes": bytes(bytearray(frame))}  # an equal, but new, bytes object

            def go():
                if ep in ("raw", "braw"):
                    arg = ent["bytes"]
                else:
                    if "k" not in ent:
                        ent["k"] = K.from_bytes(ent["bytes"])
                    arg = ent["k"]
                return (H.from_ipsc_bytes if ep == "raw" else H.from_kaitai)(arg) if ep in ("raw", "kai") else burst_mod.Burst.from_hytera_ipsc(arg)

            STATE["bt"], STATE["opaque_error"] = None, False
            res = call(go)
            if is_err(res):
                if not STATE["opaque_error"]:
                    lines.append((f"h.{ep} {hx(frame)}", res))
                if inr[fi]:
                    flag("decoder-raises", at, f"entry point '{ep}' raised on a well-formed frame", "a result", res)
                continue
            b = res if ep in ("braw", "bkai") else None
            o = res if b is None else b.hytera_ipsc
            ref = len(held)
            # two results must never be (or share) one mutable object.  The history goes on: the assignments that follow show
            # what the sharing does to the values; the sharing itself is reported if nothing else was by the end
            for r, e in enumerate(held):
                if aliased:
                    break
                if e["o"] is o:
                    aliased.append((at, f"entry point '{ep}' returned the very HyteraIPSC object that step {e['at']} handed out (handle {r}): "
                                    "results of two calls share one mutable object", f"the object of step {e['at']}"))
                elif b is not None and e["b"] is not None and (e["b"] is b or e["b"].full_bits is b.full_bits):
                    aliased.append((at, f"entry point '{ep}' returned the very burst / payload bit array that step {e['at']} handed out (handle {r})",
                                    f"the object of step {e['at']}"))
            got = read_obj(o)
            want = layout_obj(frame)
            tgt = bool(want and want["destination_radio_id"])
            bm = read_burst(b, tgt) if b is not None else None
            if b is None:
                answer = got
            else:
                i = b.hytera_ipsc
                answer = "%s %s %s %d %d %d %d %d" % (cls_name(b), bt_name(STATE["bt"]), bm.get("bits"), b.timeslot, b.sequence_no, i.color_code, b.source_radio_id, i.destination_radio_id)
            lines.append((f"h.{ep} {hx(frame)}", f"{ref} {answer}"))
            if not bad and inr[fi] and want is not None:
                if got != show_mirror(want):
                    flag("decode-depends-on-history", at, f"entry point '{ep}': the decoded frame does not carry the values the 72 octets encode "
                         "(call slot frame packet timeslot seq colour dst src payload pad headers reserved) - the same octets decode correctly in a fresh history",
                         show_mirror(want), got)
                elif b is not None:
                    wb = {"cls": expected_class({"st": SLOT_VALUES[SLOT[want["slot_type"]]], "ct": CALL_VALUES[CALL[want["call_type"]]]}),
                          "bits": want["payload"], "timeslot": want["timeslot"] + 1, "seq": want["sequence_number"], "src": want["source_radio_id"],
                          "target": want["destination_radio_id"] if tgt else None}
                    if bm != wb:
                        flag("decode-depends-on-history", at, f"entry point '{ep}': the burst does not carry the class / payload bits / timeslot / sequence / ids the 72 octets encode", wb, bm)
            key = (ep, fi)
            if not bad and key in first_answer and first_answer[key] != answer:
                flag("decode-depends-on-history", at, f"entry point '{ep}' answers differently for the same octets than at step {first_answer[key + ('at',)]}", first_answer[key], answer)
            if key not in first_answer:
                first_answer[key] = answer
                first_answer[key + ("at",)] = at
            held.append({"o": o, "b": b, "m": parse_shown(got) or want, "bm": bm, "at": at, "fi": fi, "tgt": tgt, "stamped": False})
            if held[-1]["m"] is None:  # unreadable result: nothing to track
                held.pop()
                flag("decode-depends-on-history", at, f"entry point '{ep}' returned an object that cannot be read", "18 attributes", got)
        elif kind in ("set", "bset", "ser", "read"):
            ref = st[1]
            if ref >= len(held):
                continue
            e = held[ref]
            if kind == "set":
                _, _, attr, val = st
                cur = getattr(e["o"], attr, None)
                rg = ATTR_RANGE[attr]
                octets = None if not isinstance(rg, str) else b"" if val == "-" else bytes.fromhex(val)
                if octets is not None and isinstance(cur, bytearray) and len(cur) == len(octets):
                    cur[:] = octets  # a mutable attribute is changed in place
                else:
                    setattr(e["o"], attr, enum_member(attr, val) if isinstance(rg, list) else val if isinstance(rg, int) else octets)
                if is_oor(attr, val):
                    e["oor"] = True
                e["m"][attr] = val
                e["stamped"] = True
                lines.append((f"h.set {ref} {attr} {val}", "ok"))
            elif kind == "bset":
                _, _, attr, val = st
                if e["b"] is None:
                    continue
                if attr == "full_bits":
                    e["b"].full_bits.invert()  # in place: the caller's own burst
                    e["bm"]["bits"] = bytes(x ^ 0xFF for x in bytes.fromhex(e["bm"]["bits"])).hex()
                elif attr == "sequence_no":
                    e["b"].set_sequence_no(val)
                    e["bm"]["seq"] = val
                elif attr == "target_radio_id":
                    e["b"].target_radio_id = val
                    e["tgt"] = True
                    e["bm"]["target"] = val
                else:
                    setattr(e["b"], attr, val)
                    e["bm"]["src" if attr == "source_radio_id" else attr] = val
            elif kind == "ser":
                s = call(e["o"].as_ipsc_bytes)
                out = s if is_err(s) else hx(s)
                lines.append((f"h.ser {ref}", out))
                if not is_err(s):
                    kept_octets.append((s, out, at))
                want = call(mirror_bytes, e["m"]) if inr[e["fi"]] and not e.get("oor") else None
                if isinstance(want, bytes):
                    if is_err(s) or bytes(s) != want:
                        if e["stamped"]:
                            flag("reserialise-after-restamp", at, f"the object of step {e['at']} (handle {ref}), re-stamped by the caller with in-range values, does not "
                                 "serialise to the frame its attributes now describe (original octets with exactly the assigned fields replaced)", want.hex(), out)
                        else:
                            flag("reserialise", at, f"the object of step {e['at']} (handle {ref}) does not serialise to the original 72 octets", want.hex(), out)
            else:
                lines.append((f"h.read {ref}", read_obj(e["o"])))
                check_held(at, [ref])
        if not bad:
            n = len(held)
            check_held(at, sorted(set(range(min(2, n))) | set(range(max(0, n - window), n))))
    if not bad:
        check_held(len(steps), range(len(held)))
        for s, out, at in kept_octets:
            if hx(s) != out:
                flag("held-result-changed", len(steps), f"the octets returned by as_ipsc_bytes at step {at} changed afterwards", out, hx(s))
                break
    if not bad and aliased:
        at, what, actual = aliased[0]
        flag("aliased-result", at, what, "a new object", actual)
    for r, e in enumerate(held):
        lines.append((f"h.read {r}", read_obj(e["o"])))
    stats["held"] = len(held)
    return lines, bad[:1], stats


def variants(rng, f):
    """frames one field away from f (same payload): a cache keyed on part of the octets would confuse them"""
    out = []
    names = ["seq", "cc", "dst", "src", "ts", "pt", "ft", "r3", "r7", "r2a", "r2b", "r1", "pad", "first"]
    if {v: k for k, v in SLOT_VALUES.items()}[f["st"]] in VOICE_SLOTS:
        names.append("st")
    # relations to the frame decoded before: the reply (ids swapped), a frame addressed to its own source, neighbours by one
    names += ["ids-swapped", "dst:=src", "src:=dst", "src+1"]
    for g in rng.sample(names, 4):
        f2 = dict(f)
        if g == "ids-swapped":
            set_typed(f2, "src", f["dst"])
            set_typed(f2, "dst", f["src"])
        elif g == "dst:=src":
            set_typed(f2, "dst", f["src"])
        elif g == "src:=dst":
            set_typed(f2, "src", f["dst"])
        elif g == "src+1":
            set_typed(f2, "src", (f["src"] + 1) & M24)
        elif g == "seq":
            f2["seq"] = (f["seq"] + rng.choice([1, 0x40, 255])) & 255
        elif g == "cc":
            set_typed(f2, "cc", (f["cc"] + rng.randrange(1, 16)) % 16)
        elif g in ("dst", "src"):
            set_typed(f2, g, f[g] ^ (1 << rng.randrange(24)))
        elif g == "ts":
            f2["ts"] = 0x3333 - f["ts"]
        elif g == "pt":
            f2["pt"] = rng.choice([v for v in PACKET_VALUES.values() if v != f["pt"]])
        elif g == "ft":
            f2["ft"] = rng.choice([v for v in FRAME_VALUES.values() if v != f["ft"]])
        elif g == "st":
            f2["st"] = rng.choice([SLOT_VALUES[n] for n in sorted(VOICE_SLOTS) if SLOT_VALUES[n] != f["st"]])
        else:
            b = bytearray.fromhex(get_res(f, g))
            b[rng.randrange(len(b))] ^= 1 << rng.randrange(8)
            set_res(f2, g, b.hex())
        out.append(f2)
    return out


def constructs(frame: bytes) -> bool:
    """both burst entry points build the frame (the Burst constructor's own refusals are outside the model)"""
    for path in ("raw", "kaitai"):
        line, _, opaque = view(path, frame)
        if opaque or is_err(line):
            return False
    return True


def episode_frames(rng, pool, n_other=2, with_errors=False):
    """[X, three single-field neighbours of X, unrelated generated frames, a captured frame] with in-range flags;
    with_errors: plus frames some / all entry points refuse (undefined call or slot type: all four; second header
    other than 5a5a: the two parser-object entry points) - errs maps the frame index to the refusing entry points"""
    while True:
        fx = gen_frame(rng, pool, wf_bias=1.0) if rng.random() < 0.6 else fields_of_captured(rng.choice(CAPTURED))
        if constructs(build_frame(fx)):
            break
    fs = [fx] + variants(rng, fx) + [gen_frame(rng, pool, wf_bias=1.0) for _ in range(n_other)] + [fields_of_captured(rng.choice(CAPTURED))]
    fs = [f for f in fs if constructs(build_frame(f))]
    frames, inr, errs = [], [], {}
    for f in fs:
        fr = build_frame(f)
        if fr not in frames:
            frames.append(fr)
            inr.append(bool(in_range(f)))
    if with_errors:
        for what in rng.sample(["ct", "st", "second"], rng.choice([1, 2])):
            f2 = dict(fx)
            if what == "ct":
                f2["ct"] = rng.choice([3, 0x0B, 0x7E, 0xFF])
            elif what == "st":
                f2["st"] = rng.choice([0x0001, 0x1112, 0xDDDE, 0xFFFE])
            else:
                f2["second"] = rng.choice(["a5a5", "5a5b", "0000"])
            fr = build_frame(f2)
            if fr not in frames:
                errs[len(frames)] = ENTRY if what != "second" else ("kai", "bkai")
                frames.append(fr)
                inr.append(False)
    return frames, inr, errs


class Planner:
    """builds the steps of a history and tracks what each handle will read as (to choose *other* values)"""

    def __init__(self, rng, pool, frames, errs=None):
        self.rng, self.pool, self.frames, self.errs = rng, pool, frames, errs or {}
        self.steps, self.m, self.is_burst, self.fi = [], [], [], []

    def dec(self, ep, fi, same):
        self.steps.append(["dec", ep, fi, bool(same)])
        if ep in self.errs.get(fi, ()):
            return None  # refused: nothing is handed out
        self.m.append(dict(layout_obj(self.frames[fi])))
        self.fi.append(fi)
        self.is_burst.append(ep in ("braw", "bkai"))
        return len(self.m) - 1

    def set(self, ref, attr, oor_p=0.0):
        v = other_value(self.rng, attr, self.m[ref][attr], self.pool)
        rg = ATTR_RANGE[attr]
        if self.rng.random() < oor_p and not isinstance(rg, list):
            # a value outside the attribute's range (too long / too short octets, an integer one past the top): the
            # serialiser's slicing and overflow errors against the model; no oracle for this object from here on
            if isinstance(rg, int):
                v = self.rng.choice([rg, rg + 1, rg * 256])
            else:
                n = int(rg[1:])
                v = bytes(self.rng.randrange(256) for _ in range(self.rng.choice([max(0, n - 1), n + 1, n + 2]))).hex() or "-"
        self.m[ref][attr] = v
        self.steps.append(["set", ref, attr, v])

    def set_to(self, ref, attr, v):
        """a chosen in-range value (e.g. the sibling field's, the reply's)"""
        self.m[ref][attr] = v
        self.steps.append(["set", ref, attr, v])

    def bset(self, ref, attr):
        rng = self.rng
        v = {"timeslot": rng.choice([1, 2]), "sequence_no": rng.randrange(256), "source_radio_id": rand_id(rng),
             "target_radio_id": 1 + rng.randrange((1 << 24) - 1), "full_bits": "invert"}[attr]
        self.steps.append(["bset", ref, attr, v])

    def ser(self, ref):
        self.steps.append(["ser", ref])

    def read(self, ref):
        self.steps.append(["read", ref])


def plan_restamp(rng, pool, frames):
    """the bridge history: first arrivals of X by every entry point; serialise, re-stamp (all 18 public attributes, or
    the five a bridge changes), serialise; the same octets again by every entry point (same input object / equal copy);
    the neighbours of X and unrelated frames; X once more; serialise everything"""
    p = Planner(rng, pool, frames)
    eps = list(ENTRY)
    rng.shuffle(eps)
    for ep in eps[: rng.choice([1, 2, 4, 4])]:
        p.dec(ep, 0, False)
    if rng.random() < 0.5:
        p.dec(rng.choice(ENTRY), 0, True)
    n0 = len(p.m)
    for t in rng.sample(range(n0), rng.choice([1, 1, 2, n0]) if n0 > 1 else 1):
        p.ser(t)
        attrs = list(BRIDGE_ATTRS) if rng.random() < 0.4 else [a for a, _ in ATTRS]
        rng.shuffle(attrs)
        for a in attrs:
            p.set(t, a)
            if rng.random() < 0.15:
                p.ser(t)
        p.ser(t)
        if p.is_burst[t]:
            for a in rng.sample(BURST_ATTRS, rng.choice([1, 3, 5])):
                p.bset(t, a)
    for ep in ENTRY:
        for same in (True, False):
            p.dec(ep, 0, same)
    for fi in range(1, len(frames)):
        p.dec(rng.choice(ENTRY), fi, False)
    p.dec(rng.choice(ENTRY), 0, True)
    for r in range(len(p.m)):
        p.ser(r)
    return p.steps


def plan_random(rng, pool, frames, n, errs=None):
    p = Planner(rng, pool, frames, errs)
    p.dec(rng.choice(ENTRY), 0, False)
    for _ in range(n):
        r = rng.random()
        k = len(p.m)
        if r < 0.4:
            p.dec(rng.choice(ENTRY), rng.choice([0, 0, rng.randrange(len(frames))]), rng.random() < 0.5)
        elif r < 0.7:
            p.set(rng.randrange(k), rng.choice(ATTRS)[0], oor_p=0.08)
        elif r < 0.78:
            bs = [i for i in range(k) if p.is_burst[i]]
            if bs:
                p.bset(rng.choice(bs), rng.choice(BURST_ATTRS))
        elif r < 0.92:
            p.ser(rng.randrange(k))
        else:
            p.read(rng.randrange(k))
    return p.steps


def plan_hold(rng, pool, frames):
    """many different frames decoded and kept (more than any plausible cache / pool holds), some re-stamped, the first
    ones decoded again, everything read back at the end"""
    p = Planner(rng, pool, frames)
    for fi in range(len(frames)):
        p.dec(rng.choice(ENTRY), fi, False)
    for t in rng.sample(range(len(frames)), min(24, len(frames))):
        for a in rng.sample([a for a, _ in ATTRS], 4):
            p.set(t, a)
        if p.is_burst[t]:
            p.bset(t, rng.choice(BURST_ATTRS))
    for fi in list(range(min(12, len(frames)))) + rng.sample(range(len(frames)), min(12, len(frames))):
        p.dec(rng.choice(ENTRY), fi, rng.random() < 0.5)
    return p.steps


def history_probe(ctx, rng, pool, hist_lines):
    def episode(tag, frames, inr, steps, window=6):
        lines, bad, stats = run_history(frames, inr, steps, window)
        hist_lines.extend(lines)
        ctx.case(("history", tag, [f.hex() for f in frames], steps), nontrivial=True,
                 sample={"tag": "history:" + tag, "frames": [f.hex() for f in frames[:2]], "steps": steps[:12]} if ctx.hist.get(f"hist:episodes:{tag}", 0) == 1 else None)
        ctx.count(f"hist:episodes:{tag}")
        for k, v in stats.items():
            ctx.count(f"hist:steps:{k}", v)
        for st in steps:
            if st[0] == "dec":
                ctx.count(f"hist:entry:{st[1]}:{'same-input-object' if st[3] else 'equal-copy'}")
            elif st[0] in ("set", "bset"):
                ctx.count(f"hist:{st[0]}:{st[2]}")
                if st[0] == "set" and is_oor(st[2], st[3]):
                    ctx.count("hist:set:out-of-range value (correspondence only)")
        for b in bad:
            ctx.fail(b["kind"], {"history": steps[: b["at"] + 1], "frames": [f.hex() for f in frames], "in_range": inr, "failing_step": b["at"]},
                     b["what"], expected=b["expected"], actual=b["actual"])
        return bool(bad)

    found = 0
    # the captured frames of the demo kind first: wake-up, sync, voice - every entry point, bridge re-stamp
    for _ in range(ctx.budget(60, 1500)):
        frames, inr, _ = episode_frames(rng, pool)
        found += episode("restamp", frames, inr, plan_restamp(rng, pool, frames))
        if found >= 8:
            return
    for _ in range(ctx.budget(40, 1500)):
        frames, inr, errs = episode_frames(rng, pool, n_other=rng.choice([0, 2, 4]), with_errors=rng.random() < 0.5)
        found += episode("random", frames, inr, plan_random(rng, pool, frames, rng.choice([20, 40, 80]), errs))
        if found >= 8:
            return
    # conversations: a stream of frames whose trailer ids agree with the ids inside their payloads, then the reply (trailer AND payload ids
    # swapped), the reply with only the trailer swapped (crossed against its payload), a frame addressed to its own source; every frame by one
    # entry point, then by another, a held result re-stamped to the reply's ids in between
    for _ in range(ctx.budget(12, 300)):
        a, b = rng.sample([2308090, 2308092, 2308155, 2308195, 111, 9, 1, 0xFFFFFF, rng.randrange(1 << 24), rng.randrange(1 << 24)], 2)
        pcc = rng.randrange(16)
        fwd, back = make_carriers(ctx, rng, a, b, pcc), make_carriers(ctx, rng, b, a, pcc)
        frames, inr = [], []
        seq0 = rng.choice([rng.randrange(256), rng.randrange(246, 256)])  # half of the streams wrap 255 -> 0

        def put(c, src, dst):
            f = carrier_frame(rng, pool, c, coherent=True)
            set_typed(f, "cc", pcc)
            set_typed(f, "src", src)
            set_typed(f, "dst", dst)
            f["seq"] = (seq0 + len(frames)) & 255
            fr = build_frame(f)
            if fr not in frames and constructs(fr):
                frames.append(fr)
                inr.append(bool(in_range(f)))

        def superframe(cs):
            """LC header, voice A, voice B..E with the four fragments of ONE embedded LC in order, terminator"""
            by = lambda pre: [c for c in cs if c["label"].startswith(pre)][:1]  # noqa: E731
            hdr = [c for c in cs if c["label"].startswith("FullLinkControl") and c["slot"] == "VoiceLCHeader"][:1]
            term = [c for c in cs if c["label"].startswith("FullLinkControl") and c["slot"] == "TerminatorWithLC"][:1]
            return hdr + by("voice A") + by("voice B") + by("voice C") + by("voice D") + by("voice E") + term

        ordered = rng.random() < 0.5
        ctx.count("hist:conversation:" + ("voice superframe in order" if ordered else "mixed payload kinds"))
        for c in superframe(fwd) if ordered else rng.sample(fwd, min(4, len(fwd))):
            put(c, a, b)
        for c in superframe(back) if ordered and rng.random() < 0.5 else rng.sample(back, min(3, len(back))):
            put(c, b, a)
        if ordered:
            for c in superframe(fwd):
                put(c, b, a)  # the whole superframe crossed against the LC it carries
        for c in rng.sample(fwd, min(2, len(fwd))):
            put(c, b, a)  # crossed against the payload
        for c in rng.sample(fwd, min(2, len(fwd))):
            put(c, a, a)
        if len(frames) < 3:
            continue
        p = Planner(rng, pool, frames)
        eps = rng.sample(ENTRY, 2)
        for fi in range(len(frames)):
            p.dec(eps[0], fi, False)
        t = rng.randrange(len(p.m))
        p.set_to(t, "source_radio_id", p.m[t]["destination_radio_id"])
        p.set_to(t, "destination_radio_id", layout_obj(frames[p.fi[t]])["source_radio_id"])
        p.ser(t)
        for fi in range(len(frames)):
            p.dec(eps[1], fi, rng.random() < 0.5)
        for fi in rng.sample(range(len(frames)), min(4, len(frames))):
            p.dec(rng.choice(ENTRY), fi, True)
        found += episode("conversation", frames, inr, p.steps)
        if found >= 8:
            return
    for _ in range(ctx.budget(1, 6)):
        frames, inr = [], []
        want = 300 if not ctx.thorough() else 1200
        for h in CAPTURED:
            frames.append(bytes.fromhex(h))
            inr.append(True)
        while len(frames) < want:
            f = gen_frame(rng, pool, wf_bias=1.0)
            fr = build_frame(f)
            if fr not in frames and constructs(fr):
                frames.append(fr)
                inr.append(bool(in_range(f)))
        found += episode("hold", frames, inr, plan_hold(rng, pool, frames), window=2)


def hold_corpus():
    """every captured frame decoded by every entry point; the objects are kept by the harness until the end of the run"""
    burst_mod, H, K = L()
    kept = []
    for h in CAPTURED:
        frame = bytes.fromhex(h)
        want = layout_obj(frame)
        for ep in ENTRY:
            res = call(lambda: H.from_ipsc_bytes(frame) if ep == "raw" else H.from_kaitai(K.from_bytes(frame)) if ep == "kai"
                       else burst_mod.Burst.from_hytera_ipsc(frame if ep == "braw" else K.from_bytes(frame)))
            if is_err(res):
                continue  # reported by the stateless oracle
            b = res if ep in ("braw", "bkai") else None
            o = res if b is None else b.hytera_ipsc
            tgt = bool(want and want["destination_radio_id"])
            kept.append({"frame": h, "entry": ep, "o": o, "b": b, "tgt": tgt, "first": read_obj(o), "bfirst": read_burst(b, tgt) if b is not None else None})
    return kept


def check_corpus_held(ctx, kept):
    ids = {}
    for e in kept:
        cur = read_obj(e["o"])
        curb = read_burst(e["b"], e["tgt"]) if e["b"] is not None else None
        inp = {"frame": e["frame"], "entry": e["entry"], "held_over_run": True}
        if cur != e["first"] or curb != e["bfirst"]:
            ctx.fail("held-result-changed", inp, f"the object entry point '{e['entry']}' handed out for a captured frame at the start of the run reads differently at its end "
                     "(nothing was assigned to it)", expected=[e["first"], e["bfirst"]], actual=[cur, curb])
            return
        for x in (e["o"], e["b"], e["b"].full_bits if e["b"] is not None else None):
            if x is not None and id(x) in ids:
                ctx.fail("aliased-result", inp, f"entry point '{e['entry']}' handed out a mutable object that another call ({ids[id(x)]}) had handed out before",
                         expected="a new object per call", actual="one shared object")
                return
            if x is not None:
                ids[id(x)] = f"{e['entry']} {e['frame']}"
    ctx.count("hist:kept-until-end-of-run", len(kept))


# ------------------------------------------------------------------------------------------------
# history / object-identity probes (harness/histories.py): both decoder paths, the object view and the serialiser, described once
_HPOOL = []


def ENTRY_POINTS():
    import random as _random

    import histories as H

    burst_mod, HI, K = L()
    # frames = captured frames with other header fields.  (Not make_pool / gen_frame: they decode captured frames with the library
    # while building their pool, and the pristine-order probe needs an interpreter in which NO decoder call was made yet.)
    captured = [bytes.fromhex(h) for h in CAPTURED if len(h) == 144]

    def frame(rng):
        b = bytearray(rng.choice(captured))
        r = rng.random()
        b[4] = rng.choice([0, 1, 127, 128, 255, rng.randrange(256)])
        if r < 0.5:
            b[16:18] = rng.choice(list(TS_VALUES.values())).to_bytes(2, "little")
            b[63:66] = rand_id(rng).to_bytes(3, "little")
            b[67:70] = rand_id(rng).to_bytes(3, "little")
        if rng.random() < 0.3:
            b[62] = rng.choice(list(CALL_VALUES.values()))
        if rng.random() < 0.2:
            b[18:20] = rng.choice(list(SLOT_VALUES.values())).to_bytes(2, "little")
        if rng.random() < 0.3:
            b[22:24] = rng.choice(list(FRAME_VALUES.values()) + [0x1234, 0xFFFF]).to_bytes(2, "little")
        if rng.random() < 0.2:
            b[8] = rng.choice(list(PACKET_VALUES.values()) + [0x7E])
        return (bytes(b),)

    def frame_near(args, rng):
        """the same frame under every call type, under other slot / frame / packet types incl. undefined ones (type words select the
        decoder branch: a cache or a class-level constant that omits or loses one of them shows between such neighbours)"""
        fr = bytes(args[0])
        if len(fr) != 72:
            return []
        out = []

        def put(label, pos, val):
            b = bytearray(fr)
            b[pos:pos + len(val)] = val
            out.append((label, (bytes(b),)))

        for name, v in CALL_VALUES.items():
            put(f"call type {name}", 62, bytes([v]))
        for name in SLOT[::3]:
            put(f"slot type {name}", 18, SLOT_VALUES[name].to_bytes(2, "little"))
        for name, v in FRAME_VALUES.items():
            put(f"frame type {name}", 22, v.to_bytes(2, "little"))
        for v in (0x1234, 0xFFFF, 0x0001):
            put(f"undefined frame type {v:04x}", 22, v.to_bytes(2, "little"))
        for v in (0x7E, 0x02):
            put(f"undefined packet type {v:02x}", 8, bytes([v]))
        return out

    def burst_view(b):
        i = getattr(b, "hytera_ipsc", None)
        return {"class": type(b).__name__, "fields": H.canon(b), "ipsc bytes": H.canon(call(i.as_ipsc_bytes)) if i is not None else None}

    def obj_view(o):
        return {"as_ipsc_bytes": H.canon(call(o.as_ipsc_bytes)), "fields": H.canon(o)}

    def quiet(fn):
        def run(*a):
            with warnings.catch_warnings():
                warnings.simplefilter("ignore")
                return fn(*a)
        return run

    ser = lambda o: o.as_ipsc_bytes()  # noqa: E731
    skip = ("_created",)
    return [
        H.EP("burst.from_hytera_ipsc(raw)", quiet(burst_mod.Burst.from_hytera_ipsc), frame, kind="parse", canon=burst_view, near=frame_near, domain="frame", edit_skip=skip, draws=3),
        H.EP("burst.from_hytera_ipsc(generic parser)", quiet(lambda fr: burst_mod.Burst.from_hytera_ipsc(K.from_bytes(fr))), frame, kind="parse", canon=burst_view, near=frame_near, domain="frame", edit_skip=skip, draws=2),
        H.EP("ipsc.from_ipsc_bytes", quiet(HI.from_ipsc_bytes), frame, kind="parse", canon=obj_view, serialise=ser, near=frame_near, domain="frame", draws=2),
        H.EP("ipsc.from_kaitai", quiet(lambda fr: HI.from_kaitai(K.from_bytes(fr))), frame, kind="parse", canon=obj_view, serialise=ser, domain="frame"),
    ]


def run_transl(ctx):
    """Differential validation of the source translator (tools/py2lean.py, py2lean_arr.py, py2lean_rec.py) and its preludes, trusted
    base of Props/C13t: `HyteraIPSC.from_ipsc_bytes` / `as_ipsc_bytes` TRANSLATED from the source (`Gen/TranslIpsc.lean`, driver
    operations `t.ip.*`) and the helpers of `Gen/TranslBitsBytes.lean` (`t.bb.*`) against the real code: frames of 72 octets with
    member / non-member values in every enum field, buffers of other lengths (0..100: slices clamp), decode + re-serialise, and
    objects built with boundary values (sequence 255 / 256 / -1, colour 15 / 16, ids 2^24 - 1 / 2^24, payload and reserved
    attributes of other lengths).  A difference is a translator or prelude bug, never a finding about /repo."""
    if ctx.search_only or not ctx.driver_ok:
        return
    from okdmr.dmrlib.hytera.hytera_ipsc import HyteraIPSC as _H
    from okdmr.dmrlib.hytera.ipsc_elements.call_type import CallType as _CT
    from okdmr.dmrlib.hytera.ipsc_elements.frame_type import FrameType as _FT
    from okdmr.dmrlib.hytera.ipsc_elements.packet_type import PacketType as _PT
    from okdmr.dmrlib.hytera.ipsc_elements.slot_type import SlotType as _ST
    from okdmr.dmrlib.hytera.ipsc_elements.timeslot import Timeslot as _TS
    from okdmr.dmrlib.utils.bits_bytes import byteswap_bytes as _sw, half_byte_to_bytes as _hb
    rng = ctx.rng

    def hx(b):
        return bytes(b).hex() if len(b) else "-"

    def idx(m):
        return list(type(m)).index(m)

    def sobj(o):
        return " ".join([str(idx(o.call_type)), str(idx(o.frame_type)), str(idx(o.packet_type)), str(idx(o.slot_type)), str(idx(o.timeslot)),
                         str(o.sequence_number), str(o.color_code), hx(o.payload), str(o.destination_radio_id), str(o.source_radio_id),
                         hx(o.first_header), hx(o.second_header), hx(o.reserved_3), hx(o.reserved_7a), hx(o.reserved_2a), hx(o.reserved_2b),
                         hx(o.reserved_1), hx(o.payload_pad)])

    def res(f):
        try:
            with warnings.catch_warnings():
                warnings.simplefilter("ignore")
                return f()
        except Exception as e:  # noqa
            return impl_error(e)

    def rb(n):
        return bytes(rng.randrange(256) for _ in range(n))

    def frame(valid):
        n = rng.choice([72] * 6 + [0, 1, 10, 40, 71, 73, 100])
        d = bytearray(rb(n))
        if valid and n >= 72:
            d[8] = rng.choice([65, 66, 67, 1, rng.randrange(256)])
            d[16:18] = rng.choice([4369, 8738]).to_bytes(2, "little")
            d[18:20] = rng.choice([m.value for m in _ST]).to_bytes(2, "little")
            d[22:24] = rng.choice([m.value for m in _FT] + [rng.randrange(65536)]).to_bytes(2, "little")
            d[62] = rng.choice([0, 1, 2, 12])
        return bytes(d)

    pairs = []
    for _ in range(ctx.budget(600, 6000)):
        d = frame(rng.random() < 0.8)
        pairs.append(("t.ip.from " + hx(d), res(lambda: sobj(_H.from_ipsc_bytes(d)))))
        pairs.append(("t.ip.ser " + hx(d), res(lambda: hx(_H.from_ipsc_bytes(d).as_ipsc_bytes()))))
        ctx.count("transl:from_ipsc_bytes")
        ctx.count("transl:as_ipsc_bytes")
    for _ in range(ctx.budget(300, 3000)):
        o = _H(call_type=rng.choice(list(_CT)), frame_type=rng.choice(list(_FT)), packet_type=rng.choice(list(_PT)),
               slot_type=rng.choice(list(_ST)), timeslot=rng.choice(list(_TS)),
               sequence_number=rng.choice([0, 1, 255, 256, -1, rng.randrange(256)]), color_code=rng.choice([0, 1, 15, 16, -1, rng.randrange(16)]),
               destination_radio_id=rng.choice([0, 1, 2 ** 24 - 1, 2 ** 24, -1, rng.randrange(2 ** 24)]),
               source_radio_id=rng.choice([0, 2 ** 24 - 1, 2 ** 24, rng.randrange(2 ** 24)]), payload=rb(rng.choice([33, 33, 33, 0, 1, 32, 34, 40])))
        o.payload_pad = rb(rng.choice([1, 1, 0, 2]))
        for a, k in (("first_header", 2), ("second_header", 2), ("reserved_3", 3), ("reserved_7a", 7), ("reserved_2a", 2), ("reserved_2b", 2), ("reserved_1", 1)):
            if rng.random() < 0.5:
                setattr(o, a, rb(rng.choice([k, k, 0, k + 2, k - 1])))
        pairs.append(("t.ip.as " + sobj(o), res(lambda: hx(o.as_ipsc_bytes()))))
        ctx.count("transl:as_ipsc_bytes")
    for n in list(range(0, 12)) + [33, 34, 35]:
        d = rb(n)
        pairs.append(("t.bb.swap " + hx(d), res(lambda: hx(_sw(d)))))
        ctx.count("transl:byteswap_bytes")
    for h in range(-1, 18):
        pairs.append((f"t.bb.half1 {h}", res(lambda: hx(_hb(h)))))
        ctx.count("transl:half_byte_to_bytes")
    ctx.correspond("transl", pairs)


def run(ctx):
    patch_burst()
    del AMBIENT_SAMPLE[:]
    ctx.rule = (
        "72-octet frames assembled from fields by the layout of the property (independent of the library): sequence 0..255, "
        "all 4 packet / 16 slot / 6 frame / 4 call types, both timeslots, colour 0..15 as the repeated nibble word, 24-bit ids "
        "(boundaries favoured) in the upper three octets of their words, random first header / reserved octets / pad octet, "
        "payload = a 33-octet burst that constructs as the indicated kind, built with the library itself (captured bursts, their "
        "parsed content re-encoded with other colour codes and addresses, random rate-1/2, rate-3/4 and rate-1 blocks through "
        "BPTC / trellis, random vocoder frames around voice sync patterns or generated EMBs, arbitrary octets for sync / wake-up); "
        "~20 % leave the range in one respect (undefined type values, colour word with differing nibbles, non-zero low id octet, "
        "second header != 5a5a, payload that does not construct) and, with mutated / truncated / extended frames, only feed the "
        "correspondence. Every frame goes through both decoder paths, the object view, the burst view and the serialiser. "
        "Reserved octets (first header, 3 / 7 / 2 / 2 / 1 reserved, pad) are drawn from a dictionary built from the captured frames' "
        "actual blocks and the class defaults, from single-octet perturbations of those blocks, or at random; res-cross = every "
        "dictionary block of every reserved field x every value of every other field (timeslot, packet / call / slot / frame type, "
        "colour, boundary sequence numbers and ids), res-perturb = every octet of every dictionary block set to boundary values, "
        "neighbours of the original and the octets of the other fields of the same frame (slot number, sequence, colour, type "
        "values, id octets), on both timeslots (quick: default + 3 captured blocks per field; thorough: all blocks x packet types). "
        "Histories (hist:*): for each entry point (from_ipsc_bytes, from_kaitai, Burst.from_hytera_ipsc on bytes / on the parser "
        "object, as_ipsc_bytes) the same octets are decoded repeatedly (same input object and an equal copy), every result is kept, "
        "every public attribute of a kept HyteraIPSC (and timeslot / sequence / ids / payload bits of a kept burst) is assigned "
        "another in-range value, the same octets, single-field neighbours of the frame and unrelated frames are decoded again, objects "
        "are serialised before and after re-stamping; after every step the kept objects must read as decoded / as re-stamped, every "
        "decode must be a new object reading as the 72 octets encode (layout of the property), every serialisation must equal the "
        "layout applied to the object's current attributes; one long history keeps 300 (thorough 1200) distinct frames; all captured "
        "frames are decoded by every entry point at the start and read back at the end of the run. "
        "Relations (rel:*): the frame's OWN fields against the values INSIDE the payload it carries and against each other. Carriers = "
        "payloads built with the library's PDU classes and FEC encoders that embed chosen ids / colour (data headers of every parsable "
        "format, CSBKs of every opcode with address fields incl. the NACK's reversed order and the Hytera sync CSBK, group / unit-to-unit "
        "full LC under header and terminator, check fields recomputed or stale, PI header / rate-1/2 / rate-3/4 / rate-1 blocks with the ids "
        "in the data octets (BE / LE / 10.a.b.c), sync / wake-up payloads with the 00-padded id copy of the captured syncs, the two ids the "
        "other way round, non-zero fill, contiguous and trailer-word copies, voice bursts with EMB colour + the four VBPTC fragments of a "
        "full LC, voice-sync bursts incl. the TDMA patterns); each carrier is read back by the library from its 33 octets alone. Per carrier: "
        "~60 id relations (trailer = payload ids equal / crossed / one off either way / one bit off / octet-reversed / complemented / "
        "truncated / shifted, src = dst = either payload id, one id tied and the other 0 / FFFFFF / random, src = dst, src = dst +- 1, ids "
        "derived from sequence / colour / slot number / type words / 5a5a5a), colour = payload colour / +-1 / complement / one bit off / 0 / 15, "
        "both timeslots x TDMA sync of either slot, sequence = payload counters and octets / colour / id octets; payload kind x four other slot "
        "types; colour word and id-word low octets tied to the payload (out of range: correspondence only); pad tied to payload / sequence / "
        "id; a checksum (library CRC-CCITT with two masks, CRC-32, 5-bit checksum, sums, xor, length) of one part of the frame written into "
        "another part (every function x part x octet order for the two reserved words next to the payload, a sample for the other targets); the "
        "frame's magic / header / trailer copied into the payload and reserved fields; frames serialised by the library from constructed "
        "objects and decoded again. types:* = all pairs slot x frame, slot x packet, frame x packet, call x frame, call x packet (thorough: full "
        "product). hist:conversation = streams (optionally LC header, voice A..E with the fragments of one LC in order, terminator) whose trailer "
        "and payload ids agree, the reply (both swapped), the reply crossed against its payload, frames addressed to their own source, "
        "sequence numbers running on (half wrap 255 -> 0), decoded by one entry point then another with a kept result re-stamped to the reply's "
        "ids in between; neighbours of a history frame include ids swapped / dst := src / src := dst / src + 1. ambient:* = one child "
        "`python -O` per run (root logger DEBUG, sys.stdout raising, random reseeded, the first calls on the classes and calls in between being "
        "failing ones) decoding the captured frames and every ninth in-range relation frame by both decoders, same verdict. "
        "Distinct = distinct frame octets / distinct histories."
    )
    ctx.trusted_base += [
        "tools/py2lean.py + py2lean_arr.py + py2lean_rec.py + extract_transl.py (source translator: Gen/TranslIpsc.lean, Gen/TranslBitsBytes.lean from inspect.getsource of "
        "HyteraIPSC.from_ipsc_bytes / as_ipsc_bytes / __init__, byteswap_bytes, half_byte_to_bytes) and lean/DmrVerif/Model/Py.lean, PyArr.lean, PyRec.lean; validated on every "
        "run by t.ip.* / t.bb.* (run_transl); Props/C13t proves the translated definitions equal to Model/Ipsc.lean",
    ]
    run_transl(ctx)
    ctx.trusted_base += [
        "Lean 4.33 kernel",
        "tools/extract_ipsc.py (calls the five IPSC enumerations on all 2^8 / 2^16 values, is_vocoder and is_wakeup on all members)",
        "hand-written model Model/Ipsc.lean tied to hytera_ipsc.py, bits_bytes.py, Burst.from_hytera_ipsc and the generated Kaitai parser by this run's correspondence",
        "kaitaistruct and the generated parser ip_site_connect_protocol.py in site-packages (their field map is modelled, not verified)",
        "the Burst constructor is opaque here (C01): the harness records the burst type requested from it",
        "histories: the model hands out a new handle per decode by construction (Model/Ipsc.lean Heap / HOp); that the real code does is what the history run checks (object identity, reads after foreign assignments)",
    ]
    ctx.assumptions += [
        "the frame carries each 24-bit id in the upper three octets of a little-endian 32-bit word whose low octet is 0, and the colour code as the word cc*0x1111 (all 46 captured frames do)",
        "warnings raised by the _missing_ hooks of PacketType / FrameType are not errors (default warning filters)",
        "the public attributes of a decoded HyteraIPSC may be assigned by the caller (the class exposes them 'to be possibly changed by implementing party'); a decode or a kept object must not be affected by assignments to another result",
    ]
    rng = ctx.rng
    views, objs, sers, misc = [], [], [], []
    pairs = (views, objs, sers)
    # corpus: the captured frames of the test-suite (every one failed before 0c42cee on the raw path / serialiser)
    for h in CAPTURED:
        frame_case(ctx, fields_of_captured(h), bytes.fromhex(h), pairs, "captured")
    # every captured frame decoded by every entry point and KEPT until the end of the run (read back after all other work)
    long_held = hold_corpus()
    pool = make_pool(rng, 6 if not ctx.thorough() else 40)
    for k, v in pool.items():
        ctx.count(f"pool:{k}", len(v))
    # all type combinations once (both tiers): 16 slot x 4 call x 2 timeslot, packet/frame type cycling
    i = 0
    for sn in SLOT:
        for cn in CALL:
            for tn in TS:
                f = gen_frame(rng, pool, wf_bias=1.0)
                f["st"], f["ct"], f["ts"] = SLOT_VALUES[sn], CALL_VALUES[cn], TS_VALUES[tn]
                f["pt"] = list(PACKET_VALUES.values())[i % 4]
                f["ft"] = list(FRAME_VALUES.values())[i % 6]
                payload, kind = pick_payload(rng, pool, sn, cn.startswith("Wakeup"))
                f["burst"], f["kind"] = payload.hex(), kind
                i += 1
                frame_case(ctx, f, build_frame(f), pairs, "type-sweep")
    # sibling type fields, pairwise complete (both tiers): slot x frame, slot x packet, frame x packet, call x frame, call x packet
    # (thorough: the full product slot x frame x packet x call on alternating timeslots)
    def typed_case(vals, tag):
        f = gen_frame(rng, pool, wf_bias=1.0)
        f.update(vals)
        repick(rng, pool, f)
        ctx.count("types:" + tag)
        frame_case(ctx, f, build_frame(f), pairs, "type-pairs")

    tv = {"st": list(SLOT_VALUES.values()), "ft": list(FRAME_VALUES.values()), "pt": list(PACKET_VALUES.values()), "ct": list(CALL_VALUES.values())}
    for ka, kb in (("st", "ft"), ("st", "pt"), ("ft", "pt"), ("ct", "ft"), ("ct", "pt")):
        for va in tv[ka]:
            for vb in tv[kb]:
                typed_case({ka: va, kb: vb}, f"{ka} x {kb}")
    if ctx.thorough():
        n_t = 0
        for st in tv["st"]:
            for ft in tv["ft"]:
                for pt in tv["pt"]:
                    for ct in tv["ct"]:
                        typed_case({"st": st, "ft": ft, "pt": pt, "ct": ct, "ts": list(TS_VALUES.values())[n_t % 2]}, "st x ft x pt x ct")
                        n_t += 1
    # every sequence number, colour code, and id boundaries
    for s in range(256):
        f = gen_frame(rng, pool, wf_bias=1.0)
        f["seq"] = s
        f["cc"] = s % 16
        f["ccword"] = bytes([f["cc"] * 17] * 2).hex()
        f["dst"] = [0, 1, 255, 256, 65535, 65536, 0xFFFFFF, 0x800000][s % 8]
        f["src"] = (s * 65793) & 0xFFFFFF
        f["dstword"], f["srcword"] = idword(f["dst"]), idword(f["src"])
        frame_case(ctx, f, build_frame(f), pairs, "value-sweep")
    # reserved blocks of the captured frames x the other fields, single-octet perturbations (fixed share of the budget)
    reserved_sweep(ctx, rng, pool, pairs)
    # the frame's own fields against the values inside the payload it carries, and against each other (fixed share of the budget)
    relation_sweep(ctx, rng, pool, pairs)
    ambient_child(ctx, list(AMBIENT_SAMPLE))
    # histories: every entry point, results kept / re-stamped / decoded again / serialised
    hist_lines = []
    history_probe(ctx, rng, pool, hist_lines)
    n = ctx.budget(2000, 100000)
    for _ in range(n):
        f = gen_frame(rng, pool)
        frame = build_frame(f)
        frame_case(ctx, f, frame, pairs, "random")
        if rng.random() < 0.15:
            frame_case(ctx, None, mutate(rng, frame), pairs, "mutated")
    # byteswap_bytes on every length 0..70 (odd lengths included), half_byte_to_bytes, build from fields with default reserved octets
    from okdmr.dmrlib.utils.bits_bytes import byteswap_bytes, half_byte_to_bytes

    kept_misc = []  # results of the two helpers, read again at the end
    for ln in list(range(0, 71)) * (1 if not ctx.thorough() else 10):
        d = bytes(rng.randrange(256) for _ in range(ln))
        r = call(byteswap_bytes, d)
        misc.append((f"ipsc.swap {hx(d)}", r if is_err(r) else hx(r)))
        if not is_err(r):
            kept_misc.append(("byteswap_bytes", d.hex(), r, hx(r)))
        ctx.case(("swap", d.hex()))
        if not is_err(r):
            r2 = call(byteswap_bytes, r)
            if r2 != d:
                ctx.fail("byteswap-involution", {"data": d.hex()}, "byteswap_bytes applied twice does not give the input back", expected=d.hex(), actual=r2 if is_err(r2) else r2.hex())
    for h in list(range(0, 40)) + [255, 256, 4095]:
        for k in (0, 1, 2, 3):
            r = call(half_byte_to_bytes, h, k)
            misc.append((f"ipsc.half {h} {k}", r if is_err(r) else hx(r)))
            if not is_err(r):
                kept_misc.append(("half_byte_to_bytes", f"{h} {k}", r, hx(r)))
    _, H, _ = L()
    from okdmr.dmrlib.hytera.ipsc_elements.call_type import CallType
    from okdmr.dmrlib.hytera.ipsc_elements.frame_type import FrameType
    from okdmr.dmrlib.hytera.ipsc_elements.packet_type import PacketType
    from okdmr.dmrlib.hytera.ipsc_elements.slot_type import SlotType
    from okdmr.dmrlib.hytera.ipsc_elements.timeslot import Timeslot

    for _ in range(ctx.budget(300, 5000)):
        ct, st, ft, pt, ts = rng.randrange(4), rng.randrange(16), rng.randrange(6), rng.randrange(4), rng.randrange(2)
        seq = rng.choice([0, 255, 256, rng.randrange(256)])
        cc = rng.choice([0, 15, 16, 17, 255, rng.randrange(16)])
        dst = rng.choice([0, 0xFFFFFF, 0x1000000, rand_id(rng)])
        src = rng.choice([0, 0xFFFFFF, 0x1000000, rand_id(rng)])
        payload = bytes(rng.randrange(256) for _ in range(rng.choice([33, 33, 33, 32, 34, 0, 1])))
        pad = bytes(rng.randrange(256) for _ in range(rng.choice([1, 1, 1, 0, 2])))

        def mk():
            o = H(call_type=getattr(CallType, CALL[ct]), frame_type=getattr(FrameType, FRAME[ft]), packet_type=getattr(PacketType, PACKET[pt]),
                  slot_type=getattr(SlotType, SLOT[st]), timeslot=getattr(Timeslot, TS[ts]), sequence_number=seq, color_code=cc,
                  destination_radio_id=dst, source_radio_id=src, payload=payload)
            o.payload_pad = pad
            return o.as_ipsc_bytes()

        r = call(mk)
        misc.append((f"ipsc.build {ct} {st} {ft} {pt} {ts} {seq} {cc} {dst} {src} {hx(payload)} {hx(pad)}", r if is_err(r) else hx(r)))
        ctx.case(("build", ct, st, ft, pt, ts, seq, cc, dst, src, payload.hex(), pad.hex()))
    # objects kept over the whole run
    for fn, arg, r, first in kept_misc:
        if hx(r) != first:
            ctx.fail("held-result-changed", {"helper": fn, "argument": arg}, f"the octets returned by {fn} changed while the caller kept them", expected=first, actual=hx(r))
            break
    check_corpus_held(ctx, long_held)
    import histories

    histories.run(ctx, ENTRY_POINTS)
    if not ctx.search_only and ctx.driver_ok:
        ctx.correspond("histories (objects kept, re-stamped, decoded again, serialised)", hist_lines)
        ctx.correspond("Burst.from_hytera_ipsc (both paths)", views)
        ctx.correspond("HyteraIPSC.from_ipsc_bytes / from_kaitai", objs)
        ctx.correspond("HyteraIPSC.as_ipsc_bytes of decoded frames", sers)
        ctx.correspond("byteswap / half_byte / as_ipsc_bytes from fields", misc)


def replay(obj):
    patch_burst()
    fl = obj.get("failure") or {}
    inp = fl.get("input") or {}
    print(json.dumps(obj.get("type")), fl.get("what"))
    if str(fl.get("kind", "")).startswith("history:"):
        import histories

        return histories.replay(inp, ENTRY_POINTS)
    if "data" in inp:
        from okdmr.dmrlib.utils.bits_bytes import byteswap_bytes

        d = bytes.fromhex(inp["data"])
        r = call(lambda: byteswap_bytes(byteswap_bytes(d)))
        print("implementation: byteswap_bytes(byteswap_bytes(", d.hex(), ")) =", r if is_err(r) else r.hex())
        return 0 if r == d else 1
    if "history" in inp:
        frames = [bytes.fromhex(h) for h in inp["frames"]]
        lines, bad, _ = run_history(frames, inp["in_range"], inp["history"])
        print("history of", len(inp["history"]), "steps over", len(frames), "frames; model lines / implementation answers:")
        for line, out in lines[-12:]:
            print("  ", line[:100], "->", out[:160])
        if bad:
            b = bad[0]
            print("STILL FAILS at step", b["at"], inp["history"][b["at"]] if b["at"] < len(inp["history"]) else "(end)", ":", b["kind"], b["what"])
            print("  expected:", b["expected"])
            print("  actual:  ", b["actual"])
            return 1
        print("property holds on this history now")
        return 0
    if inp.get("held_over_run"):
        # the object was kept over the whole run: re-run the reduced form (all captured frames by all entry points, kept, read back)
        class _C:  # minimal stand-in for the context
            def __init__(self):
                self.failures, self.hist = [], {}

            def fail(self, kind, input, what, expected=None, actual=None):
                self.failures.append((kind, what, expected, actual))

            def count(self, k, n=1):
                pass

        c = _C()
        kept = hold_corpus()
        for h in CAPTURED:
            for path in ("raw", "kaitai"):
                view(path, bytes.fromhex(h)), obj(path, bytes.fromhex(h)), ser(path, bytes.fromhex(h))
        check_corpus_held(c, kept)
        if c.failures:
            print("STILL FAILS:", *c.failures[0])
            return 1
        print("objects kept over a reduced run (captured frames only) read as they did; the full run is needed to reproduce")
        return 0
    if "helper" in inp or "frame" not in inp:
        print("nothing to replay")
        return 0
    frame = bytes.fromhex(inp["frame"])
    for path in ("raw", "kaitai"):
        line, _, _ = view(path, frame)
        print(f"implementation [{path}]: burst view =", line)
        print(f"implementation [{path}]: as_ipsc_bytes =", ser(path, frame))
    print("model lines: ipsc.raw / ipsc.kai / ipsc.ser.raw / ipsc.ser.kai", inp["frame"])
    f = inp.get("fields")
    if f and in_range(f):
        r = oracle(f, frame)
        if r:
            print("STILL FAILS:", r[0], r[1], "expected:", r[2], "actual:", r[3])
            return 1
        print("property holds on this input now")
    return 0
