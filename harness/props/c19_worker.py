#!/venv/bin/python
"""
C19 worker: executes codec entry points of /repo's working tree in *fresh interpreter states*.

  c19_worker.py --server      fork server: imports the library once (no library call is made in the server
                              itself), then answers JSON-line requests on stdin; every request is executed in a
                              forked child, so every child starts from the pristine just-imported state
  c19_worker.py --one SPEC    one call in a brand-new interpreter (validates the fork server)

requests      {"op":"first","specs":[spec,…]}   each spec in its own child ("called first")
              {"op":"seq","calls":[spec,…]}      all calls in ONE child, in order (a history) + state probe
              {"op":"probe"}                      state probe of the pristine state
              {"op":"graph-list"} / {"op":"graph","targets":[…]}   construction aliasing probe (c19_graph.py): every class of the
                                                  library built twice, every mutable node of the object edited in place
              {"op":"quit"}
spec          {"ep": name, "a": [encoded argument,…]}     (+ "m": 1 - afterwards the caller overwrites the buffers it got back)
              encoded arguments: see dec(); ["h", slot, enc] is a buffer the caller keeps and re-uses within a history
result/call   [canonical result, [indices of arguments whose buffers changed], note]
              a "seq" request with "hold": true also re-examines every returned object after the last call ("held_changed")

Environment C19_AMBIENT=k (see AMBIENT): time / datetime / random / secrets / uuid / os.urandom are replaced by a
deterministic setting *before* the library is imported - wall clocks in different centuries / years / months (1970, 1999-12-31
23:59:59, 2001, a leap day, 2026-12-31 23:59:59, 2030, 2100-02-28, 2101), so that a value the library derives from the clock
when it is IMPORTED (a class attribute, a default argument, a module constant) differs between the settings just like one it
derives while parsing.  k = 20: no clock change, root logger at DEBUG with a collecting handler.
"""
import hashlib
import json
import os
import re
import signal
import sys

# ------------------------------------------------------------------------------------------------
# ambient patching (must run before the library is imported)
# k -> (what the clock shows when the interpreter starts (UTC), seconds per reading of the clock)
AMBIENT = {
    1: ((2001, 9, 9, 1, 46, 40), 7),
    2: ((2030, 3, 17, 17, 46, 40), 13),
    3: ((1999, 12, 31, 23, 59, 59), 0.01),  # last second of a year, a decade, a century: the hundredth reading is in 2000
    4: ((2101, 6, 15, 12, 0, 0), 11),       # another century
    5: ((2024, 2, 29, 23, 59, 50), 0.05),   # a leap day, March after two hundred readings
    6: ((2026, 12, 31, 23, 59, 59), 3600),  # Dec 31 23:59:59
    7: ((1970, 1, 1, 0, 0, 1), 17),         # a real-time clock that was never set
    8: ((2100, 2, 28, 23, 59, 59), 0.02),   # 2100 is not a leap year: the next day is March 1st
}
AMBIENT_LOGGING = 20


def ambient_description(k):
    if k == AMBIENT_LOGGING:
        return "root logger at DEBUG with a collecting handler (no clock change)"
    (y, mo, d, h, mi, s), step = AMBIENT[k]
    return f"clock starts at {y:04d}-{mo:02d}-{d:02d} {h:02d}:{mi:02d}:{s:02d} UTC (+{step}s per reading), random / secrets / uuid / os.urandom setting #{k}"


def patch_logging():
    import logging

    class Collect(logging.Handler):
        def __init__(self):
            super().__init__(logging.DEBUG)
            self.n = 0

        def emit(self, record):
            self.n += 1
            record.getMessage()  # the arguments are formatted, as a real handler would

    root = logging.getLogger()
    root.handlers[:] = [Collect()]
    root.setLevel(logging.DEBUG)


def patch_ambient(k: int):
    import calendar
    import datetime as _dt
    import random as _random
    import secrets as _secrets
    import time as _time
    import uuid as _uuid

    if k == AMBIENT_LOGGING:
        return patch_logging()
    start, step = AMBIENT[k]
    base = calendar.timegm(start + (0, 0, 0))
    cnt = [0]

    def tickf():
        cnt[0] += 1
        return base + (cnt[0] - 1) * step

    def tick():
        return int(tickf())

    real_gmtime, real_localtime, real_strftime, real_ctime, real_asctime = _time.gmtime, _time.localtime, _time.strftime, _time.ctime, _time.asctime
    _time.time = lambda: float(tickf())
    _time.time_ns = lambda: tick() * 10**9
    _time.monotonic = lambda: float(tick())
    _time.monotonic_ns = lambda: tick() * 10**9
    _time.perf_counter = lambda: float(tick())
    _time.perf_counter_ns = lambda: tick() * 10**9
    _time.process_time = lambda: float(tick())
    _time.process_time_ns = lambda: tick() * 10**9
    _time.thread_time = lambda: float(tick())
    if hasattr(_time, "clock_gettime"):
        _time.clock_gettime = lambda clk: float(tick())
        _time.clock_gettime_ns = lambda clk: tick() * 10**9
    # without an argument these read the clock
    _time.gmtime = lambda secs=None: real_gmtime(tick() if secs is None else secs)
    _time.localtime = lambda secs=None: real_localtime(tick() if secs is None else secs)
    _time.strftime = lambda fmt, t=None: real_strftime(fmt, real_localtime(tick()) if t is None else t)
    _time.ctime = lambda secs=None: real_ctime(tick() if secs is None else secs)
    _time.asctime = lambda t=None: real_asctime(real_localtime(tick()) if t is None else t)

    real_dt, real_date = _dt.datetime, _dt.date

    class FakeDate(real_date):
        @classmethod
        def today(cls):
            t = real_gmtime(tick())
            return cls(t.tm_year, t.tm_mon, t.tm_mday)

    class FakeDateTime(real_dt):
        @classmethod
        def now(cls, tz=None):
            t = real_gmtime(tick())
            v = cls(t.tm_year, t.tm_mon, t.tm_mday, t.tm_hour, t.tm_min, t.tm_sec)
            return v if tz is None else v.replace(tzinfo=_dt.timezone.utc).astimezone(tz)

        @classmethod
        def utcnow(cls):
            t = real_gmtime(tick())
            return cls(t.tm_year, t.tm_mon, t.tm_mday, t.tm_hour, t.tm_min, t.tm_sec)

        @classmethod
        def today(cls):
            return cls.now()

    _dt.date = FakeDate
    _dt.datetime = FakeDateTime
    _random.seed(12345 if k == 1 else 98765 + k)
    _secrets.token_bytes = lambda n=32: bytes([(17 * k + i) & 0xFF for i in range(n)])
    _secrets.token_hex = lambda n=32: _secrets.token_bytes(n).hex()
    _secrets.randbits = lambda n: (0x5A5A5A5A5A5A5A5A * k) & ((1 << n) - 1)
    _uuid.uuid4 = lambda: _uuid.UUID(int=(0x1234567890ABCDEF1234567890ABCDEF * k) % (1 << 128))
    os.urandom = lambda n: bytes([(31 * k + 3 * i) & 0xFF for i in range(n)])


# ------------------------------------------------------------------------------------------------
# argument encoding
def dec(e):
    from bitarray import bitarray

    t = e[0]
    if t == "b":
        return bitarray(e[1], endian="big")
    if t == "bl":
        return bitarray(e[1], endian="little")
    if t == "x":
        return bytes.fromhex(e[1])
    if t == "xa":
        return bytearray.fromhex(e[1])
    if t in ("i", "s", "B", "f"):
        return e[1]
    if t == "n":
        return None
    if t == "np":
        import numpy

        return numpy.array(e[1])
    if t == "l":
        return [dec(x) for x in e[1]]
    if t == "d":
        return {_hashable(dec(k)): dec(v) for k, v in e[1]}
    # ---- variants that compare equal to one of the above but are another value / type for the callee
    if t in ("fb", "fbl"):
        from bitarray import frozenbitarray

        return frozenbitarray(e[1], endian="little" if t == "fbl" else "big")
    if t == "mv":
        return memoryview(bytes.fromhex(e[1]))
    if t == "mva":
        return memoryview(bytearray.fromhex(e[1]))
    if t == "npd":
        import numpy

        return numpy.array(e[2], dtype=e[1])
    if t == "npi":
        import numpy

        return numpy.int64(e[1])
    if t == "h":
        return held(e[1], e[2])
    # ---- other FORMS of the same data that the callee's own conversions may accept (c19.arg_forms)
    if t == "k":
        return kept(e[1], e[2])
    if t == "r":
        # the very object an earlier call of this history returned (["r", index of the call, None | element index, value it should have])
        o = _RESULTS[e[1]]
        return o if e[2] is None else o[e[2]]
    if t == "t":
        return tuple(dec(x) for x in e[1])
    if t == "lb":
        return [bool(x) for x in e[1]]
    if t in ("bz", "blz"):
        # a bitarray that does not fill its last octet, the pad bits of its buffer zeroed (what the buffer protocol shows
        # of them is otherwise unspecified): built on whole octets, then shortened
        s = e[1]
        b = bitarray(s + "0" * (-len(s) % 8), endian="little" if t == "blz" else "big")
        del b[len(s):]
        return b
    if t == "npro":
        import numpy

        a = numpy.array(e[2], dtype=e[1])
        a.setflags(write=False)
        return a
    if t == "npfb":
        import numpy

        return numpy.frombuffer(bytes.fromhex(e[1]), dtype=numpy.uint8)  # read-only: the buffer is a bytes object
    if t == "npfa":
        import numpy

        return numpy.frombuffer(bytearray.fromhex(e[1]), dtype=numpy.uint8)  # writable view of a bytearray
    if t == "npv":
        import numpy

        return numpy.array([y for x in e[2] for y in (x, 1 - x if x in (0, 1) else x)], dtype=e[1])[::2]  # non-contiguous view
    if t == "arr":
        import array

        return array.array(e[1], e[2])
    if t == "bsub":
        return _BytesSub(bytes.fromhex(e[1]))
    raise ValueError(f"bad encoded argument {e!r}")


class _BytesSub(bytes):
    """a bytes subclass (what e.g. a socket wrapper or a dissector hands over)"""


# objects the CALLER keeps between calls of one history and hands over again AS THEY ARE (["k", slot, enc]): created on the
# first use from `enc`, never rewritten by the caller - if a callee alters one, the next call gets the altered object
_KEPT = {}
# what the calls of the running history returned, in order (for ["r", i, …] arguments)
_RESULTS = []


def kept(slot, enc):
    if slot not in _KEPT:
        _KEPT[slot] = dec(enc)
    return _KEPT[slot]


# buffers the CALLER keeps and re-uses between calls of one history: ["h", slot, enc] hands the callee the very same
# object every time, its content overwritten in place (by the caller, before the call) with what `enc` says
_HELD = {}


def held(slot, enc):
    new = dec(enc)
    old = _HELD.get(slot)
    tn = type(new).__name__
    if old is None or type(old) is not type(new):
        _HELD[slot] = new
        return new
    try:
        if tn == "bitarray":
            if _endian(old) != _endian(new):
                raise TypeError
            old.clear()
            old.extend(new)
        elif tn in ("bytearray", "list"):
            old[:] = new
        elif tn == "dict":
            old.clear()
            old.update(new)
        elif tn == "ndarray":
            if old.shape != new.shape or old.dtype != new.dtype:
                raise TypeError
            old[...] = new
        else:
            raise TypeError
    except TypeError:
        _HELD[slot] = new
        return new
    return old


def _endian(b):
    e = b.endian
    return e() if callable(e) else e


def _hashable(x):
    return x


# ------------------------------------------------------------------------------------------------
# canonical form of any result (no reprs, no ids, no dict order, no timestamps)
SKIP_FIELDS = {"log", "_log", "logger", "_logger"}
_default_gps = [None]
_MV_ADDR = re.compile(r"\bmemory at 0x[0-9a-fA-F]+")


def canon(o, depth=0, path=None):
    import datetime as _dt
    import enum

    if o is None:
        return "None"
    if isinstance(o, bool):
        return "True" if o else "False"
    if isinstance(o, enum.Enum):
        return f"{type(o).__name__}.{o.name}"
    if isinstance(o, int):
        return str(o)
    if isinstance(o, float):
        return "f" + repr(o)
    if isinstance(o, str):
        if "memory at 0x" in o:
            # text the library made of a memoryview ARGUMENT (a variant of a bytes argument, see c19.arg_variants): the
            # address is the identity of the caller's own object, not library state
            o = _MV_ADDR.sub("memory at 0x?", o)
        return json.dumps(o)
    if isinstance(o, bytes):
        return "x'" + o.hex() + "'"
    if isinstance(o, bytearray):
        return "xa'" + bytes(o).hex() + "'"
    if isinstance(o, memoryview):
        return ("mv'" if o.readonly else "mva'") + bytes(o).hex() + "'"
    tn = type(o).__name__
    mod = type(o).__module__ or ""
    if tn == "bitarray" or tn == "frozenbitarray":
        return f"b{o.endian()[0] if callable(getattr(o, 'endian', None)) else o.endian[0]}'{o.to01()}'"
    if mod.startswith("numpy"):
        import numpy

        if isinstance(o, numpy.ndarray):
            return "np" + json.dumps(o.tolist())
        if isinstance(o, numpy.generic):
            return canon(o.item(), depth)
    if tn == "array" and mod == "array":
        return f"arr{o.typecode}" + json.dumps(o.tolist())
    if isinstance(o, (_dt.datetime, _dt.date, _dt.time)):
        return "t'" + o.isoformat() + "'"
    if depth > 9:
        return f"<deep {tn}>"
    if isinstance(o, (list, tuple)):
        return ("[" if isinstance(o, list) else "(") + ",".join(canon(x, depth + 1, path) for x in o) + ("]" if isinstance(o, list) else ")")
    if isinstance(o, (set, frozenset)):
        return "{" + ",".join(sorted(canon(x, depth + 1, path) for x in o)) + "}"
    if isinstance(o, dict):
        items = sorted((canon(k, depth + 1, path), canon(v, depth + 1, path)) for k, v in o.items())
        return "{" + ",".join(f"{k}:{v}" for k, v in items) + "}"
    if mod.startswith("okdmr.kaitai") or mod.startswith("kaitaistruct"):
        return f"<kaitai {tn}>"
    if isinstance(o, BaseException):
        return "ERR " + tn
    if isinstance(o, type):
        return f"<class {o.__name__}>"
    if callable(o) and not hasattr(o, "__dict__"):
        return f"<callable {tn}>"
    d = getattr(o, "__dict__", None)
    if d is None:
        slots = getattr(type(o), "__slots__", None)
        if slots:
            d = {s: getattr(o, s, None) for s in slots}
        else:
            return f"<{tn}>"
    path = path or ()
    if id(o) in path:
        return f"<cycle {tn}>"
    path = path + (id(o),)
    fields = []
    for k in sorted(d):
        if k in SKIP_FIELDS:
            continue
        v = d[k]
        if tn == "GPSData" and k == "greenwich_date" and o is _default_gps[0]:
            # the default-argument GPSData.zero() reads date.today() when the module is imported
            fields.append(f"{k}=<import-date>")
            continue
        if tn in ("BitCrcRegister", "TableBasedBitCrcRegister") and k == "_register":
            # CRC registers are scratch state: calculate_checksum re-initialises them (unconstrained in the model)
            continue
        fields.append(f"{k}={canon(v, depth + 1, path)}")
    return tn + "{" + ",".join(fields) + "}"


def is_raw_buffer(x):
    """a bit / byte / number buffer itself (not an object or container that holds one)"""
    return isinstance(x, (bytearray, memoryview)) or type(x).__name__ in ("bitarray", "ndarray", "array")


def squash(s: str, limit=400) -> str:
    if len(s) <= limit:
        return s
    return s[:160] + f"…[{len(s)} chars sha256:{hashlib.sha256(s.encode()).hexdigest()[:20]}]"


def is_buffer(x):
    tn = type(x).__name__
    return isinstance(x, (bytearray, list, dict, set)) or tn in ("bitarray", "ndarray", "array") or (isinstance(x, memoryview) and not x.readonly)


# ------------------------------------------------------------------------------------------------
# entry points found by INTROSPECTION (round 4): every class of the etsi layer2 / layer3 element packages and every Enum of
# the codec packages (enum members are process-wide singletons: whatever a member keeps is shared by all later calls), plus
# every other class with as_bits / from_bits / as_bytes / from_bytes that the hand-written catalogue below does not name.
#   auto.<module>.<Class>.<method>       member method / property without required arguments, argument = member index
#   auto.<module>.<Class>.<method>       static / class method with ONE required argument (a bit / octet buffer or an int):
#                                        [result] + what the result's own as_* / to_* / get_* / is_* methods and repr return
AUTO_PKGS = ("etsi", "hytera", "motorola", "utils")
ELEMENT_PKGS = ("okdmr.dmrlib.etsi.layer2.elements.", "okdmr.dmrlib.etsi.layer3.elements.")
CODEC_METHODS = ("as_bits", "from_bits", "as_bytes", "from_bytes")
# classes the hand-written catalogue covers (their from_* / as_* entry points with captured packets)
HAND_CATALOGUED = {
    "Burst", "CSBK", "DataHeader", "EmbeddedSignalling", "FullLinkControl", "PIHeader", "Rate12Data", "Rate1Data", "Rate34Data",
    "ShortLinkControl", "SlotType", "UDPIPv4CompressedHeader", "HDAP", "HRNP", "HSTRP", "HSTRPPacketType", "HSTRPOptions", "GPSData",
    "LocationProtocol", "RadioControlProtocol", "RadioIP", "RadioRegistrationService", "TextMessageProtocol",
    "AutomaticRegistrationService", "MBXML", "TextMessagingService", "BitsInterface", "BytesInterface",
}
_AUTO = None


def _arg_kind(p):
    """(what a one-argument static method wants: 'bits' | 'bytes' | 'int', does its annotation say so)"""
    ann = p.annotation
    ann = ann if isinstance(ann, str) else getattr(ann, "__name__", str(ann))
    low = (ann or "").lower()
    if "bitarray" in low:
        return "bits", True
    if "bytes" in low or "bytearray" in low:
        return "bytes", True
    if low in ("int", "optional[int]"):
        return "int", True
    n = p.name.lower()
    if "bit" in n:
        return "bits", False
    if n in ("data", "value", "payload", "raw", "buffer", "buf") or "byte" in n:
        return "bytes", False
    return "bits", False


def _observe(o):
    """a parsed object, and everything its own serialisers hand out (each a fresh call)"""
    import enum

    r = [o]
    if o is None or isinstance(o, (bool, int, float, str, bytes)):
        return r
    names = sorted({n for k in type(o).__mro__ if (k.__module__ or "").startswith("okdmr.") for n in vars(k)
                    if n.startswith(("as_", "to_", "get_", "is_")) and not n.startswith("_")})
    import inspect

    for n in names:
        f = getattr(o, n, None)
        if not callable(f):
            continue
        try:
            ps = [p for p in inspect.signature(f).parameters.values() if p.default is p.empty and p.kind in (p.POSITIONAL_ONLY, p.POSITIONAL_OR_KEYWORD)]
        except (TypeError, ValueError):
            continue
        if ps:
            continue
        try:
            r.append(f())
        except NotImplementedError:
            pass
        except Exception as e:  # noqa
            r.append("ERR " + type(e).__name__)
    if not isinstance(o, enum.Enum):
        r.append(repr(o) if type(o).__repr__ is not object.__repr__ else None)
    return r


def auto_entries():
    """{name: (callable, meta)} in a deterministic order; introspection only, no library call is made here"""
    global _AUTO
    if _AUTO is not None:
        return _AUTO
    import enum
    import importlib
    import inspect
    import pkgutil

    import okdmr.dmrlib as root

    out = {}
    skipped = []
    for mi in sorted(pkgutil.walk_packages(root.__path__, "okdmr.dmrlib."), key=lambda m: m.name):
        parts = mi.name.split(".")
        if len(parts) < 3 or parts[2] not in AUTO_PKGS or "tests" in parts:
            continue
        try:
            mod = importlib.import_module(mi.name)
        except BaseException as e:  # noqa
            if isinstance(e, (KeyboardInterrupt, SystemExit)):
                raise
            skipped.append(mi.name)
            continue
        in_elements = (mi.name + ".").startswith(ELEMENT_PKGS)
        for cname, cls in sorted(vars(mod).items()):
            if not (isinstance(cls, type) and cls.__module__ == mod.__name__):
                continue
            is_enum = issubclass(cls, enum.Enum)
            has_codec = any(callable(getattr(cls, m, None)) for m in CODEC_METHODS)
            if cname in ("BitsInterface", "BytesInterface") or not (is_enum or in_elements or (has_codec and cname not in HAND_CATALOGUED)):
                continue
            base = f"auto.{parts[-1]}.{cname}"
            members = list(cls) if is_enum else []
            names = sorted({n for k in cls.__mro__ if (k.__module__ or "").startswith("okdmr.") for n in vars(k) if not n.startswith("_")})
            for n in names:
                raw = inspect.getattr_static(cls, n, None)
                if isinstance(raw, property):
                    if members:
                        out[f"{base}.{n}"] = ((lambda ms, n: lambda i: getattr(ms[i % len(ms)], n))(members, n),
                                              {"kind": "member", "n": len(members), "cls": cname, "enum": True, "elements": in_elements, "method": n})
                    continue
                fn = getattr(cls, n, None)
                if fn is None or isinstance(fn, (type, enum.Enum)) or not callable(fn) or n.startswith("set_"):
                    continue
                static = isinstance(raw, (staticmethod, classmethod))
                try:
                    params = list(inspect.signature(fn).parameters.values())
                except (TypeError, ValueError):
                    continue
                if not static:
                    params = params[1:]
                req = [p for p in params if p.default is p.empty and p.kind in (p.POSITIONAL_ONLY, p.POSITIONAL_OR_KEYWORD)]
                if static and len(req) == 1:
                    out[f"{base}.{n}"] = ((lambda cls, n: lambda x: _observe(getattr(cls, n)(x)))(cls, n),
                                          {"kind": "static", "n": len(members), "cls": cname, "enum": is_enum, "elements": in_elements, "method": n, "arg": _arg_kind(req[0])[0], "arg_explicit": _arg_kind(req[0])[1]})
                elif not static and not req and members:
                    out[f"{base}.{n}"] = ((lambda ms, n: lambda i: getattr(ms[i % len(ms)], n)())(members, n),
                                          {"kind": "member", "n": len(members), "cls": cname, "enum": True, "elements": in_elements, "method": n})
    _AUTO = out
    _AUTO_SKIPPED[:] = skipped
    return out


_AUTO_SKIPPED = []
_AUTO_ERROR = []


def auto_inventory():
    """what the main process needs to generate arguments (run in a forked child: it calls the member serialisers to learn the
    widths the parsers expect, and tries every one-argument static method on a few buffers to see what it takes)"""
    import inspect

    from bitarray import bitarray

    inv = []
    impl()
    if _AUTO_ERROR:
        return {"entries": [], "skipped_modules": list(_AUTO_SKIPPED), "error": _AUTO_ERROR[0]}
    ents = auto_entries()
    widths, ser = {}, {}
    for name, (fn, meta) in ents.items():
        if meta["kind"] == "member" and meta["method"] in ("as_bits", "as_bytes"):
            kind = "bits" if meta["method"] == "as_bits" else "bytes"
            vals = []
            for i in range(meta["n"]):
                try:
                    v = fn(i)
                    len(v)
                    vals.append(v)
                except BaseException:  # noqa
                    pass
            widths[(meta["cls"], kind)] = sorted({len(v) for v in vals})
            ser[(meta["cls"], kind)] = vals

    def samples(cls, kind):
        out = list(ser.get((cls, kind), []))[:40]
        if kind == "bits":
            for w in widths.get((cls, kind), []) + [8, 48, 16, 1, 4, 96, 264]:
                out += [bitarray("0" * w), bitarray("1" * w), bitarray(("10" * w)[:w]), bitarray(("01" * w)[:w])]
        elif kind == "bytes":
            for w in widths.get((cls, kind), []) + [1, 6, 2, 4, 12, 38, 72]:
                out += [bytes(w), bytes(range(1, w + 1)), b"\xff" * w, b"\x80" * w, b"\x10" * w]
        else:
            out += [0, 1, 2, 255]
        return out

    for name, (fn, meta) in ents.items():
        m = dict(meta, ep=name)
        if meta["kind"] == "static":
            # smoke test: does the method take a buffer (of which kind, which width) or an int at all?  One that raises on every
            # sample wants something else (an enum member, a parsed packet): no codec entry point for a buffer
            explicit = meta.get("arg_explicit", False)
            kinds = [meta["arg"]] + ([] if explicit else [k for k in ("bits", "bytes", "int") if k != meta["arg"]])
            ok = None
            for kind in kinds:
                for v in samples(meta["cls"], kind):
                    try:
                        fn(v)
                        ok = (kind, len(v) if kind != "int" else 0)
                        break
                    except BaseException:  # noqa
                        continue
                if ok:
                    break
            m["callable"] = ok is not None
            if ok:
                m["arg"] = ok[0]
                m["widths"] = widths.get((meta["cls"], ok[0]), []) or ([ok[1]] if ok[0] != "int" else [])
        inv.append(m)
    return {"entries": inv, "skipped_modules": list(_AUTO_SKIPPED)}


# ------------------------------------------------------------------------------------------------
# the entry points (name -> callable); built lazily, after a possible ambient patch
_IMPL = None
_PERSIST = {}


def impl():
    global _IMPL
    if _IMPL is not None:
        return _IMPL
    from bitarray import bitarray
    from bitarray.util import ba2int, int2ba

    from okdmr.dmrlib.etsi.crc.crc import BitCrcCalculator, BitCrcConfiguration, Crc7, Crc8, Crc9, Crc16, Crc32
    from okdmr.dmrlib.etsi.crc.crc8 import CRC8
    from okdmr.dmrlib.etsi.crc.crc9 import CRC9
    from okdmr.dmrlib.etsi.crc.crc16 import CRC16
    from okdmr.dmrlib.etsi.crc.crc32 import CRC32
    from okdmr.dmrlib.etsi.fec.bptc_196_96 import BPTC19696
    from okdmr.dmrlib.etsi.fec.five_bit_checksum import FiveBitChecksum
    from okdmr.dmrlib.etsi.fec.golay_20_8_7 import Golay2087
    from okdmr.dmrlib.etsi.fec.hamming_7_4_3 import Hamming743
    from okdmr.dmrlib.etsi.fec.hamming_13_9_3 import Hamming1393
    from okdmr.dmrlib.etsi.fec.hamming_15_11_3 import Hamming15113
    from okdmr.dmrlib.etsi.fec.hamming_16_11_4 import Hamming16114
    from okdmr.dmrlib.etsi.fec.hamming_17_12_3 import Hamming17123
    from okdmr.dmrlib.etsi.fec.quadratic_residue_16_7_6 import QuadraticResidue1676
    from okdmr.dmrlib.etsi.fec.reed_solomon_12_9_4 import ReedSolomon1294
    from okdmr.dmrlib.etsi.fec.trellis import Trellis34
    from okdmr.dmrlib.etsi.fec.vbptc_32_11 import VBPTC3211
    from okdmr.dmrlib.etsi.fec.vbptc_68_28 import VBPTC6828
    from okdmr.dmrlib.etsi.fec.vbptc_128_72 import VBPTC12873
    from okdmr.dmrlib.etsi.layer2.burst import Burst
    from okdmr.dmrlib.etsi.layer2.elements.burst_types import BurstTypes
    from okdmr.dmrlib.etsi.layer2.elements.crc_masks import CrcMasks
    from okdmr.dmrlib.etsi.layer2.elements.csbk_opcodes import CsbkOpcodes
    from okdmr.dmrlib.etsi.layer2.elements.data_packet_formats import DataPacketFormats
    from okdmr.dmrlib.etsi.layer2.elements.data_types import DataTypes
    from okdmr.dmrlib.etsi.layer2.elements.feature_set_ids import FeatureSetIDs
    from okdmr.dmrlib.etsi.layer2.pdu.csbk import CSBK
    from okdmr.dmrlib.etsi.layer2.pdu.data_header import DataHeader
    from okdmr.dmrlib.etsi.layer2.pdu.embedded_signalling import EmbeddedSignalling
    from okdmr.dmrlib.etsi.layer2.pdu.full_link_control import FullLinkControl
    from okdmr.dmrlib.etsi.layer2.pdu.pi_header import PIHeader
    from okdmr.dmrlib.etsi.layer2.pdu.rate1_data import Rate1Data, Rate1DataTypes
    from okdmr.dmrlib.etsi.layer2.pdu.rate12_data import Rate12Data, Rate12DataTypes
    from okdmr.dmrlib.etsi.layer2.pdu.rate34_data import Rate34Data, Rate34DataTypes
    from okdmr.dmrlib.etsi.layer2.pdu.short_link_control import ShortLinkControl
    from okdmr.dmrlib.etsi.layer2.pdu.slot_type import SlotType
    from okdmr.dmrlib.etsi.layer3.elements.service_options import ServiceOptions
    from okdmr.dmrlib.etsi.layer3.pdu.udp_ipv4_compressed_header import UDPIPv4CompressedHeader
    from okdmr.dmrlib.hytera.hytera_ipsc import HyteraIPSC
    from okdmr.dmrlib.hytera.pdu.hdap import HDAP
    from okdmr.dmrlib.hytera.pdu.hrnp import HRNP, HRNPOpcodes
    from okdmr.dmrlib.hytera.pdu.hstrp import HSTRP, HSTRPOptions, HSTRPPacketType
    from okdmr.dmrlib.hytera.pdu.location_protocol import GPSData, LocationProtocol, LocationProtocolSpecificService
    from okdmr.dmrlib.hytera.pdu.radio_control_protocol import RadioControlProtocol, RCPOpcode
    from okdmr.dmrlib.hytera.pdu.radio_ip import RadioIP
    from okdmr.dmrlib.hytera.pdu.radio_registration_service import RadioRegistrationService
    from okdmr.dmrlib.hytera.pdu.text_message_protocol import TextMessageProtocol
    from okdmr.dmrlib.motorola.automatic_registration_service import AutomaticRegistrationService
    from okdmr.dmrlib.motorola.lrrp import LRRP
    from okdmr.dmrlib.motorola.mbxml import MBXML
    from okdmr.dmrlib.motorola.text_messaging_service import TextMessagingService
    from okdmr.dmrlib.utils import bits_bytes as bb

    import inspect

    for name, p in inspect.signature(LocationProtocol.__init__).parameters.items():
        if name == "gpsdata":
            _default_gps[0] = p.default

    E = {}
    masks = {m.name: m for m in CrcMasks}

    def mask_of(i):
        ms = list(CrcMasks)
        return ms[i % len(ms)]

    # ---------------- CRC
    E["crc8.calculate"] = lambda bits: CRC8.calculate(bits)
    E["crc8.check"] = lambda bits, c: CRC8.check(bits, c)
    E["crc9.calculate"] = lambda bits, m: CRC9.calculate(bits, mask_of(m))
    E["crc9.from_parts"] = lambda data, sn, m, c32: CRC9.calculate_from_parts(data=data, serial_number=sn, mask=mask_of(m), crc32=c32)
    E["crc9.check"] = lambda data, sn, c9, m, c32: CRC9.check(data=data, serial_number=sn, crc9=c9, mask=mask_of(m), crc32=c32)
    E["crc16.calculate"] = lambda data, m: CRC16.calculate(data, mask_of(m))
    E["crc16.check"] = lambda data, c, m: CRC16.check(data, c, mask_of(m))
    E["crc32.calculate"] = lambda data: CRC32.calculate(data)
    E["crc32.check"] = lambda data, c: CRC32.check(data, c)

    std = {"crc7": Crc7.ETSI_DMR, "crc8": Crc8.ETSI_DMR, "crc9": Crc9.ETSI_DMR, "crc16": Crc16.ETSI_DMR, "crc32": Crc32.ETSI_DMR}

    def cfg_of(c):
        if isinstance(c, str):
            return std[c]
        w, poly, init, xo, ri, ro = c
        return BitCrcConfiguration(width_bits=w, polynomial=poly, init_value=init, final_xor_value=xo, reverse_input_bytes=bool(ri), reverse_output_bytes=bool(ro))

    E["bitcrc.bitwise"] = lambda c, bits: BitCrcCalculator(cfg_of(c), table_based=False).calculate_checksum(bits)
    E["bitcrc.table"] = lambda c, bits: BitCrcCalculator(cfg_of(c), table_based=True).calculate_checksum(bits)

    def persistent(c, table, bits):
        # a calculator object the caller keeps: its register lives across calls
        key = (json.dumps(c), table)
        if key not in _PERSIST:
            _PERSIST[key] = BitCrcCalculator(cfg_of(c), table_based=bool(table))
        return _PERSIST[key].calculate_checksum(bits)

    E["bitcrc.persistent"] = persistent
    E["bitcrc.verify"] = lambda c, table, bits, exp: BitCrcCalculator(cfg_of(c), table_based=bool(table)).verify_checksum(bits, exp)

    # ---------------- block codes
    for nm, cls in (("h743", Hamming743), ("h1393", Hamming1393), ("h15113", Hamming15113), ("h16114", Hamming16114), ("h17123", Hamming17123)):
        E[f"{nm}.generate"] = (lambda cls: lambda bits: cls.generate(bits))(cls)
        E[f"{nm}.check"] = (lambda cls: lambda bits: cls.check(bits))(cls)
        E[f"{nm}.check_and_correct"] = (lambda cls: lambda bits: cls.check_and_correct(bits))(cls)
        E[f"{nm}.correct_numpy_array"] = (lambda cls: lambda arr: cls.correct_numpy_array(arr))(cls)
    E["golay.generate"] = lambda bits: Golay2087.generate(bits)
    E["golay.check"] = lambda bits: Golay2087.check(bits)
    E["qr.generate"] = lambda bits: QuadraticResidue1676.generate(bits)
    E["qr.check"] = lambda bits: QuadraticResidue1676.check(bits)
    E["bptc.encode"] = lambda bits: BPTC19696.encode(bits)
    E["bptc.deinterleave_data_bits"] = lambda bits, rep: BPTC19696.deinterleave_data_bits(bits, repair_if_necessary=bool(rep))
    E["bptc.deinterleave_all_bits"] = lambda bits: BPTC19696.deinterleave_all_bits(bits)
    E["bptc.repair"] = lambda bits: BPTC19696.repair_if_necessary(bits, deinterleaved=False)
    E["bptc.repair_deinterleaved"] = lambda bits: BPTC19696.repair_if_necessary(bits, deinterleaved=True)
    E["vbptc12873.encode"] = lambda bits: VBPTC12873.encode(bits)
    E["vbptc12873.deinterleave_data_bits"] = lambda bits, inc: VBPTC12873.deinterleave_data_bits(bits, include_cs5=bool(inc))
    E["vbptc12873.deinterleave_all_bits"] = lambda bits: VBPTC12873.deinterleave_all_bits(bits)
    E["vbptc12873.deinterleave_cs5_bits"] = lambda bits: VBPTC12873.deinterleave_cs5_bits(bits)
    E["vbptc3211.encode"] = lambda bits, even: VBPTC3211.encode(bits, bool(even))
    E["vbptc3211.deinterleave_data_bits"] = lambda bits: VBPTC3211.deinterleave_data_bits(bits)
    E["vbptc3211.deinterleave_all_bits"] = lambda bits: VBPTC3211.deinterleave_all_bits(bits)
    E["vbptc6828.encode"] = lambda bits: VBPTC6828.encode(bits)
    E["vbptc6828.deinterleave_data_bits"] = lambda bits, inc: VBPTC6828.deinterleave_data_bits(bits, include_crc8=bool(inc))
    E["vbptc6828.deinterleave_all_bits"] = lambda bits: VBPTC6828.deinterleave_all_bits(bits)
    E["vbptc6828.deinterleave_crc8_bits"] = lambda bits: VBPTC6828.deinterleave_crc8_bits(bits)
    E["trellis.encode"] = lambda d: Trellis34.encode(d)
    E["trellis.decode"] = lambda bits, asb: Trellis34.decode(bits, as_bytes=bool(asb))
    E["rs.generate"] = lambda data, mask: ReedSolomon1294.generate(data, mask)
    E["rs.check"] = lambda data, mask: ReedSolomon1294.check(data, mask)
    E["fivebit.calculate"] = lambda data: FiveBitChecksum.calculate(data)
    E["fivebit.verify"] = lambda data, c: FiveBitChecksum.verify(data, c)

    # ---------------- PDUs: parse (the whole object is canonicalised) and parse + serialise
    def both(o):
        r = [o]
        if hasattr(o, "as_bits"):
            r.append(o.as_bits())
        if hasattr(o, "as_bytes"):
            try:
                r.append(o.as_bytes())
            except NotImplementedError:
                pass
        return r

    for nm, cls in (("csbk", CSBK), ("dataheader", DataHeader), ("flc", FullLinkControl), ("slc", ShortLinkControl), ("pi", PIHeader),
                    ("rate12", Rate12Data), ("rate34", Rate34Data), ("rate1", Rate1Data), ("slottype", SlotType), ("emb", EmbeddedSignalling),
                    ("udp", UDPIPv4CompressedHeader), ("serviceoptions", ServiceOptions)):
        E[f"{nm}.from_bits"] = (lambda cls: lambda bits: cls.from_bits(bits))(cls)
        E[f"{nm}.as_bits"] = (lambda cls: lambda bits: cls.from_bits(bits).as_bits())(cls)
    for nm, cls in (("csbk", CSBK), ("dataheader", DataHeader), ("flc", FullLinkControl), ("udp", UDPIPv4CompressedHeader)):
        E[f"{nm}.from_bytes"] = (lambda cls: lambda data: cls.from_bytes(data))(cls)
        E[f"{nm}.as_bytes"] = (lambda cls: lambda data: cls.from_bytes(data).as_bytes())(cls)
    def twice(parse, ser):
        def f(x):
            o = parse(x)
            return [ser(o), ser(o)]
        return f

    for nm, cls in (("csbk", CSBK), ("dataheader", DataHeader), ("flc", FullLinkControl), ("slc", ShortLinkControl), ("pi", PIHeader),
                    ("rate12", Rate12Data), ("rate34", Rate34Data), ("rate1", Rate1Data), ("slottype", SlotType), ("emb", EmbeddedSignalling),
                    ("udp", UDPIPv4CompressedHeader)):
        E[f"{nm}.as_bits_twice"] = twice(cls.from_bits, lambda o: o.as_bits())
        E[f"{nm}.repr_twice"] = twice(cls.from_bits, lambda o: repr(o))
    for nm, cls, tcls in (("rate12", Rate12Data, Rate12DataTypes), ("rate34", Rate34Data, Rate34DataTypes), ("rate1", Rate1Data, Rate1DataTypes)):
        E[f"{nm}.typed"] = (lambda cls, tcls: lambda bits, t: both(cls.from_bits_typed(bits, list(tcls)[t % len(list(tcls))])))(cls, tcls)
    E["flc.repr"] = lambda bits: repr(FullLinkControl.from_bits(bits))
    E["csbk.repr"] = lambda bits: repr(CSBK.from_bits(bits))
    E["dataheader.repr"] = lambda bits: repr(DataHeader.from_bits(bits))
    # objects built with DEFAULT arguments
    E["csbk.default_params"] = lambda lb, tgt: both(CSBK(last_block=bool(lb), protect_flag=False, csbko=CsbkOpcodes.AnnouncementPDUsWithoutResponse,
                                                         manufacturers_feature_set_id=FeatureSetIDs.StandardizedFID, target_address=tgt))
    from okdmr.dmrlib.etsi.layer2.elements.defined_data_formats import DefinedDataFormats
    from okdmr.dmrlib.etsi.layer2.elements.full_message_flag import FullMessageFlag
    from okdmr.dmrlib.etsi.layer2.elements.sap_identifier import SAPIdentifier
    from okdmr.dmrlib.etsi.layer2.elements.sarq import SARQ

    E["dataheader.default_padding"] = lambda dst, src: both(DataHeader(
        dpf=DataPacketFormats.ShortDataDefined, llid_destination=dst, llid_source=src, sap_identifier=SAPIdentifier.ShortData,
        defined_data_format=DefinedDataFormats.Binary, sarq=SARQ.NotRequired, full_message_flag=FullMessageFlag.FirstTryToCompletePacket))
    E["serviceoptions.default"] = lambda pr: both(ServiceOptions(priority_level=pr))

    # ---------------- burst
    def btype(i):
        return list(BurstTypes)[i % len(list(BurstTypes))]

    E["burst.from_bytes"] = lambda data, bt: Burst.from_bytes(data, btype(bt))
    E["burst.as_bytes"] = lambda data, bt: Burst.from_bytes(data, btype(bt)).as_bytes()
    E["burst.from_bits"] = lambda bits, bt: both(Burst.from_bits(bits, btype(bt)))
    E["burst.repr"] = lambda data, bt: repr(Burst.from_bytes(data, btype(bt)))
    E["burst.default"] = lambda: both(Burst())
    E["burst.default_typed"] = lambda bt: both(Burst(burst_type=btype(bt)))
    E["burst.from_hytera_ipsc"] = lambda data: both(Burst.from_hytera_ipsc(data))
    E["burst.deinterleave"] = lambda bits, dt: Burst.deinterleave(bits, list(DataTypes)[dt % len(list(DataTypes))])
    E["ipsc.from_ipsc_bytes"] = lambda data: HyteraIPSC.from_ipsc_bytes(data)
    E["ipsc.as_ipsc_bytes"] = lambda data: HyteraIPSC.from_ipsc_bytes(data).as_ipsc_bytes()

    # ---------------- Hytera
    for nm, cls in (("hdap", HDAP), ("rcp", RadioControlProtocol), ("lp", LocationProtocol), ("tmp", TextMessageProtocol),
                    ("rrs", RadioRegistrationService), ("hrnp", HRNP), ("hstrp", HSTRP), ("gpsdata", GPSData), ("radioip", RadioIP),
                    ("hstrp_type", HSTRPPacketType), ("hstrp_options", HSTRPOptions)):
        E[f"{nm}.from_bytes"] = (lambda cls: lambda data: cls.from_bytes(data))(cls)
        E[f"{nm}.as_bytes"] = (lambda cls: lambda data: cls.from_bytes(data).as_bytes())(cls)
    for nm, cls in (("hdap", HDAP), ("hrnp", HRNP), ("hstrp", HSTRP), ("gpsdata", GPSData)):
        E[f"{nm}.as_bytes_twice"] = twice(cls.from_bytes, lambda o: o.as_bytes())
    E["burst.as_bytes_twice"] = lambda data, bt: twice(lambda d: Burst.from_bytes(d, btype(bt)), lambda o: [o.as_bytes(), repr(o), o.target_radio_id])(data)
    E["mbxml.as_bytes_twice"] = twice(lambda d: MBXML.from_bytes(d), lambda ds: [[MBXML.as_bytes(x) for x in ds], [x.as_xml() for x in ds]])
    E["ars.as_bytes_twice"] = twice(AutomaticRegistrationService.from_bytes, lambda o: [o.as_bytes(), repr(o)])
    E["hrnp.repr"] = lambda data: repr(HRNP.from_bytes(data))
    E["hstrp.repr"] = lambda data: repr(HSTRP.from_bytes(data))
    E["rcp.default_settings"] = lambda rel: both(RadioControlProtocol(opcode=RCPOpcode.StatusChangeNotificationRequest, is_reliable=bool(rel)))
    E["rcp.default_repr"] = lambda: repr(RadioControlProtocol(opcode=RCPOpcode.StatusChangeNotificationRequest))

    def lp_default(rid, ip):
        o = LocationProtocol(opcode=LocationProtocolSpecificService.StandardReport, request_id=rid, radio_ip=RadioIP(ip))
        raw = o.as_bytes()
        # 5 octets header, 4 request id, 4 radio ip, 2 result, then GPS data: 'V', 6 time, 6 date ("%d%m%y" of import day)
        d0 = 5 + 4 + 4 + 2 + 1 + 6
        date_ok = raw[d0 : d0 + 6] == _default_gps[0].greenwich_date.strftime("%d%m%y").encode("ascii")
        # the HDAP checksum (last but one octet) covers the date, so it is masked with it
        return [o, raw[:d0], raw[d0 + 6 : -2], raw[-1:], date_ok]

    E["lp.default_gps"] = lp_default
    E["lp.default_request"] = lambda rid, ip: both(LocationProtocol(opcode=LocationProtocolSpecificService.StandardRequest, request_id=rid, radio_ip=RadioIP(ip)))
    E["hrnp.default"] = lambda pn: both(HRNP(packet_number=pn))
    E["hrnp.wrap_default_rcp"] = lambda pn: HRNP(opcode=HRNPOpcodes.DATA, packet_number=pn, data=RadioControlProtocol(opcode=RCPOpcode.StatusChangeNotificationRequest)).as_bytes()

    # ---------------- Motorola
    E["mbxml.from_bytes"] = lambda data, dbg: MBXML.from_bytes(data, debug=bool(dbg))
    E["mbxml.as_bytes"] = lambda data: [MBXML.as_bytes(d) for d in MBXML.from_bytes(data)]
    E["mbxml.as_xml"] = lambda data: [d.as_xml() for d in MBXML.from_bytes(data)]
    E["mbxml.repr"] = lambda data: [repr(d) for d in MBXML.from_bytes(data)]
    E["mbxml.read_uintvar"] = lambda data, i: MBXML.read_uintvar(data, i)
    E["mbxml.write_uintvar"] = lambda v: MBXML.write_uintvar(v)
    E["mbxml.read_sintvar"] = lambda data, i: MBXML.read_sintvar(data, i)
    E["mbxml.write_sintvar"] = lambda v: MBXML.write_sintvar(v)
    E["mbxml.read_ufloatvar"] = lambda data, i: MBXML.read_ufloatvar(data, i)
    E["mbxml.write_infotime"] = lambda v: MBXML.write_infotime(v)
    E["lrrp.get_token"] = lambda name, value, attrs, req: LRRP.get_token(name=name, value=value, attributes=attrs, is_request=bool(req))
    E["lrrp.get_token_twice"] = lambda name, value, attrs, req: [LRRP.get_token(name=name, value=value, attributes=attrs, is_request=bool(req)) for _ in range(2)]
    E["lrrp.get_attribute"] = lambda name, value: LRRP.get_attribute(name=name, value=value)
    E["lrrp.build_constants_table"] = lambda data: [MBXML.build_constants_table(d.id) for d in MBXML.from_bytes(data)]

    def tms_twice(data):
        o = TextMessagingService.from_bytes(data)
        return [o.as_bytes(), o.as_bytes(), o]

    E["tms.from_bytes"] = lambda data: TextMessagingService.from_bytes(data)
    E["tms.as_bytes"] = lambda data: TextMessagingService.from_bytes(data).as_bytes()
    E["tms.as_bytes_twice"] = tms_twice
    E["ars.from_bytes"] = lambda data: AutomaticRegistrationService.from_bytes(data)
    E["ars.as_bytes"] = lambda data: AutomaticRegistrationService.from_bytes(data).as_bytes()
    E["ars.repr"] = lambda data: repr(AutomaticRegistrationService.from_bytes(data))

    # ---------------- utils
    E["util.byteswap_bytes"] = lambda d: bb.byteswap_bytes(d)
    E["util.byteswap_bytearray"] = lambda d: bb.byteswap_bytearray(d)
    E["util.bytes_to_bits"] = lambda d, le: bb.bytes_to_bits(d, "little" if le else "big")
    E["util.bits_to_bytes"] = lambda bits: bb.bits_to_bytes(bits)
    E["util.numpy_array_to_bitarray"] = lambda a: bb.numpy_array_to_bitarray(a)
    E["util.numpy_array_to_int"] = lambda a: bb.numpy_array_to_int(a)
    E["util.bitarray_to_numpy_array"] = lambda bits: bb.bitarray_to_numpy_array(bits)
    E["util.half_byte_to_bytes"] = lambda h, n: bb.half_byte_to_bytes(h, n)

    def bytes_bits_bytes(d, le):
        bits = bb.bytes_to_bits(d, "little" if le else "big")
        return [bits, bb.bits_to_bytes(bits), bb.byteswap_bytes(bb.bits_to_bytes(bits))]

    def bits_numpy_bits(bits):
        arr = bb.bitarray_to_numpy_array(bits)
        return [arr, bb.numpy_array_to_bitarray(arr), bb.numpy_array_to_int(arr) if arr.size else None]

    E["util.bytes_bits_bytes"] = bytes_bits_bytes
    E["util.bits_numpy_bits"] = bits_numpy_bits
    # ---------------- the entry points modelled in Lean (Model/Purity.lean); results in the driver's line format
    from okdmr.dmrlib.motorola.mbxml import MBXMLToken
    from okdmr.dmrlib.motorola.text_messaging_service import FirstHeader

    def fb(bits):
        return bits.to01() or "-"

    def fx(b):
        return bytes(b).hex() or "-"

    def guarded(f, buf):
        """result line of f() + the argument buffer afterwards; exceptions as `ERR <Class>`"""
        try:
            out = f()
        except Exception as e:  # noqa
            out = "ERR " + type(e).__name__
        return out + " args:" + (buf() if buf else "")

    shared = [CRC8, CRC9, CRC16, CRC32]
    E["m.crc.shared"] = lambda k, bits: guarded(lambda: "b:" + fb(shared[k].CALC.calculate_checksum(bits)), lambda: fb(bits))
    E["m.crc.new"] = lambda c, t, bits: guarded(lambda: "b:" + fb(BitCrcCalculator(cfg_of(c), table_based=bool(t)).calculate_checksum(bits)), lambda: fb(bits))

    def m_kept(c, t, bits):
        key = ("m", json.dumps(c), t)
        if key not in _PERSIST:
            _PERSIST[key] = BitCrcCalculator(cfg_of(c), table_based=bool(t))
        return "b:" + fb(_PERSIST[key].calculate_checksum(bits))

    E["m.crc.kept"] = lambda c, t, bits: guarded(lambda: m_kept(c, t, bits), lambda: fb(bits))
    hams = [Hamming743, Hamming1393, Hamming15113, Hamming16114, Hamming17123, Golay2087, QuadraticResidue1676]
    E["m.ham.gen"] = lambda i, bits: guarded(lambda: "b:" + ("".join(str(int(x)) for x in hams[i].generate(bits).tolist()) or "-"), lambda: fb(bits))
    E["m.ham.check"] = lambda i, bits: guarded(lambda: "f:" + ("1" if hams[i].check(bits) else "0"), lambda: fb(bits))

    def m_cac(i, bits):
        ok, out = hams[i].check_and_correct(bits)
        return f"fb:{'1' if ok else '0'}:{fb(out)}"

    E["m.ham.cac"] = lambda i, bits: guarded(lambda: m_cac(i, bits), lambda: fb(bits))
    E["m.fivebit"] = lambda d: guarded(lambda: f"n:{FiveBitChecksum.calculate(d)}", lambda: fx(d))
    E["m.byteswap"] = lambda d: guarded(lambda: "x:" + fx(bb.byteswap_bytearray(d)), lambda: fx(d))
    E["m.default.burst"] = lambda: guarded(lambda: "b:" + fb(Burst().full_bits), None)

    def m_csbk():
        p = CSBK(last_block=True, protect_flag=False, csbko=CsbkOpcodes.AnnouncementPDUsWithoutResponse, manufacturers_feature_set_id=FeatureSetIDs.StandardizedFID).broadcast_params
        return "pb:" + fb(p[:14]) + ":" + fb(p[14:38])

    E["m.default.csbk"] = lambda: guarded(m_csbk, None)
    E["m.default.dh"] = lambda: guarded(lambda: "b:" + fb(DataHeader(
        dpf=DataPacketFormats.ShortDataDefined, sap_identifier=SAPIdentifier.ShortData, defined_data_format=DefinedDataFormats.Binary,
        sarq=SARQ.NotRequired, full_message_flag=FullMessageFlag.FirstTryToCompletePacket).bit_padding), None)
    E["m.default.so"] = lambda: guarded(lambda: "b:" + fb(ServiceOptions().reserved), None)
    E["m.default.rcp"] = lambda: guarded(lambda: "x:" + fx(RadioControlProtocol(opcode=RCPOpcode.StatusChangeNotificationRequest).get_payload()), None)

    def m_gettoken(req, name, attrs):
        t = LRRP.get_token(name=name, value=None, attributes={k: v for k, v in attrs}, is_request=bool(req))
        parts = []
        for a in t.attributes:
            if isinstance(a, MBXMLToken):
                parts.append(f"i{a.token_id}={'none' if a.value is None else a.value}")
            else:
                parts.append(f"a{a}")
        return f"tok:{t.token_id}:{t.name}:" + (",".join(parts) or "-")

    E["m.gettoken"] = lambda req, name, attrs: guarded(lambda: m_gettoken(req, name, attrs), None)

    def m_tms(data, stale):
        o = TextMessagingService.from_bytes(data)
        o.header.has_more_headers = bool(stale)  # the kept object's flag may hold anything: as_bytes rewrites it
        a = o.as_bytes()
        b = o.as_bytes()
        h = o.header
        return f"x:{fx(a)} x:{fx(b)} hdr:{int(h.is_acknowledged)}{int(h.is_reserved)}{int(h.is_control_message)}:{h.pdu_type.value[1]}"

    E["m.tms"] = lambda data, stale: guarded(lambda: m_tms(data, stale), None)

    def bits_of(buf):
        if type(buf).__name__ in ("bitarray", "frozenbitarray"):
            return buf.to01() or "-"
        return "".join(f"{x:08b}" for x in bytes(buf)) or "-"

    # CRC9.calculate_from_parts with `data` in whatever form the caller has it (Model/Purity: Call.crc9Parts); the mask by value
    E["m.crc9parts"] = lambda data, sn, mv, c32: guarded(
        lambda: f"n:{CRC9.calculate_from_parts(data=data, serial_number=sn, mask=CrcMasks(mv), crc32=c32)}", lambda: bits_of(data))

    def m_gpsdate(ddmmyy):
        rec = b"A120000" + ddmmyy.encode("ascii") + b"N5000.0000E01400.0000" + b"\0" * 6
        d = GPSData.from_bytes(rec).greenwich_date
        return "none" if d is None else f"n:{d.year:04d}{d.month:02d}{d.day:02d}"

    E["m.gpsdate"] = lambda ddmmyy: guarded(lambda: m_gpsdate(ddmmyy), None)
    # ---------------- every element class / enum / remaining codec class, found by introspection
    elem = {}
    try:
        found = auto_entries()
    except BaseException as e:  # noqa  (a tree the introspection cannot walk: the hand-written catalogue still runs; reported by auto_inventory)
        if isinstance(e, (KeyboardInterrupt, SystemExit)):
            raise
        _AUTO_ERROR.append(type(e).__name__ + ": " + str(e)[:200])
        found = {}
    for name, (fn, meta) in found.items():
        E[name] = fn
        if meta["kind"] == "member" and meta.get("elements") and meta["method"] == "as_bits":
            elem[name[len("auto."):-len(".as_bits")]] = (fn, meta["n"])

    def m_element(key, i):
        fn, n = elem[key]
        if not 0 <= i < n:
            raise IndexError("no-such-member")
        return "b:" + fb(fn(i))

    # the same members as an entry point of the Lean model (Call.elementBits): `<module>.<Class>`, member index
    E["m.element"] = lambda key, i: guarded(lambda: m_element(key, i), None)
    _IMPL = E
    return E


# in-place repairs that are documented to return the repaired buffer: the argument may change iff the
# returned buffer IS the argument
INPLACE_OK = {"h743.check_and_correct", "h1393.check_and_correct", "h15113.check_and_correct", "h16114.check_and_correct",
              "h17123.check_and_correct", "bptc.repair_deinterleaved"}


def _immutable(o):
    import enum

    if o is None or isinstance(o, (bool, int, float, complex, str, bytes, enum.Enum, type, frozenset, range)):
        return True
    if type(o).__name__ == "frozenbitarray" or (type(o).__module__ or "").startswith("numpy") and not type(o).__name__ == "ndarray":
        return True
    if isinstance(o, tuple):
        return all(_immutable(x) for x in o)
    if isinstance(o, memoryview):
        return o.readonly
    return False


def scribble(raw):
    """the CALLER overwrites the bit / byte buffers it was handed back (top level, or directly inside a returned list / tuple)"""

    def one(x):
        tn = type(x).__name__
        try:
            if tn == "bitarray":
                x.invert()
            elif tn == "bytearray":
                for i in range(len(x)):
                    x[i] ^= 0xFF
            elif tn == "ndarray" and x.flags.writeable:
                x[...] = (x == 0)
        except Exception:  # noqa
            pass

    one(raw)
    if isinstance(raw, (list, tuple)):
        for x in raw:
            one(x)


def execute(spec, full=False, keep=None):
    """one call: [canonical result, [changed argument indices], note].  spec["m"]: the caller scribbles over the returned
    buffers afterwards.  keep: list collecting (returned object, digest of its canonical form) for the held-result check"""
    E = impl()
    name = spec["ep"]
    fn = E.get(name)
    if fn is None:
        return ["ERR no-such-entry-point", [], ""]
    args = [dec(a) for a in spec["a"]]
    before = [canon(a) if is_buffer(a) else None for a in args]
    raw = None
    try:
        raw = fn(*args)
        res = canon(raw)
    except BaseException as e:  # noqa
        if isinstance(e, (KeyboardInterrupt, SystemExit)):
            raise
        res = "ERR " + type(e).__name__
    changed = []
    note = ""
    if name.endswith("_twice") and isinstance(raw, list) and len(raw) >= 2 and canon(raw[0]) != canon(raw[1]):
        note = "TWICE-DIFFERS " + squash(canon(raw[0]), 200) + " | " + squash(canon(raw[1]), 200)
    for i, (a, b) in enumerate(zip(args, before)):
        if b is None:
            continue
        after = canon(a)
        if after != b:
            same_obj = raw is a or (isinstance(raw, (tuple, list)) and any(x is a for x in raw))
            if name == "m.ham.cac":
                continue  # the buffer afterwards is part of the result line and compared with the model
            if name in INPLACE_OK and same_obj:
                note = "in-place repair returned the repaired argument buffer"
                continue
            changed.append([i, squash(b, 300), squash(after, 300)])
    _RESULTS.append(raw)
    alias = []
    if raw is not None:
        tops = [raw] + (list(raw) if isinstance(raw, (list, tuple)) else [])
        for i, a in enumerate(args):
            if not is_buffer(a) or isinstance(a, (dict, set)):
                continue
            how = None
            for o in tops:
                if o is a:
                    how = "is the argument object"
                    break
                if is_raw_buffer(o) and shares_memory(o, a):
                    how = "shares memory with the argument"
                    break
            if how and not (name in INPLACE_OK or name == "m.ham.cac"):
                alias.append([i, how])
    if keep is not None:
        # (a buffer the caller re-uses and gets back from an in-place repair changes by the caller's own hand)
        holdable = raw is not None and not spec.get("m") and not any(a and a[0] in ("h", "k", "r") for a in spec["a"])
        keep.append((raw, hashlib.sha256(res.encode()).hexdigest(), res) if holdable else None)
    if raw is not None and spec.get("m"):
        scribble(raw)
    return [res if full else squash(res), changed, note, alias]


def shares_memory(o, a):
    """does what the caller writes into its own buffer `a` show in the returned object `o` (a view, a memoryview, a slice that
    is not a copy)?  Tested by writing: the elements of `a` are flipped, `o` is looked at, the elements are flipped back."""
    try:
        if len(a) == 0 or len(o) == 0:
            return False
        tn = type(a).__name__
        if tn == "ndarray" and type(o).__name__ == "ndarray":
            import numpy

            return bool(numpy.shares_memory(o, a))
        before = canon(o)
        if tn == "bitarray":
            a.invert()
            seen = canon(o) != before
            a.invert()
        elif tn == "ndarray":
            if not a.flags.writeable:
                return False
            old = a.copy()
            a[...] = (a == 0)
            seen = canon(o) != before
            a[...] = old
        elif tn in ("bytearray", "memoryview") or (tn == "array" and a.typecode == "B"):
            old = bytes(a)
            try:
                for i in range(len(a)):
                    a[i] = old[i] ^ 0xFF
                seen = canon(o) != before
            finally:
                for i in range(len(a)):
                    a[i] = old[i]
        else:
            return False
        return seen
    except Exception:  # noqa
        return False


# ------------------------------------------------------------------------------------------------
# state probe: every shared mutable object reachable from the package's classes, functions and modules
def probe():
    import enum
    import inspect
    import types

    impl()
    out = {}

    def h(x):
        s = canon(x)
        return s if len(s) <= 120 else f"[{len(s)}] sha256:{hashlib.sha256(s.encode()).hexdigest()[:24]}"

    def immutable(v):
        return v is None or isinstance(v, (bool, int, float, str, bytes, enum.Enum, type, types.FunctionType, types.ModuleType, tuple, frozenset)) and not (
            isinstance(v, tuple) and any(not immutable(x) for x in v)
        )

    def fn_defaults(qual, f):
        f = getattr(f, "__func__", f)
        if not isinstance(f, types.FunctionType):
            return
        try:
            sig = inspect.signature(f)
        except (TypeError, ValueError):
            return
        for pn, p in sig.parameters.items():
            if p.default is not inspect.Parameter.empty and not immutable(p.default):
                out[f"default:{qual}({pn})"] = h(p.default)

    for mname in sorted(sys.modules):
        if not mname.startswith("okdmr.dmrlib") or ".tests" in mname:
            continue
        mod = sys.modules[mname]
        if mod is None:
            continue
        for k, v in sorted(vars(mod).items()):
            if k.startswith("__"):
                continue
            if isinstance(v, types.FunctionType) and v.__module__ == mname:
                fn_defaults(f"{mname}.{k}", v)
                if hasattr(v, "cache_info"):
                    pass
            elif isinstance(v, type) and v.__module__ == mname:
                for ak, av in sorted(vars(v).items()):
                    if ak.startswith("__") and ak not in ("__init__",):
                        continue
                    if isinstance(av, (types.FunctionType, staticmethod, classmethod, property)):
                        target = av.fget if isinstance(av, property) else av
                        if target is not None:
                            fn_defaults(f"{mname}.{k}.{ak}", target)
                    elif isinstance(v, type) and issubclass(v, enum.Enum) and isinstance(av, v):
                        if not immutable(av.value):
                            out[f"enum:{mname}.{k}.{ak}"] = h(av.value)
                        extra = {x: y for x, y in vars(av).items() if x not in ("_value_", "_name_", "__objclass__", "_sort_order_", "_hashable_values_") and not immutable(y)}
                        if extra:
                            out[f"enum-member-state:{mname}.{k}.{ak}"] = h(extra)
                    elif not immutable(av) and not callable(av) and not isinstance(av, (types.MemberDescriptorType, types.GetSetDescriptorType)) and not ak.startswith("_abc") and ak not in ("_member_map_", "_member_names_", "_value2member_map_", "_unhashable_values_", "_hashable_values_", "_unhashable_values_map_"):
                        out[f"class:{mname}.{k}.{ak}"] = h(av)
            elif not immutable(v) and not isinstance(v, type) and getattr(v, "__module__", mname) is not None and type(v).__module__ not in ("typing", "logging") and not callable(v):
                out[f"global:{mname}.{k}"] = h(v)
    # the cached CRC lookup tables of the four library configurations
    from okdmr.dmrlib.etsi.crc.crc import bits_create_lookup_table

    for w, p in ((8, 0x7), (9, 0x59), (16, 0x1021), (32, 0x04C11DB7)):
        out[f"cache:bits_create_lookup_table({w},{p})"] = h(bits_create_lookup_table(w, p))
    return out


# ------------------------------------------------------------------------------------------------
def child(fn, timeout):
    """run fn() in a forked child, return its JSON-able value (or an error marker)"""
    r, w = os.pipe()
    pid = os.fork()
    if pid == 0:
        try:
            os.close(r)
            signal.alarm(timeout)
            try:
                val = fn()
            except BaseException as e:  # noqa
                val = {"child_error": type(e).__name__ + ": " + str(e)[:300]}
            data = json.dumps(val).encode()
            with os.fdopen(w, "wb") as f:
                f.write(data)
        finally:
            os._exit(0)
    os.close(w)
    chunks = []
    with os.fdopen(r, "rb") as f:
        while True:
            b = f.read(1 << 16)
            if not b:
                break
            chunks.append(b)
    os.waitpid(pid, 0)
    data = b"".join(chunks)
    if not data:
        return {"child_error": "child died (timeout or crash)"}
    return json.loads(data)


def _graph():
    try:
        import c19_graph as g
    except ImportError:
        from props import c19_graph as g
    return g


def serve():
    proto_out = os.fdopen(os.dup(1), "w")
    devnull = open(os.devnull, "w")
    os.dup2(devnull.fileno(), 1)
    os.dup2(devnull.fileno(), 2)
    sys.stdout = devnull
    sys.stderr = devnull
    k = int(os.environ.get("C19_AMBIENT", "0") or 0)
    if k:
        patch_ambient(k)
    impl()  # imports the library; makes no library call
    import logging

    if k != AMBIENT_LOGGING:
        logging.disable(logging.CRITICAL)
    for line in sys.stdin:
        line = line.strip()
        if not line:
            continue
        req = json.loads(line)
        op = req.get("op")
        if op == "quit":
            break
        if op == "first":
            res = [child(lambda s=s: execute(s, req.get("full", False)), 60) for s in req["specs"]]
            resp = {"r": [x if isinstance(x, list) else ["ERR worker " + x.get("child_error", "?"), [], ""] for x in res]}
        elif op == "seq":

            deep = bool(req.get("deep")) and bool(req.get("hold"))
            if deep:
                _graph().registry(imported_only=True)  # listed once per server, before the fork: reading, no import, no library call

            def run_seq(calls=req["calls"], want_probe=req.get("probe", True), full=req.get("full", False), hold=req.get("hold", False), reseed=req.get("reseed", False), deep=deep):
                keep = [] if hold else None
                rs = []
                for i, s in enumerate(calls):
                    if reseed:
                        # the application re-seeds the generators between its calls: no codec result may notice
                        import random as _random

                        _random.seed(7919 * i + 13)
                        try:
                            import numpy as _numpy

                            _numpy.random.seed((7919 * i + 13) % 2**32)
                        except Exception:  # noqa
                            pass
                    rs.append(execute(s, full and i == len(calls) - 1, keep))
                out = {"r": rs}
                if hold:
                    # every object the library returned is still held by the caller: none may have changed since
                    ch = []
                    for i, k in enumerate(keep):
                        if k is None:
                            continue
                        try:
                            now = canon(k[0])
                        except BaseException as e:  # noqa
                            now = "ERR canon " + type(e).__name__
                        if hashlib.sha256(now.encode()).hexdigest() != k[1]:
                            ch.append([i, squash(k[2], 300), squash(now, 300)])
                    out["held_changed"] = ch
                    # two calls handed out the very same mutable object (both are still held, so equal ids = one object)
                    seen, al = {}, []
                    for i, k in enumerate(keep):
                        if k is None:
                            continue
                        for o in ([k[0]] + (list(k[0]) if isinstance(k[0], (list, tuple)) else [])):
                            if _immutable(o):
                                continue
                            j = seen.setdefault(id(o), i)
                            if j != i and len(al) < 5:
                                al.append([j, i, type(o).__name__])
                    out["held_alias"] = al
                    if deep:
                        # below the top level: nodes of the returned object graphs that are library-held objects or nodes of another
                        # call's result (c19_graph.deep_sharing)
                        try:
                            out["held_deep"] = _graph().deep_sharing([k[0] if k is not None else None for k in keep])
                        except BaseException as e:  # noqa
                            if isinstance(e, (KeyboardInterrupt, SystemExit)):
                                raise
                            out["held_deep"] = {"error": type(e).__name__ + ": " + str(e)[:200]}
                out["probe"] = probe() if want_probe else None
                return out

            resp = child(run_seq, 600)
        elif op == "probe":
            resp = child(lambda: {"probe": probe()}, 120)
        elif op == "auto":
            resp = child(auto_inventory, 120)
        elif op == "graph-list":
            # construction aliasing probe (c19_graph.py): the classes of the library and how to build them
            resp = child(lambda: _graph().targets(bool(req.get("thorough")), int(req.get("seed") or 0)), 300)
        elif op == "graph":
            # every target in its own child: built twice, the attribute graph walked, every mutable node edited in place
            # (the modules are imported and the library's own objects listed once, here: reading, no library call; servers that
            # answer graph requests answer nothing else)
            _graph().registry()
            res = [child(lambda t=t: _graph().examine(t), 120) for t in req["targets"]]
            resp = {"r": res}
        else:
            resp = {"child_error": "bad op"}
        proto_out.write(json.dumps(resp) + "\n")
        proto_out.flush()


def one(spec_json):
    k = int(os.environ.get("C19_AMBIENT", "0") or 0)
    if k:
        patch_ambient(k)
    real_out = os.fdopen(os.dup(1), "w")
    devnull = open(os.devnull, "w")
    os.dup2(devnull.fileno(), 1)
    os.dup2(devnull.fileno(), 2)
    sys.stdout = devnull
    sys.stderr = devnull
    import logging

    if k != AMBIENT_LOGGING:
        logging.disable(logging.CRITICAL)
    r = execute(json.loads(spec_json))
    real_out.write(json.dumps(r) + "\n")
    real_out.flush()


if __name__ == "__main__":
    if len(sys.argv) >= 2 and sys.argv[1] == "--server":
        serve()
    elif len(sys.argv) >= 3 and sys.argv[1] == "--one":
        one(sys.argv[2])
    else:
        print(__doc__)
        sys.exit(2)
