"""C09 — variable-length BPTCs: embedded LC (128,72), CACH short LC (68,28), single burst (32,11).

Correspondence (model driver `drv_c09` vs. the real classes) for `encode` on every accepted input
length and on rejected lengths, `deinterleave_data_bits` (both flags), `deinterleave_all_bits`,
`deinterleave_cs5_bits` / `deinterleave_crc8_bits`, `set_parity`, `FiveBitChecksum.calculate` and
`CRC8.calculate`; the oracle evaluates the property itself on the real code (DESIGN §5 C09).
"""
import json
import os
import subprocess

import numpy
from bitarray import bitarray
from bitarray.util import int2ba

from common import BIN, impl_error

PROP = "C09"
MODULES = ["C09", "C09a", "C09b", "C09c", "C09d", "C09e"]
GEN = ["Codes", "Vbptc"]
MATCHERS = {}


# ------------------------------------------------------------------------------------------------
def bs(b) -> str:
    s = "".join("1" if x else "0" for x in b)
    return s if s else "-"


def call(fn, *a):
    """run the real code, canonicalise result / exception"""
    try:
        r = fn(*a)
    except BaseException as e:  # noqa
        return impl_error(e)
    if isinstance(r, numpy.ndarray):
        return bs(int(x) for x in r)
    if isinstance(r, bool):
        return "1" if r else "0"
    if isinstance(r, int):
        return str(r)
    return bs(r)


class C:
    """one of the three classes with the facts the oracle needs (all read from the live class)"""

    def __init__(self, name, cls, k, c, n, ham, hrows):
        self.name, self.cls, self.k, self.c, self.n, self.ham, self.hrows = name, cls, k, c, n, ham, hrows
        ii = cls.INTERLEAVING_INDICES
        self.R = max(v[1] for v in ii.values())
        self.W = max(v[2] for v in ii.values()) + 1
        self.cell = {(v[1] - 1, v[2]): v[0] for v in ii.values()}

    # library calls (copies: never hand the implementation an object the harness still uses)
    def encode(self, bits, even=True):
        if self.name == "32":
            return self.cls.encode(bitarray(bits), even)
        return self.cls.encode(bitarray(bits))

    def data(self, e, incl):
        if self.name == "32":
            return self.cls.deinterleave_data_bits(bitarray(e))
        return self.cls.deinterleave_data_bits(bitarray(e), incl)

    def all(self, e):
        return self.cls.deinterleave_all_bits(bitarray(e))

    def cs_extract(self, e):
        if self.name == "128":
            return self.cls.deinterleave_cs5_bits(bitarray(e))
        return self.cls.deinterleave_crc8_bits(bitarray(e))

    def checksum_expected(self, m):
        """the checksum the library computes over the message, in the extractor's documented order"""
        from okdmr.dmrlib.etsi.crc.crc8 import CRC8
        from okdmr.dmrlib.etsi.fec.five_bit_checksum import FiveBitChecksum

        if self.name == "128":
            return list(int2ba(FiveBitChecksum.calculate(bitarray(m).tobytes()), length=5))
        # test_vbptc_68_36: crc8_extracted == int2ba(crc8_calculated, length=8, endian="little")
        return list(int2ba(CRC8.calculate(bitarray(m)), length=8, endian="little"))

    def checksum_msb_first(self, m):
        from okdmr.dmrlib.etsi.crc.crc8 import CRC8
        from okdmr.dmrlib.etsi.fec.five_bit_checksum import FiveBitChecksum

        if self.name == "128":
            return int2ba(FiveBitChecksum.calculate(bitarray(m).tobytes()), length=5)
        return int2ba(CRC8.calculate(bitarray(m)), length=8)

    # driver lines
    def l_encode(self, bits, even=True):
        return f"vb.encode {self.name} {bs(bits)}" + (f" {int(even)}" if self.name == "32" else "")

    def l_data(self, e, incl):
        return f"vb.data {self.name} {bs(e)}" + ("" if self.name == "32" else f" {int(incl)}")

    def l_all(self, e):
        return f"vb.all {self.name} {bs(e)}"

    def l_cs(self, e):
        return f"vb.cs {self.name} {bs(e)}"


def classes():
    from okdmr.dmrlib.etsi.fec.hamming_16_11_4 import Hamming16114
    from okdmr.dmrlib.etsi.fec.hamming_17_12_3 import Hamming17123
    from okdmr.dmrlib.etsi.fec.vbptc_128_72 import VBPTC12873
    from okdmr.dmrlib.etsi.fec.vbptc_32_11 import VBPTC3211
    from okdmr.dmrlib.etsi.fec.vbptc_68_28 import VBPTC6828

    return [
        C("128", VBPTC12873, 72, 5, 128, Hamming16114, 7),
        C("68", VBPTC6828, 28, 8, 68, Hamming17123, 3),
        C("32", VBPTC3211, 11, 0, 32, Hamming16114, 1),
    ]


# corpus: inputs that failed before a repair / captured vectors of the test-suite --------------------
# 72-bit messages whose 5-bit checksum is not a palindrome (pre-30c0989 encode stored it reversed)
CORPUS_128 = [
    "001020000c302f9b16",  # CS-5 = 22 = 10110
    "000000000000000001",  # CS-5 = 1  = 00001
    "0102030405060708ff",  # CS-5 = 12 = 01100
    "ffffffffffffffffff",  # CS-5 = 1  = 00001 (octet sum 2295)
    "00000000000000001e",  # CS-5 = 30 = 11110 (largest value)
    "0000000000000000ff",  # CS-5 = 7  = 00111
]
ONAIR_128 = [
    "00001010000000000000001100001010000101110000101000000110000001010000110000010001001000100000000000000101001000100011111100111010",
]
ONAIR_68 = [
    "00000000000010010000000000000011000000110011000010011001101000000000",
    "00110000001110010011000000110000010101011010111111110101011010101001",
    "00000000000000000000000000000000000000000000000000000000000000000000",
]


def hex_bits(h: str) -> bitarray:
    b = bitarray(endian="big")
    b.frombytes(bytes.fromhex(h))
    return b


# ------------------------------------------------------------------------------------------------
def oracle(ctx, cd: C, m: bitarray, even: bool = True):
    """the property on the real code for one message; returns (on-air bits or None, failures)"""
    inp = {"code": cd.name, "message": bs(m), "even": bool(even)}
    fails = []

    def fail(kind, what, expected=None, actual=None):
        fails.append((kind, dict(inp), what, expected, actual))

    try:
        e = cd.encode(m, even)
    except BaseException as ex:  # noqa
        fail("encode-raises", f"VBPTC{cd.name}.encode raises {impl_error(ex)} on a {len(m)}-bit message (message length of the class: {cd.k})")
        return None, fails
    if len(e) != cd.n:
        fail("encode-length", f"encode returns {len(e)} bits instead of {cd.n}", cd.n, len(e))
        return None, fails
    # extraction
    d0 = call(cd.data, e, False)
    if d0 != bs(m):
        fail("extract", "deinterleave_data_bits(encode(m)) differs from m", bs(m), d0)
    if cd.c:
        cs_exp = cd.checksum_expected(m)
        cs_got = call(cd.cs_extract, e)
        if cs_got != bs(cs_exp):
            fail("checksum-readback", "the checksum read back by the library's extractor is not the checksum it computes over the message", bs(cs_exp), cs_got)
        d1 = call(cd.data, e, True)
        if d1 != bs(m) + bs(cs_exp):
            fail("extract-with-checksum", "deinterleave_data_bits(..., include checksum) is not message ++ checksum", bs(m) + bs(cs_exp), d1)
    # transmitted matrix: rows are code words, columns obey the parity rule
    for r in range(cd.hrows):
        row = bitarray([e[cd.cell[(r, c)]] for c in range(cd.W)])
        ok = call(cd.ham.check, row)
        if ok != "1":
            fail("row-not-codeword", f"row {r + 1} of the transmitted matrix is not a {cd.ham.__name__} code word", "1", f"{ok} row={bs(row)}")
            break
    want = 0 if even else 1
    for c in range(cd.W):
        p = 0
        for r in range(cd.R):
            p ^= e[cd.cell[(r, c)]]
        if p != want:
            fail("column-parity", f"column {c} of the transmitted matrix has parity {p}, rule says {want}", want, p)
            break
    # re-encoding
    es = bs(e)
    if cd.c:
        for label, mc in (("msb-first checksum", m + cd.checksum_msb_first(m)), ("extractor output", None)):
            if mc is None:
                try:
                    mc = cd.data(e, True)
                except BaseException:  # noqa
                    continue
            r = call(cd.encode, mc, even)
            if r != es:
                fail("reencode-with-checksum", f"encode(message ++ checksum [{label}]) differs from encode(message)", es, r)
    try:
        da = cd.all(e)
        r = call(cd.encode, da, even)
    except BaseException as ex:  # noqa
        r = impl_error(ex)
    if r != es:
        fail("reencode-all", "encode(deinterleave_all_bits(encode(m))) differs from encode(m)", es, r)
    return e, fails


def record(ctx, fails):
    for kind, inp, what, exp, act in fails:
        ctx.fail(kind, inp, what, expected=exp, actual=act)


# ------------------------------------------------------------------------------------------------
def messages(ctx, cd: C, n_random: int):
    """(tag, message) — corpus, boundaries, unit words, pairs, random"""
    k = cd.k
    if cd.name == "128":
        for h in CORPUS_128:
            yield "corpus", hex_bits(h)
        for s in ONAIR_128:
            yield "corpus", cd.cls.deinterleave_data_bits(bitarray(s), False)
    if cd.name == "68":
        for s in ONAIR_68:
            yield "corpus", cd.cls.deinterleave_data_bits(bitarray(s), False)
    yield "boundary", bitarray("0" * k)
    yield "boundary", bitarray("1" * k)
    yield "boundary", bitarray(("01" * k)[:k])
    yield "boundary", bitarray(("10" * k)[:k])
    for i in range(k):
        u = bitarray("0" * k)
        u[i] = 1
        yield "unit", u
    for i in range(k):
        u = bitarray("1" * k)
        u[i] = 0
        yield "co-unit", u
    for _ in range(min(n_random, 2 * k)):
        u = bitarray("0" * k)
        for i in ctx.rng.sample(range(k), 2):
            u[i] = 1
        yield "pair", u
    if cd.name == "128":
        # octet sums around the 16-bit mask and multiples of 31 (rare branches of the checksum)
        for total in (0, 30, 31, 32, 61, 62, 255, 256, 2294, 2295):
            rest = total
            octs = []
            for _ in range(9):
                o = min(255, rest)
                octs.append(o)
                rest -= o
            ctx.rng.shuffle(octs)
            yield "checksum-boundary", hex_bits(bytes(octs).hex())
    for _ in range(n_random):
        # mixture of densities so that sparse / dense words are reached too
        p = ctx.rng.choice((0.5, 0.5, 0.5, 0.1, 0.9))
        yield "random", bitarray([1 if ctx.rng.random() < p else 0 for _ in range(k)])


def run(ctx):
    ctx.rule = (
        "per class: corpus (messages with non-palindromic CS-5, the captured on-air words of the test-suite), "
        "boundary words, all unit / co-unit words, random 2-bit words, checksum-boundary octet sums, random words of "
        "mixed density; (32,11): all 2^11 x 2 (message, parity) pairs in thorough, a sample in quick.  Every message "
        "goes through the property oracle on the real code (extract, checksum read-back, rows, columns, re-encodings) "
        "and through the model (all accepted encode input lengths, every extractor).  Extra streams: GF(2) linearity "
        "spot checks, rejected lengths, random non-code on-air words through the extractors, every set_parity column, "
        "FiveBitChecksum / CRC8 on random inputs.  A case is non-trivial unless the message is all-zero; distinct = "
        "distinct (class, operation, input)"
    )
    ctx.trusted_base += [
        "Lean 4.33 kernel",
        "tools/extract_vbptc.py (dumps INTERLEAVING_INDICES and the five derived maps of the three classes in dict order, and the CRC-8 configuration of CRC8.CALC) and tools/extract.py gen_codes (Hamming matrices)",
        "hand-written model Model/Vbptc.lean (encode control flow, fill/place/row/column/read-out loops, hard-coded checksum cells, FiveBitChecksum, table based CRC-8 register) tied to the code by this run's correspondence",
        "Lemmas/VbptcPacked.lean bridging is proved, not trusted; numpy / bitarray are trusted as the substrate of the implementation",
    ]
    ctx.assumptions += [
        "inputs are big-endian bitarrays (tobytes / ba2int of a little-endian bitarray differ); the property speaks of bit strings",
        "IndexError / negative-index wrap-around inside the loops is excluded by the theorem tables_in_range on the tables extracted on this run, the model does not raise there",
    ]
    do_corr = (not ctx.search_only) and ctx.driver_ok
    cds = classes()
    for cd in cds:
        pairs = []  # (line, impl output)
        if cd.name == "32":
            if ctx.thorough() or ctx.boost > 1:
                todo = [("all", int2ba(v, length=11)) for v in range(2**11)]
            else:
                todo = list(messages(ctx, cd, ctx.budget(300, 300)))
            parities = (True, False)
        else:
            todo = list(messages(ctx, cd, ctx.budget(900, 50000)))
            parities = (True,)
        n_full = 0
        for idx, (tag, m) in enumerate(todo):
            for even in parities:
                e, fails = oracle(ctx, cd, m, even)
                record(ctx, fails)
                ctx.count(f"{cd.name}:{tag}")
                ctx.case((cd.name, "msg", bs(m), even), nontrivial=m.any(),
                         sample={"class": cd.name, "message": bs(m), "even": even, "on_air": bs(e) if e is not None else None}
                         if (tag == "corpus" and idx < 2) or (tag == "random" and idx % 997 == 0) else None)
                if not do_corr:
                    continue
                # model vs implementation.  Bulk random messages in thorough: the main lines for all,
                # the remaining accepted lengths / extractors for every 8th.
                full = tag != "random" or (not ctx.thorough()) or idx % 8 == 0
                pairs.append((cd.l_encode(m, even), call(cd.encode, m, even)))
                if e is None:
                    continue
                if cd.c:
                    pairs.append((cd.l_cs(e), call(cd.cs_extract, e)))
                pairs.append((cd.l_data(e, True), call(cd.data, e, True)))
                if full:
                    n_full += 1
                    if cd.c:
                        pairs.append((cd.l_data(e, False), call(cd.data, e, False)))
                        mc = m + cd.checksum_msb_first(m)
                        pairs.append((cd.l_encode(mc, even), call(cd.encode, mc, even)))
                        # message with an arbitrary trailing checksum field (recomputed by encode)
                        junk = m + bitarray([ctx.rng.randrange(2) for _ in range(cd.c)])
                        pairs.append((cd.l_encode(junk, even), call(cd.encode, junk, even)))
                    da = call(cd.all, e)
                    pairs.append((cd.l_all(e), da))
                    if not da.startswith("ERR"):
                        dab = bitarray(da)
                        pairs.append((cd.l_encode(dab, even), call(cd.encode, dab, even)))
        ctx.count(f"{cd.name}:messages-with-all-input-lengths", n_full)

        # ---- GF(2) linearity spot checks on the real code -------------------------------------------
        for _ in range(ctx.budget(150, 3000)):
            a = bitarray([ctx.rng.randrange(2) for _ in range(cd.k)])
            b = bitarray([ctx.rng.randrange(2) for _ in range(cd.k)])
            ea, eb = ctx.rng.choice(parities), ctx.rng.choice(parities)
            try:
                d = cd.encode(a, ea) ^ cd.encode(b, eb) ^ cd.encode(a ^ b, True)
            except BaseException as ex:  # noqa
                ctx.fail("encode-raises", {"code": cd.name, "a": bs(a), "b": bs(b)}, f"encode raises {impl_error(ex)}")
                continue
            ctx.case((cd.name, "lin", bs(a), bs(b), ea, eb))
            ctx.count(f"{cd.name}:linearity")
            inp = {"code": cd.name, "a": bs(a), "b": bs(b), "even_a": ea, "even_b": eb}
            # the sum of three on-air words is again a word of the product code with zero data bits;
            # for the CRC-8 and the checksum-free code (linear checksum) it must be all-zero apart
            # from the parity row when an odd number of odd-parity words took part
            if call(cd.data, d, False) != "0" * cd.k:
                ctx.fail("linearity", inp, "data bits of enc(a)^enc(b)^enc(a^b) are not zero", "0" * cd.k, call(cd.data, d, False))
            for r in range(cd.hrows):
                row = bitarray([d[cd.cell[(r, c)]] for c in range(cd.W)])
                if call(cd.ham.check, row) != "1":
                    ctx.fail("linearity", inp, f"row {r + 1} of enc(a)^enc(b)^enc(a^b) is not a code word", "1", bs(row))
                    break
            want = (0 if ea else 1) ^ (0 if eb else 1)
            cols = [0] * cd.W
            for c in range(cd.W):
                for r in range(cd.R):
                    cols[c] ^= d[cd.cell[(r, c)]]
            if any(p != want for p in cols):
                ctx.fail("linearity", inp, "column parities of enc(a)^enc(b)^enc(a^b) break the rule", want, cols)
            if cd.name != "128":
                rows_zero = all(d[cd.cell[(r, c)]] == 0 for r in range(cd.hrows) for c in range(cd.W))
                if not rows_zero:
                    ctx.fail("linearity", inp, "encode is not GF(2)-linear on the data rows", "0", bs(d))

        # ---- model vs implementation on inputs that are not code words ------------------------------
        if do_corr:
            for L in sorted({0, 1, cd.k - 1, cd.k + 1, cd.k + cd.c - 1, cd.k + cd.c + 1, cd.n - 1, cd.n + 1, 2 * cd.n, cd.k, cd.k + cd.c, cd.n}):
                if L < 0:
                    continue
                for _ in range(ctx.budget(6, 30)):
                    w = bitarray([ctx.rng.randrange(2) for _ in range(L)])
                    for even in parities:
                        pairs.append((cd.l_encode(w, even), call(cd.encode, w, even)))
                    pairs.append((cd.l_data(w, True), call(cd.data, w, True)))
                    pairs.append((cd.l_data(w, False), call(cd.data, w, False)))
                    pairs.append((cd.l_all(w), call(cd.all, w)))
                    if cd.c:
                        pairs.append((cd.l_cs(w), call(cd.cs_extract, w)))
                    ctx.case((cd.name, "len", L, bs(w)))
                    ctx.count(f"{cd.name}:length-{'accepted' if L in (cd.k, cd.k + cd.c, cd.n) else 'rejected'}")
            for _ in range(ctx.budget(300, 5000)):
                w = bitarray([ctx.rng.randrange(2) for _ in range(cd.n)])
                for even in parities:
                    pairs.append((cd.l_encode(w, even), call(cd.encode, w, even)))
                pairs.append((cd.l_data(w, True), call(cd.data, w, True)))
                pairs.append((cd.l_all(w), call(cd.all, w)))
                if cd.c:
                    pairs.append((cd.l_cs(w), call(cd.cs_extract, w)))
                ctx.case((cd.name, "word", bs(w)))
                ctx.count(f"{cd.name}:random-on-air-words")
        # ---- set_parity: every column, oracle + correspondence --------------------------------------
        for L in range(0, cd.R + 3):
            for v in range(2**L):
                col = [int(x) for x in int2ba(v, length=L)] if L else []
                for even in parities:
                    arr = numpy.array(col, dtype=int)
                    out = call(cd.cls.set_parity, arr, even) if cd.name == "32" else call(cd.cls.set_parity, arr)
                    ctx.case((cd.name, "set_parity", L, v, even), nontrivial=v != 0)
                    ctx.count(f"{cd.name}:set_parity")
                    ok_len = (L == cd.R) or (cd.name != "32" and L == cd.R - 1)
                    inp = {"code": cd.name, "column": bs(col), "even": even}
                    if ok_len:
                        if out.startswith("ERR") or len(out) != cd.R:
                            ctx.fail("set-parity", inp, "set_parity rejects / mis-sizes a column of accepted length", cd.R, out)
                        else:
                            o = [int(ch) for ch in out]
                            if o[: cd.R - 1] != col[: cd.R - 1] or (sum(o) % 2) != (0 if even else 1):
                                ctx.fail("set-parity", inp, "set_parity output breaks the parity rule or changes data cells", None, out)
                    if do_corr:
                        line = f"vb.setparity {cd.name} {bs(col)}" + (f" {int(even)}" if cd.name == "32" else "")
                        pairs.append((line, out))
        if do_corr:
            ctx.correspond(f"VBPTC{cd.name}", pairs)

    # ---- the two checksum functions: model vs implementation -----------------------------------------
    if do_corr:
        from okdmr.dmrlib.etsi.crc.crc8 import CRC8
        from okdmr.dmrlib.etsi.fec.five_bit_checksum import FiveBitChecksum

        pairs = []
        for L in range(0, 12):
            for j in range(ctx.budget(20, 300)):
                d = bytes([255] * L) if j == 0 else bytes(ctx.rng.randrange(256) for _ in range(L))
                pairs.append((f"vb.cs5calc {d.hex() if d else '-'}", call(FiveBitChecksum.calculate, d)))
                ctx.case(("cs5", d.hex()), nontrivial=any(d))
        for L in list(range(0, 41)) + [48, 56, 64, 72, 96]:
            for _ in range(ctx.budget(8, 100)):
                b = bitarray([ctx.rng.randrange(2) for _ in range(L)])
                pairs.append((f"vb.crc8calc {bs(b)}", call(CRC8.calculate, bitarray(b))))
                ctx.case(("crc8", bs(b)), nontrivial=b.any())
        ctx.count("checksum-functions", len(pairs))
        ctx.correspond("FiveBitChecksum/CRC8", pairs)
    if ctx.thorough():
        ctx.notes.append("(32,11): all 2^11 x 2 (message, parity) pairs were evaluated on the real code (exhaustive for that class)")
    ctx.exhaustive = False


# ------------------------------------------------------------------------------------------------
def replay(obj):
    f = obj.get("failure") or {}
    inp = f.get("input", {})
    print(json.dumps(obj.get("type")), f.get("kind"), "-", f.get("what"))
    print("recorded expected:", f.get("expected"), "actual:", f.get("actual"))
    table = {c.name: c for c in classes()}
    cd = table.get(inp.get("code"))
    if cd is None:
        print("no replayable input in this file (proof / correspondence difference only)")
        for d in obj.get("correspondence_differences", [])[:5]:
            print("model/implementation difference:", d)
        return 1
    still = 0
    lines = []
    if "message" in inp:
        m = bitarray(inp["message"]) if inp["message"] != "-" else bitarray()
        even = bool(inp.get("even", True))
        e, fails = oracle(None, cd, m, even)
        print(f"implementation VBPTC{cd.name}.encode({bs(m)}{'' if cd.name != '32' else ', ' + str(even)}) = {bs(e) if e is not None else None}")
        for kind, _, what, exp, act in fails:
            print(f"  FAILS {kind}: {what}; expected {exp} actual {act}")
            still = 1
        lines.append(cd.l_encode(m, even))
        if e is not None and cd.c:
            lines.append(cd.l_cs(e))
    elif "a" in inp:
        a, b = bitarray(inp["a"]), bitarray(inp["b"])
        ea, eb = inp.get("even_a", True), inp.get("even_b", True)
        d = cd.encode(a, ea) ^ cd.encode(b, eb) ^ cd.encode(a ^ b, True)
        print("implementation enc(a)^enc(b)^enc(a^b) =", bs(d), "data bits:", call(cd.data, d, False))
        still = 1 if call(cd.data, d, False) != "0" * cd.k else 0
        for r in range(cd.hrows):
            row = bitarray([d[cd.cell[(r, c)]] for c in range(cd.W)])
            if call(cd.ham.check, row) != "1":
                still = 1
    elif "column" in inp:
        col = [int(ch) for ch in inp["column"]] if inp["column"] != "-" else []
        arr = numpy.array(col, dtype=int)
        out = call(cd.cls.set_parity, arr, inp.get("even", True)) if cd.name == "32" else call(cd.cls.set_parity, arr)
        print(f"implementation set_parity({col}) = {out}")
        still = 1 if (out.startswith("ERR") or sum(int(ch) for ch in out) % 2 != (0 if inp.get("even", True) else 1)) else 0
    exe = os.path.join(BIN, "drv_c09")
    if lines and os.path.exists(exe):
        p = subprocess.run([exe], input="\n".join(lines) + "\n", capture_output=True, text=True)
        for l, o in zip(lines, p.stdout.split("\n")):
            print("model", l.split(" ")[0], "->", o)
    print("still failing" if still else "does not fail any more")
    return still
