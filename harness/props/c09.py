"""C09 — variable-length BPTCs: embedded LC (128,72), CACH short LC (68,28), single burst (32,11).

Correspondence (model driver `drv_c09` vs. the real classes) for `encode` on every accepted input
length and on rejected lengths, `deinterleave_data_bits` (both flags), `deinterleave_all_bits`,
`deinterleave_cs5_bits` / `deinterleave_crc8_bits`, `set_parity`, `FiveBitChecksum.calculate` and
`CRC8.calculate`; the oracle evaluates the property itself on the real code (DESIGN §5 C09).

Histories (second half of this file): every entry point of the three classes and of the two checksum
functions is also called inside histories — the same argument object passed again after the caller
changed it in place, one object passed to different entry points, results kept / edited and the call
repeated, inputs a coarse cache key would confuse, other containers of the same bits — and every call is
compared with the same call made first on a new copy of the class, with what the property promises, and
(line by line, `vh.*`) with the store model of `Model/VbptcStore.lean`.
"""
import importlib
import json
import os
import subprocess
import types

import numpy
from bitarray import bitarray, frozenbitarray
from bitarray.util import int2ba

from common import BIN, impl_error

PROP = "C09"
MODULES = ["C09", "C09a", "C09b", "C09c", "C09d", "C09e", "C09h"]
GEN = ["Codes", "Vbptc"]
MATCHERS = {}


# ------------------------------------------------------------------------------------------------
def bs(b) -> str:
    s = "".join("1" if x else "0" for x in b)
    return s if s else "-"


def call(fn, *a):
    """run the real code, canonicalise result / exception"""
    try:
        r = fn(*a)
    except BaseException as e:  # noqa
        return impl_error(e)
    if isinstance(r, numpy.ndarray):
        return bs(int(x) for x in r)
    if isinstance(r, bool):
        return "1" if r else "0"
    if isinstance(r, int):
        return str(r)
    return bs(r)


class C:
    """one of the three classes with the facts the oracle needs (all read from the live class)"""

    def __init__(self, name, cls, k, c, n, ham, hrows):
        self.name, self.cls, self.k, self.c, self.n, self.ham, self.hrows = name, cls, k, c, n, ham, hrows
        ii = cls.INTERLEAVING_INDICES
        self.R = max(v[1] for v in ii.values())
        self.W = max(v[2] for v in ii.values()) + 1
        self.cell = {(v[1] - 1, v[2]): v[0] for v in ii.values()}
        self.lengths = tuple(sorted({k, k + c, n}))  # accepted encode input lengths
        self.info = dict(cls.DEINTERLEAVE_INFO_BITS_ONLY_MAP)  # message bit -> on-air position
        self.info_set = set(self.info.values())
        self.il_of_key = {key: v[0] for key, v in ii.items()}

    def message_of(self, bits: str) -> str:
        """the message an accepted encode input stands for"""
        if len(bits) == self.k:
            return bits
        if self.c and len(bits) == self.k + self.c:
            return bits[: self.k]
        # fully de-interleaved matrix: on-air bit `key` is bits[il of key], message bit i is on-air bit info[i]
        return "".join(bits[self.il_of_key[self.info[i]]] for i in range(self.k))

    # library calls (copies: never hand the implementation an object the harness still uses)
    def encode(self, bits, even=True):
        if self.name == "32":
            return self.cls.encode(bitarray(bits), even)
        return self.cls.encode(bitarray(bits))

    def data(self, e, incl):
        if self.name == "32":
            return self.cls.deinterleave_data_bits(bitarray(e))
        return self.cls.deinterleave_data_bits(bitarray(e), incl)

    def all(self, e):
        return self.cls.deinterleave_all_bits(bitarray(e))

    def cs_extract(self, e):
        if self.name == "128":
            return self.cls.deinterleave_cs5_bits(bitarray(e))
        return self.cls.deinterleave_crc8_bits(bitarray(e))

    def checksum_expected(self, m):
        """the checksum the library computes over the message, in the extractor's documented order"""
        from okdmr.dmrlib.etsi.crc.crc8 import CRC8
        from okdmr.dmrlib.etsi.fec.five_bit_checksum import FiveBitChecksum

        if self.name == "128":
            return list(int2ba(FiveBitChecksum.calculate(bitarray(m).tobytes()), length=5))
        # test_vbptc_68_36: crc8_extracted == int2ba(crc8_calculated, length=8, endian="little")
        return list(int2ba(CRC8.calculate(bitarray(m)), length=8, endian="little"))

    def checksum_msb_first(self, m):
        from okdmr.dmrlib.etsi.crc.crc8 import CRC8
        from okdmr.dmrlib.etsi.fec.five_bit_checksum import FiveBitChecksum

        if self.name == "128":
            return int2ba(FiveBitChecksum.calculate(bitarray(m).tobytes()), length=5)
        return int2ba(CRC8.calculate(bitarray(m)), length=8)

    # driver lines
    def l_encode(self, bits, even=True):
        return f"vb.encode {self.name} {bs(bits)}" + (f" {int(even)}" if self.name == "32" else "")

    def l_data(self, e, incl):
        return f"vb.data {self.name} {bs(e)}" + ("" if self.name == "32" else f" {int(incl)}")

    def l_all(self, e):
        return f"vb.all {self.name} {bs(e)}"

    def l_cs(self, e):
        return f"vb.cs {self.name} {bs(e)}"


def classes():
    from okdmr.dmrlib.etsi.fec.hamming_16_11_4 import Hamming16114
    from okdmr.dmrlib.etsi.fec.hamming_17_12_3 import Hamming17123
    from okdmr.dmrlib.etsi.fec.vbptc_128_72 import VBPTC12873
    from okdmr.dmrlib.etsi.fec.vbptc_32_11 import VBPTC3211
    from okdmr.dmrlib.etsi.fec.vbptc_68_28 import VBPTC6828

    return [
        C("128", VBPTC12873, 72, 5, 128, Hamming16114, 7),
        C("68", VBPTC6828, 28, 8, 68, Hamming17123, 3),
        C("32", VBPTC3211, 11, 0, 32, Hamming16114, 1),
    ]


# corpus: inputs that failed before a repair / captured vectors of the test-suite --------------------
# 72-bit messages whose 5-bit checksum is not a palindrome (pre-30c0989 encode stored it reversed)
CORPUS_128 = [
    "001020000c302f9b16",  # CS-5 = 22 = 10110
    "000000000000000001",  # CS-5 = 1  = 00001
    "0102030405060708ff",  # CS-5 = 12 = 01100
    "ffffffffffffffffff",  # CS-5 = 1  = 00001 (octet sum 2295)
    "00000000000000001e",  # CS-5 = 30 = 11110 (largest value)
    "0000000000000000ff",  # CS-5 = 7  = 00111
]
ONAIR_128 = [
    "00001010000000000000001100001010000101110000101000000110000001010000110000010001001000100000000000000101001000100011111100111010",
]
ONAIR_68 = [
    "00000000000010010000000000000011000000110011000010011001101000000000",
    "00110000001110010011000000110000010101011010111111110101011010101001",
    "00000000000000000000000000000000000000000000000000000000000000000000",
]


def hex_bits(h: str) -> bitarray:
    b = bitarray(endian="big")
    b.frombytes(bytes.fromhex(h))
    return b


# ------------------------------------------------------------------------------------------------
def oracle(ctx, cd: C, m: bitarray, even: bool = True):
    """the property on the real code for one message; returns (on-air bits or None, failures)"""
    inp = {"code": cd.name, "message": bs(m), "even": bool(even)}
    fails = []

    def fail(kind, what, expected=None, actual=None):
        fails.append((kind, dict(inp), what, expected, actual))

    try:
        e = cd.encode(m, even)
    except BaseException as ex:  # noqa
        fail("encode-raises", f"VBPTC{cd.name}.encode raises {impl_error(ex)} on a {len(m)}-bit message (message length of the class: {cd.k})")
        return None, fails
    if len(e) != cd.n:
        fail("encode-length", f"encode returns {len(e)} bits instead of {cd.n}", cd.n, len(e))
        return None, fails
    # extraction
    d0 = call(cd.data, e, False)
    if d0 != bs(m):
        fail("extract", "deinterleave_data_bits(encode(m)) differs from m", bs(m), d0)
    if cd.c:
        cs_exp = cd.checksum_expected(m)
        cs_got = call(cd.cs_extract, e)
        if cs_got != bs(cs_exp):
            fail("checksum-readback", "the checksum read back by the library's extractor is not the checksum it computes over the message", bs(cs_exp), cs_got)
        d1 = call(cd.data, e, True)
        if d1 != bs(m) + bs(cs_exp):
            fail("extract-with-checksum", "deinterleave_data_bits(..., include checksum) is not message ++ checksum", bs(m) + bs(cs_exp), d1)
    # transmitted matrix: rows are code words, columns obey the parity rule
    for r in range(cd.hrows):
        row = bitarray([e[cd.cell[(r, c)]] for c in range(cd.W)])
        ok = call(cd.ham.check, row)
        if ok != "1":
            fail("row-not-codeword", f"row {r + 1} of the transmitted matrix is not a {cd.ham.__name__} code word", "1", f"{ok} row={bs(row)}")
            break
    want = 0 if even else 1
    for c in range(cd.W):
        p = 0
        for r in range(cd.R):
            p ^= e[cd.cell[(r, c)]]
        if p != want:
            fail("column-parity", f"column {c} of the transmitted matrix has parity {p}, rule says {want}", want, p)
            break
    # re-encoding
    es = bs(e)
    if cd.c:
        for label, mc in (("msb-first checksum", m + cd.checksum_msb_first(m)), ("extractor output", None)):
            if mc is None:
                try:
                    mc = cd.data(e, True)
                except BaseException:  # noqa
                    continue
            r = call(cd.encode, mc, even)
            if r != es:
                fail("reencode-with-checksum", f"encode(message ++ checksum [{label}]) differs from encode(message)", es, r)
    try:
        da = cd.all(e)
        r = call(cd.encode, da, even)
    except BaseException as ex:  # noqa
        r = impl_error(ex)
    if r != es:
        fail("reencode-all", "encode(deinterleave_all_bits(encode(m))) differs from encode(m)", es, r)
    return e, fails


def record(ctx, fails):
    for kind, inp, what, exp, act in fails:
        ctx.fail(kind, inp, what, expected=exp, actual=act)


# ------------------------------------------------------------------------------------------------
def messages(ctx, cd: C, n_random: int):
    """(tag, message) — corpus, boundaries, unit words, pairs, random"""
    k = cd.k
    if cd.name == "128":
        for h in CORPUS_128:
            yield "corpus", hex_bits(h)
        for s in ONAIR_128:
            yield "corpus", cd.cls.deinterleave_data_bits(bitarray(s), False)
    if cd.name == "68":
        for s in ONAIR_68:
            yield "corpus", cd.cls.deinterleave_data_bits(bitarray(s), False)
    yield "boundary", bitarray("0" * k)
    yield "boundary", bitarray("1" * k)
    yield "boundary", bitarray(("01" * k)[:k])
    yield "boundary", bitarray(("10" * k)[:k])
    for i in range(k):
        u = bitarray("0" * k)
        u[i] = 1
        yield "unit", u
    for i in range(k):
        u = bitarray("1" * k)
        u[i] = 0
        yield "co-unit", u
    for _ in range(min(n_random, 2 * k)):
        u = bitarray("0" * k)
        for i in ctx.rng.sample(range(k), 2):
            u[i] = 1
        yield "pair", u
    if cd.name == "128":
        # octet sums around the 16-bit mask and multiples of 31 (rare branches of the checksum)
        for total in (0, 30, 31, 32, 61, 62, 255, 256, 2294, 2295):
            rest = total
            octs = []
            for _ in range(9):
                o = min(255, rest)
                octs.append(o)
                rest -= o
            ctx.rng.shuffle(octs)
            yield "checksum-boundary", hex_bits(bytes(octs).hex())
    for _ in range(n_random):
        # mixture of densities so that sparse / dense words are reached too
        p = ctx.rng.choice((0.5, 0.5, 0.5, 0.1, 0.9))
        yield "random", bitarray([1 if ctx.rng.random() < p else 0 for _ in range(k)])


# ======================================================================================================
# Histories: what was called before, and which Python object carries a value, must not matter
# (Model/VbptcStore.lean: results are new objects, every call is the history-free function of what its
# arguments hold at the time of the call, held objects are left alone).
#
# A history is a list of steps, each a tuple of tokens (the `vh.*` line of the model driver without the
# prefix, optionally followed by `?=<what the property promises for this call>`):
#   new <obj>                      the caller builds an object and keeps it            -> handle
#   encode <cls> <even> <arg>      data <cls> <incl> <arg>     all <cls> <arg>     cs <cls> <arg>
#   setparity <cls> <even> <arg>   make <cls>                  fill <cls> @t <arg>
#   cs5calc <arg>                  crc8calc <arg>                                      -> handle (result)
#   flip @k i | setall @k v | extend @k bits | clear @k | assign @k bits | put @k i v   in-place edits
#   read @k                        nop | nop+ (placeholders left by the shrinker)
# <arg> is `@k` (the held object itself) or an object literal built for the call: B: / L: bitarray in a
# big / little-endian container, F: frozenbitarray, S: list, T: tuple, A: numpy int array, O: bytearray,
# Y: bytes.
# ======================================================================================================
_MODS = {
    "128": "okdmr.dmrlib.etsi.fec.vbptc_128_72",
    "68": "okdmr.dmrlib.etsi.fec.vbptc_68_28",
    "32": "okdmr.dmrlib.etsi.fec.vbptc_32_11",
    "cs5": "okdmr.dmrlib.etsi.fec.five_bit_checksum",
    "crc8": "okdmr.dmrlib.etsi.crc.crc8",
}
_CLSNAME = {"128": "VBPTC12873", "68": "VBPTC6828", "32": "VBPTC3211", "cs5": "FiveBitChecksum", "crc8": "CRC8"}
_USES = {"128": ("cs5", "FiveBitChecksum"), "68": ("crc8", "CRC8")}  # global name each class reaches its checksum by
_CODE = {}
PUSHING = {"new", "encode", "data", "all", "cs", "setparity", "make", "fill", "cs5calc", "crc8calc", "nop+"}
EDITS = {"flip", "setall", "extend", "clear", "assign", "put"}
ARGPOS = {"encode": (3,), "data": (3,), "all": (2,), "cs": (2,), "setparity": (3,), "make": (), "fill": (2, 3),
          "cs5calc": (1,), "crc8calc": (1,)}
RESULT_KIND = {"encode": "B", "data": "B", "all": "B", "cs": "B", "setparity": "A", "make": "A", "fill": "A",
               "cs5calc": "N", "crc8calc": "N"}
PROMISE_KIND = {"encode": "reencode", "data": "extract", "cs": "checksum-readback", "setparity": "set-parity"}
PROPERTY_KINDS = {"reencode", "extract", "checksum-readback", "set-parity", "encode-length", "row-not-codeword",
                  "column-parity", "encode-raises"}
MUTABLE = (bitarray, numpy.ndarray, list, bytearray)


def real_env():
    return {n: getattr(importlib.import_module(_MODS[n]), _CLSNAME[n]) for n in _MODS}


class FreshEnv:
    """new copies of the five classes, made on demand: the module source is executed again in a module
    object of its own, so a copy has its own globals and its own class-level state and nothing was ever
    called on it (the "first call" reference of the history probes).  A class reaches its checksum
    function through a module global, which is pointed at the new copy of that function's class."""

    def __init__(self):
        self.c = {}

    def __getitem__(self, name):
        if name not in self.c:
            if name not in _CODE:
                path = importlib.import_module(_MODS[name]).__file__
                with open(path, encoding="utf-8") as fh:
                    _CODE[name] = (compile(fh.read(), path, "exec"), path)
            code, path = _CODE[name]
            mod = types.ModuleType("okdmr_c09_new_copy_" + name)
            mod.__file__ = path
            exec(code, mod.__dict__)
            if name in _USES:
                dep, glob = _USES[name]
                if glob in mod.__dict__:
                    mod.__dict__[glob] = self[dep]
            self.c[name] = getattr(mod, _CLSNAME[name])
        return self.c[name]


def endian_of(b) -> str:
    e = b.endian
    return e() if callable(e) else e


def canon(o) -> str:
    """canonical kind + content of an object the caller holds"""
    if o is None:
        return "void"
    if isinstance(o, bitarray):
        return ("L:" if endian_of(o) == "little" else "B:") + (o.to01() or "-")
    if isinstance(o, (list, tuple)):
        try:
            t = "".join("1" if int(x) == 1 else "0" if int(x) == 0 else "?" for x in o)
        except Exception:  # noqa
            return "ERR not-a-bit-sequence"
        return "S:" + (t or "-")
    if isinstance(o, numpy.ndarray):
        if o.ndim not in (1, 2):
            return "ERR shape-" + "x".join(map(str, o.shape))
        return "A:" + ("".join("0" if v == 0 else "1" if v == 1 else "?" for v in o.flatten().tolist()) or "-")
    if isinstance(o, (bytes, bytearray)):
        return "O:" + (bytes(o).hex() or "-")
    if isinstance(o, (bool, int, numpy.integer)):
        return "N:%d" % int(o) if int(o) >= 0 else "ERR negative-number"
    return "ERR returned-" + type(o).__name__


def parse_obj(tok: str):
    t, body = tok[0], tok[2:]
    body = "" if body == "-" else body
    if t == "B":
        return bitarray(body, endian="big")
    if t == "L":
        return bitarray(body, endian="little")
    if t == "F":
        return frozenbitarray(body)
    if t == "S":
        return [int(ch) for ch in body]
    if t == "T":
        return tuple(int(ch) for ch in body)
    if t == "A":
        return numpy.array([int(ch) for ch in body], dtype=int)
    if t == "O":
        return bytearray.fromhex(body)
    if t == "Y":
        return bytes.fromhex(body)
    if t == "N":
        return int(body)
    raise ValueError(tok)


def copy_obj(o):
    """an equal object of the same type (same container bit order) that shares nothing with `o`"""
    if isinstance(o, frozenbitarray):
        return frozenbitarray(o)
    if isinstance(o, bitarray):
        return bitarray(o, endian=endian_of(o))
    if isinstance(o, list):
        return list(o)
    if isinstance(o, tuple):
        return tuple(list(o))
    if isinstance(o, numpy.ndarray):
        return o.copy()
    if isinstance(o, bytearray):
        return bytearray(o)
    return o


def flag_args(tok: str):
    """`0` / `1`: the optional flag is passed; `d`: it is omitted (its default is True for all three flags)"""
    return () if tok == "d" else (tok == "1",)


def call_env(env, toks, objs):
    """one call of an entry point; (canonical result or `ERR <Class>`, result object)"""
    op = toks[0]
    try:
        if op == "cs5calc":
            r = env["cs5"].calculate(objs[0])
        elif op == "crc8calc":
            r = env["crc8"].calculate(objs[0])
        else:
            name = toks[1]
            cls = env[name]
            if op == "encode":
                r = cls.encode(objs[0], *flag_args(toks[2])) if name == "32" else cls.encode(objs[0])
            elif op == "data":
                r = cls.deinterleave_data_bits(objs[0]) if name == "32" else cls.deinterleave_data_bits(objs[0], *flag_args(toks[2]))
            elif op == "all":
                r = cls.deinterleave_all_bits(objs[0])
            elif op == "cs":
                r = cls.deinterleave_cs5_bits(objs[0]) if name == "128" else cls.deinterleave_crc8_bits(objs[0])
            elif op == "setparity":
                r = cls.set_parity(objs[0], *flag_args(toks[2])) if name == "32" else cls.set_parity(objs[0])
            elif op == "make":
                r = cls.make_encoding_table()
            elif op == "fill":
                r = cls.fill_encoding_table(objs[0], objs[1])
            else:
                raise ValueError(op)
    except BaseException as e:  # noqa
        return impl_error(e), None
    if r is None:
        return "ERR returned-None", None
    return canon(r), r


def steps_str(steps):
    return [" ".join(s) for s in steps]


def steps_parse(lines):
    return [tuple(l.split(" ")) for l in lines]


def flip_str(w: str, positions) -> str:
    b = list(w)
    for i in positions:
        b[i] = "1" if b[i] == "0" else "0"
    return "".join(b)


class Hist:
    """one history executed on the classes of `env`; with `fresh`, every call is also made first on a new
    copy of the class with equal arguments (content, type, container) and compared"""

    def __init__(self, env, cds, fresh=True):
        self.env, self.cds, self.fresh = env, cds, fresh
        self.steps, self.lines, self.bad = [], [], []
        self.held, self.exp, self.owner = [], [], []

    def _ref(self, a: str):
        k = int(a[1:])
        return self.held[k] if k < len(self.held) else None

    def _arg(self, a: str):
        return self._ref(a) if a.startswith("@") else parse_obj(a)

    def _push(self, i, obj, content):
        self.held.append(obj)
        self.exp.append(content)
        self.owner.append(i)

    def _touched(self, o):
        """the caller (or a call that writes into its argument) changed object o: every handle of it follows"""
        cur = canon(o)
        for j, h in enumerate(self.held):
            if h is o:
                self.exp[j] = cur

    def _bad(self, kind, i, what, exp, act):
        self.bad.append((kind, i, what, exp, act))

    def run(self, steps):
        for st in steps:
            self.step(st)
        return self

    def _edit(self, op, o, toks):
        if op == "flip":
            i = int(toks[2])
            if i >= (o.size if isinstance(o, numpy.ndarray) else len(o)):
                return  # guarded like the model's flipAt: nothing to invert
            if isinstance(o, bitarray):
                o.invert(i)
            elif isinstance(o, numpy.ndarray):
                o.flat[i] = 1 - int(o.flat[i])
            else:
                o[i] = 1 - int(o[i])
        elif op == "setall":
            v = int(toks[2])
            if isinstance(o, bitarray):
                o.setall(v)
            elif isinstance(o, numpy.ndarray):
                o.fill(v)
            else:
                o[:] = [v] * len(o)
        elif op in ("extend", "assign"):
            body = "" if toks[2] == "-" else toks[2]
            x = bitarray(body) if isinstance(o, bitarray) else [int(ch) for ch in body]
            if op == "extend":
                o.extend(x)
            else:
                o[:] = x
        elif op == "clear":
            o.clear()
        elif op == "put":
            if int(toks[2]) < len(o):
                o[int(toks[2])] = int(toks[3])

    def step(self, st):
        st = tuple(st)
        i = len(self.steps)
        self.steps.append(st)
        toks = list(st)
        want = want_arg = None
        if toks[-1].startswith("?="):
            # what the property promises for this call, given that the (last) argument holds `want_arg`
            want, _, want_arg = toks.pop()[2:].partition("|")
        op = toks[0]
        if op in ("nop", "nop+"):
            out = "void"
            if op == "nop+":
                self._push(i, None, None)
        elif op == "new":
            o = parse_obj(toks[1])
            out = canon(o)
            self._push(i, o, out)
        elif op == "read":
            o = self._ref(toks[1])
            out = canon(o)
        elif op in EDITS:
            o = self._ref(toks[1])
            if o is None:
                out = "void"
            else:
                out = "ok"
                try:
                    self._edit(op, o, toks)
                except Exception:  # noqa  (an object of an unexpected kind was handed out; reported by the call that returned it)
                    out = "ERR cannot-edit"
                self._touched(o)
        else:
            objs = [self._arg(toks[p]) for p in ARGPOS[op]]
            if any(o is None for o in objs):
                out = "void"
                self._push(i, None, None)
            else:
                before = [canon(o) for o in objs]
                fargs = [copy_obj(o) for o in objs]
                content, res = call_env(self.env, toks, objs)
                shared = res is not None and isinstance(res, MUTABLE)
                alias = None
                if shared:
                    for j, h in enumerate(self.held):
                        if h is res:
                            alias = j
                            break
                arg_is = [shared and res is o for o in objs]
                out = (f"=@{alias} " if alias is not None else "") + content
                name = f"{op}" + (f"[{toks[1]}]" if op not in ("cs5calc", "crc8calc") else "")
                if self.fresh:
                    ref, ref_res = call_env(FreshEnv(), toks, fargs)
                    if ref != content:
                        self._bad("history-dependent-result", i,
                                  f"{name} returns something else than the same call with equal arguments made first on a "
                                  "new copy of the class", ref, content)
                    ref_is = [ref_res is not None and isinstance(ref_res, MUTABLE) and ref_res is a for a in fargs]
                    if ref_is != arg_is:
                        self._bad("result-aliasing", i, f"{name}: whether the result is the argument object itself differs from "
                                  "the same call made first on a new copy of the class", ref_is, arg_is)
                # arguments are read only; the two designed in-place writers: fill_encoding_table returns the table
                # it was given (filled), set_parity returns the full column it was given (parity cell written)
                for p, o in enumerate(objs):
                    after = canon(o)
                    writer = p == 0 and op in ("fill", "setparity") and arg_is[0] and not content.startswith("ERR")
                    allowed = content if writer else before[p]
                    if after != allowed:
                        self._bad("argument-altered", i, f"{name} leaves its argument {p} in another state than "
                                  + ("the object it returns" if writer else "it found it"), allowed, after)
                if alias is not None and not any(arg_is):
                    self._bad("result-aliasing", i, f"{name} returns the very object that step {self.owner[alias]} "
                              f"({' '.join(self.steps[self.owner[alias]])[:60]}) handed out / the caller built", "a new object", f"@{alias}")
                for p, o in enumerate(objs):
                    if canon(o) != before[p]:
                        self._touched(o)
                if want is not None and (not want_arg or before[-1] == want_arg) and content != want:
                    self._bad(PROMISE_KIND.get(op, "wrong-result"), i,
                              f"{name} does not return what the property promises for this call", want, content)
                err = content.startswith("ERR")
                self._push(i, None if err else res, None if err else content)
                if op == "encode":
                    self._word_checks(i, toks, before[0], content)
        self.lines.append(("vh." + " ".join(toks), out))
        # every object held so far still holds what it held (unless the caller / a writing call changed it)
        for j, o in enumerate(self.held):
            if o is not None and not isinstance(o, (int, numpy.integer)):
                cur = canon(o)
                if cur != self.exp[j]:
                    self._bad("held-result-changed", i,
                              f"the object of step {self.owner[j]} ({' '.join(self.steps[self.owner[j]])[:60]}) "
                              "changed although the caller did not touch it", self.exp[j], cur)
                    self._touched(o)

    def _word_checks(self, i, toks, arg, content):
        """the property on what `encode` just returned, read off the returned bits with the class tables
        (no further call): length, message bits, Hamming rows, column parity"""
        cd = self.cds[toks[1]]
        bits = "" if arg[2:] == "-" else arg[2:]
        if arg[0] not in "BLS" or len(bits) not in cd.lengths or "?" in bits:
            return
        if arg[0] == "S" and cd.c and len(bits) != cd.n:
            return  # a list has no tobytes / is refused by ba2int: AttributeError / TypeError by design
        m = cd.message_of(bits)
        even = toks[2] != "0" if cd.name == "32" else True
        what_in = f"VBPTC{cd.name}.encode of the {len(bits)}-bit form of message {m}"
        if content.startswith("ERR"):
            self._bad("encode-raises", i, f"{what_in} raises", "on-air bits", content)
            return
        if not content.startswith("B:") or len(content) - 2 != cd.n:
            self._bad("encode-length", i, f"{what_in} does not return {cd.n} bits in a big-endian bitarray", cd.n, content[:40])
            return
        e = content[2:]
        got = "".join(e[cd.info[j]] for j in range(cd.k))
        if got != m:
            self._bad("extract", i, f"{what_in}: the data bits of the returned word are not the message", m, got)
        for r in range(cd.hrows):
            row = bitarray([int(e[cd.cell[(r, c)]]) for c in range(cd.W)])
            if call(cd.ham.check, row) != "1":
                self._bad("row-not-codeword", i, f"{what_in}: row {r + 1} of the transmitted matrix is not a code word", "1", row.to01())
                break
        want = 0 if even else 1
        for c in range(cd.W):
            p = 0
            for r in range(cd.R):
                p ^= int(e[cd.cell[(r, c)]])
            if p != want:
                self._bad("column-parity", i, f"{what_in}: column {c} of the transmitted matrix has parity {p}", want, p)
                break

    def finish(self):
        """read every held object once more (lines for the model)"""
        for k, o in enumerate(self.held):
            if o is not None:
                self.lines.append((f"vh.read @{k}", canon(o)))
        return self


def compress(steps):
    """drop the steps that do nothing (nop, steps on empty handles) and renumber the handles"""
    alive, new, out = [], {}, []
    for st in steps:
        toks = list(st)
        op = toks[0]
        refs = [int(t[1:]) for t in toks[1:] if t.startswith("@")]
        dead = op in ("nop", "nop+") or any(r >= len(alive) or not alive[r] for r in refs)
        if op in PUSHING:
            if not dead:
                new[len(alive)] = sum(alive)
            alive.append(not dead)
        if not dead:
            out.append(tuple(f"@{new[int(t[1:])]}" if t.startswith("@") else t for t in toks))
    return out


def concat(hists):
    """several histories one after the other as one history (handles renumbered)"""
    out, off = [], 0
    for steps in hists:
        for st in steps:
            out.append(tuple(f"@{int(t[1:]) + off}" if t.startswith("@") and t[1:].isdigit() else t for t in st))
        off += sum(1 for st in steps if st[0] in PUSHING)
    return out


def shrink_history(steps, fails):
    """greedy: blank one step after the other while `fails` (run on new copies of the classes) still holds"""
    steps = list(steps)
    for idx in reversed(range(len(steps) - 1)):
        if steps[idx][0] in ("nop", "nop+"):
            continue
        cand = list(steps)
        cand[idx] = ("nop+",) if steps[idx][0] in PUSHING else ("nop",)
        if fails(cand):
            steps = cand
    small = compress(steps)
    return small if fails(small) else steps


# ---- inputs a history is built from ------------------------------------------------------------------
def rbits(rng, n: int, p: float = 0.5) -> str:
    return "".join("1" if rng.random() < p else "0" for _ in range(n))


def same_value(t: str, L: int):
    """the L-bit string with the same integer value as t (None if it does not fit)"""
    if L >= len(t):
        return "0" * (L - len(t)) + t
    return t[-L:] if "1" not in t[:-L] else None


def octet_reverse(t: str) -> str:
    """bits of a little-endian container with the same tobytes() as the big-endian container of t"""
    return "".join(t[i:i + 8][::-1] for i in range(0, len(t), 8))


def message_for_history(rng, cd):
    k = cd.k
    r = rng.random()
    if r < 0.35:
        shape, m = "random", rbits(rng, k)
    elif r < 0.55:
        z = rng.choice((cd.c or 5, 8, 16)) if k > 16 else rng.choice((2, 5))
        shape, m = "leading-zeros", "0" * z + rbits(rng, k - z)
    elif r < 0.70:
        shape, m = "small-value", "0" * (k - 9) + rbits(rng, 9)
    elif r < 0.85:
        shape, m = "sparse", flip_str("0" * k, rng.sample(range(k), rng.randint(1, 3)))
    else:
        shape, m = "dense", rbits(rng, k, 0.9)
    if "1" not in m:
        m = flip_str(m, [rng.randrange(k)])
    return shape, m


class Rel:
    """a message of one class with everything related to it; reference values come from new copies of the
    classes (never from the classes under test, whose state the histories are about)"""

    def __init__(self, cd, m: str, rng, cds):
        self.cd, self.m, self.rng, self.cds = cd, m, rng, cds
        F = FreshEnv()
        cls = F[cd.name]
        self.parities = (True, False) if cd.name == "32" else (True,)
        self.cw, self.allf = {}, {}
        for p in self.parities:
            w = cls.encode(bitarray(m), p) if cd.name == "32" else cls.encode(bitarray(m))
            self.cw[p] = w.to01()
            self.allf[p] = cls.deinterleave_all_bits(bitarray(w)).to01()
        self.cs_msb = self.cs_ext = ""
        if cd.name == "128":
            self.cs_msb = self.cs_ext = int2ba(F["cs5"].calculate(bitarray(m).tobytes()), length=5).to01()
        elif cd.name == "68":
            self.cs_msb = int2ba(F["crc8"].calculate(bitarray(m)), length=8).to01()
            self.cs_ext = self.cs_msb[::-1]
        self._near_cw = None

    def near(self, m=None) -> str:
        m = m or self.m
        return flip_str(m, self.rng.sample(range(len(m)), self.rng.choice((1, 1, 2, 3))))

    def forms(self, even=True, m=None):
        """the accepted input forms of the message: (label, bits)"""
        cd = self.cd
        if m is None:
            out = [("message", self.m)]
            if cd.c:
                out.append(("message+checksum", self.m + self.cs_msb))
            out.append(("de-interleaved-matrix", self.allf[even]))
            return out
        r = Rel(cd, m, self.rng, self.cds)
        return r.forms(even if even in r.parities else True)

    def form(self, L: int, even=True, m=None) -> str:
        for _, b in self.forms(even, m):
            if len(b) == L:
                return b
        raise KeyError(L)

    def near_codeword(self, even=True) -> str:
        F = FreshEnv()
        cls = F[self.cd.name]
        m2 = bitarray(self.near())
        return (cls.encode(m2, even) if self.cd.name == "32" else cls.encode(m2)).to01()

    # -- relatives: inputs a coarse notion of "the same input as before" would confuse with t -----------
    def enc_relatives(self, t: str):
        rng, cd, n = self.rng, self.cd, len(t)
        out = []
        for L in cd.lengths:
            if L != n:
                v = same_value(t, L)
                if v is not None:
                    out.append(("same-int-other-length", "B:" + v))
                if L > n:
                    out.append(("same-prefix-longer", "B:" + t + rbits(rng, L - n)))
                    out.append(("same-suffix-longer", "B:" + rbits(rng, L - n) + t))
                else:
                    out.append(("prefix-of", "B:" + t[:L]))
                    out.append(("suffix-of", "B:" + t[-L:]))
        for s_ in (8, 16, 32):
            if s_ < n:
                out.append((f"same-low-{s_}", "B:" + rbits(rng, n - s_) + t[-s_:]))
                out.append((f"same-high-{s_}", "B:" + t[:s_] + rbits(rng, n - s_)))
        out.append(("one-bit-away", "B:" + flip_str(t, [rng.randrange(n)])))
        out.append(("near-message-same-form", "B:" + self._same_form(t)))
        out.append(("complement", "B:" + flip_str(t, range(n))))
        out.append(("reversed", "B:" + t[::-1]))
        out += self.containers(t)
        return [(lab, lit) for lab, lit in out if lit != "B:" + t]

    def _same_form(self, t: str) -> str:
        """the same input form of a message one to three bits away"""
        try:
            return self.form(len(t), True, self.near())
        except Exception:  # noqa
            return flip_str(t, [self.rng.randrange(len(t))])

    @staticmethod
    def containers(t: str):
        return [("little-endian-same-bits", "L:" + t), ("little-endian-same-int", "L:" + t[::-1]),
                ("little-endian-same-tobytes", "L:" + octet_reverse(t)), ("frozenbitarray", "F:" + t),
                ("list", "S:" + t), ("tuple", "T:" + t)]

    def air_relatives(self, w: str):
        rng, n = self.rng, len(w)
        out = [("one-error", "B:" + flip_str(w, [rng.randrange(n)])),
               ("two-errors", "B:" + flip_str(w, rng.sample(range(n), 2))),
               ("code-word-of-near-message", "B:" + self.near_codeword()),
               ("data-bits-only", "B:" + "".join(ch if j in self.cd.info_set else "0" for j, ch in enumerate(w))),
               ("complement", "B:" + flip_str(w, range(n))),
               ("reversed", "B:" + w[::-1]),
               ("one-bit-shorter", "B:" + w[:-1]), ("one-bit-longer", "B:" + w + "0"), ("same-int-longer", "B:0" + w)]
        for s_ in (8, 16, 32):
            if s_ < n:
                out.append((f"same-low-{s_}", "B:" + rbits(rng, n - s_) + w[-s_:]))
                out.append((f"same-high-{s_}", "B:" + w[:s_] + rbits(rng, n - s_)))
        out += self.containers(w)
        return [(lab, lit) for lab, lit in out if lit != "B:" + w]

    def other_class_calls(self, t: str):
        """calls on the other classes with an input of the same integer value / the same bits"""
        out = []
        for cd2 in self.cds.values():
            if cd2.name == self.cd.name:
                continue
            for L in cd2.lengths:
                v = same_value(t, L)
                if v is not None:
                    out.append(("encode", cd2.name, "1", "B:" + v))
            out.append(("encode", cd2.name, "1", "B:" + t))
            out.append(("data", cd2.name, "1" if cd2.c else "0", "B:" + t))
        return out


def canon_lit(lit: str) -> str:
    """canon() of the object a literal builds"""
    return {"F": "B", "T": "S", "Y": "O"}.get(lit[0], lit[0]) + lit[1:]


def promise(result: str, arg_lit: str) -> str:
    return "?=" + result + "|" + canon_lit(arg_lit)


class Target:
    """a call under observation: head tokens, the argument literal, what the property promises (or None),
    related argument literals [(label, literal)], and literals of other containers that the promise covers"""

    def __init__(self, name, head, arg, promise, relatives, same_promise=(), rlen=None):
        self.name, self.head, self.arg, self.promise = name, tuple(head), arg, promise
        self.relatives, self.same_promise = relatives, tuple(same_promise)
        # number of items of the result (for in-range edits of it); 0 = unknown
        self.rlen = rlen if rlen is not None else (content_len(promise) if promise else 0)

    def toks(self, arg=None, promised=True):
        """the call on `arg` (default: the literal); a held object is expected to hold the literal's content"""
        arg = arg or self.arg
        t = self.head + (arg,)
        if not promised or self.promise is None:
            return t
        return t + (promise(self.promise, self.arg if arg.startswith("@") else arg),)


def targets(rel: Rel):
    """every entry point of the class of `rel` (and the two checksum functions) on inputs tied to its message"""
    cd, rng, m = rel.cd, rel.rng, rel.m
    T = []
    for even in rel.parities:
        e01 = "1" if even else "0"
        for label, t in rel.forms(even):
            same = ["F:" + t] + (["S:" + t, "T:" + t, "L:" + t] if (cd.c == 0 or len(t) == cd.n) else [])
            T.append(Target(f"encode:{label}", ("encode", cd.name, e01), "B:" + t, "B:" + rel.cw[even],
                            rel.enc_relatives(t), same))
    if cd.name == "32":
        # the optional parity flag omitted (default: even)
        T.append(Target("encode:message:flag-omitted", ("encode", cd.name, "d"), "B:" + m, "B:" + rel.cw[True],
                        rel.enc_relatives(m), ["F:" + m, "S:" + m, "T:" + m, "L:" + m]))
    even = rng.choice(rel.parities)
    w = rel.cw[even]
    anyc = ["F:" + w, "S:" + w, "T:" + w, "L:" + w]
    if cd.name == "32":
        T.append(Target("data", ("data", cd.name, "0"), "B:" + w, "B:" + m, rel.air_relatives(w), anyc))
    else:
        T.append(Target("data:with-checksum", ("data", cd.name, rng.choice("1d")), "B:" + w, "B:" + m + rel.cs_ext, rel.air_relatives(w), anyc))
        T.append(Target("data:message-only", ("data", cd.name, "0"), "B:" + w, "B:" + m, rel.air_relatives(w), anyc))
        T.append(Target("cs", ("cs", cd.name), "B:" + w, "B:" + rel.cs_ext, rel.air_relatives(w), anyc))
    T.append(Target("all", ("all", cd.name), "B:" + w, "B:" + rel.allf[even], rel.air_relatives(w), anyc))
    # an on-air word that is not a code word: no promise, only "same answer as the first time"
    bad = flip_str(w, rng.sample(range(cd.n), rng.randint(1, 4)))
    op = rng.choice([("data", cd.name, "1" if cd.c else "0"), ("all", cd.name)] + ([("cs", cd.name)] if cd.c else []))
    T.append(Target(f"{op[0]}:corrupted-word", op, "B:" + bad, None, rel.air_relatives(bad),
                    rlen={"data": cd.k, "all": cd.n, "cs": cd.c}[op[0]]))
    # set_parity: a full column (written in place, returned itself) or one without its parity cell (copied)
    for full in (True, False):
        if not full and cd.name == "32":
            continue
        L = cd.R if full else cd.R - 1
        col = rbits(rng, L)
        pe = rng.choice(rel.parities)
        body = col[: cd.R - 1]
        par = str((body.count("1") + (0 if pe else 1)) % 2)
        rels = [("other-column", "A:" + rbits(rng, L)), ("one-bit-away", "A:" + flip_str(col, [rng.randrange(L)])),
                ("other-length", "A:" + rbits(rng, cd.R if not full else cd.R - 1)), ("too-long", "A:" + col + "0"),
                ("complement", "A:" + flip_str(col, range(L)))]
        T.append(Target("setparity:" + ("full-column" if full else "column-without-parity-cell"),
                        ("setparity", cd.name, "1" if pe else "0"), "A:" + col, "A:" + body + par, rels))
    return T


def checksum_targets(rng):
    T = []
    L = rng.choice((0, 1, 7, 8, 9, 11, 16, 27, 28, 28, 29, 32, 36, 40))
    b = rbits(rng, L)
    rels = [("same-tobytes-zero-padded", "B:" + b + "0" * j) for j in (1, (-L) % 8 or 8)]
    rels += [("same-int-longer", "B:0" + b), ("other", "B:" + rbits(rng, L)), ("empty", "B:-")]
    if L:
        rels += [("one-bit-away", "B:" + flip_str(b, [rng.randrange(L)])), ("prefix-of", "B:" + b[:-1])]
        rels += Rel.containers(b)
    T.append(Target("crc8calc", ("crc8calc",), "B:" + (b or "-"), None, [(l, x if x[2:] else x[:2] + "-") for l, x in rels],
                    ("F:" + (b or "-"),)))
    n = rng.choice((0, 1, 2, 8, 9, 9, 9))
    d = bytes(rng.randrange(256) for _ in range(n))
    if n and rng.random() < 0.3:
        d = bytes([0]) + d[1:]
    hx = lambda x: x.hex() or "-"  # noqa
    rels = [("leading-zero-octet-added", "O:" + hx(bytes([0]) + d)), ("leading-octet-dropped", "O:" + hx(d[1:])),
            ("reversed", "O:" + hx(d[::-1])), ("other", "O:" + hx(bytes(rng.randrange(256) for _ in range(n)))),
            ("ten-octets", "O:" + hx(bytes(rng.randrange(256) for _ in range(10)))), ("bytes", "Y:" + hx(d))]
    if n:
        j = rng.randrange(n)
        rels.append(("one-octet-away", "O:" + hx(d[:j] + bytes([(d[j] + rng.randrange(1, 256)) % 256]) + d[j + 1:])))
        rels.append(("plus-31", "O:" + hx(d[:j] + bytes([(d[j] + 31) % 256]) + d[j + 1:])))
    T.append(Target("cs5calc", ("cs5calc",), "O:" + hx(d), None, rels, ("Y:" + hx(d),)))
    return T


class Build:
    """steps of one history; call() returns the handle of the result"""

    def __init__(self):
        self.steps, self.n, self.kind = [], 0, {}

    def call(self, *toks):
        toks = tuple(str(t) for t in toks)
        self.steps.append(toks)
        self.kind[self.n] = toks[1][0] if toks[0] == "new" else RESULT_KIND.get(toks[0])
        self.n += 1
        return self.n - 1

    def do(self, *toks):
        self.steps.append(tuple(str(t) for t in toks))

    def edit_to(self, h, cur: str, new: str, rng):
        """in-place edits that turn the content `cur` of held object h (a literal) into the content of `new`"""
        kind, a, b = cur[0], cur[2:].replace("-", ""), new[2:].replace("-", "")
        if kind == "O":
            ba, bb = bytes.fromhex(a), bytes.fromhex(b)
            if len(ba) != len(bb):
                return False
            for j, (x, y) in enumerate(zip(ba, bb)):
                if x != y:
                    self.do("put", f"@{h}", j, y)
            return True
        diff = [j for j, (x, y) in enumerate(zip(a, b)) if x != y] if len(a) == len(b) else None
        if diff is not None and (kind == "A" or len(diff) <= 4):
            rng.shuffle(diff)
            for j in diff:
                self.do("flip", f"@{h}", j)
            return True
        if kind == "A":
            return False
        r = rng.random()
        if r < 0.5 or not b:
            self.do("assign", f"@{h}", b or "-")
        else:
            self.do("clear", f"@{h}")
            cut = rng.randrange(len(b) + 1)
            if cut:
                self.do("extend", f"@{h}", b[:cut])
            if cut < len(b):
                self.do("extend", f"@{h}", b[cut:])
        return True

    def scribble(self, h, kind, length, rng):
        """the caller edits a result he was handed"""
        if kind == "N" or kind is None:
            return
        r = rng.random()
        if kind == "A" or r < 0.45:
            if length:
                for j in rng.sample(range(length), min(length, rng.randint(1, 4))):
                    self.do("flip", f"@{h}", j)
        elif r < 0.6:
            self.do("setall", f"@{h}", rng.randrange(2))
        elif r < 0.75:
            self.do("clear", f"@{h}")
        elif r < 0.9:
            self.do("extend", f"@{h}", rbits(rng, rng.randint(1, 9)))
        else:
            self.do("assign", f"@{h}", rbits(rng, rng.randint(0, length + 3)) or "-")


MUT_KINDS = "BLSAO"


def mutable_version(lit: str) -> str:
    """the literal as an object the caller can edit in place"""
    return {"F": "B", "T": "S", "Y": "O"}.get(lit[0], lit[0]) + lit[1:]


def content_len(lit: str) -> int:
    body = lit[2:].replace("-", "")
    return len(body) // 2 if lit[0] in "OY" else len(body)


def disturb(b: Build, rel: Rel, rng, n: int):
    """other calls in between: every entry point, inputs related to the message"""
    cd = rel.cd
    even = rng.choice(rel.parities)
    e01 = "1" if even else "0"
    t = rng.choice(rel.forms(even))[1]
    w = rel.cw[even]
    for _ in range(n):
        r = rng.random()
        if r < 0.25:
            b.call("encode", cd.name, rng.choice("01d") if cd.name == "32" else "1", rng.choice(rel.enc_relatives(t))[1])
        elif r < 0.35:
            b.call(*rng.choice(rel.other_class_calls(t)))
        elif r < 0.55:
            op = rng.choice([("data", cd.name, rng.choice("01d") if cd.c else "0"), ("all", cd.name)] + ([("cs", cd.name)] if cd.c else []))
            b.call(*op, rng.choice(rel.air_relatives(w))[1])
        elif r < 0.67:
            tb = b.call("make", cd.name)
            if rng.random() < 0.5:
                b.do("setall", f"@{tb}", 1)
            b.call("fill", cd.name, f"@{tb}", "B:" + rng.choice((rel.m, rel.near(), rel.allf[even])))
        elif r < 0.77:
            b.call("setparity", cd.name, e01, "A:" + rbits(rng, rng.choice((cd.R, cd.R, max(cd.R - 1, 1)))))
        elif r < 0.87:
            b.call("crc8calc", "B:" + rng.choice((rel.m, rel.near(), w[:28])))
        else:
            d = bitarray(rng.choice((rel.m, rel.near()))).tobytes()[:9]
            b.call("cs5calc", "O:" + (d.hex() or "-"))


def scenario(g: str, b: Build, T: Target, rel, rng):
    """one history around the call T; `rel` may be None (checksum functions)"""
    head = T.head
    rels = T.relatives
    if g == "relatives-then-target":
        picks = rng.sample(rels, min(len(rels), rng.randint(1, 3)))
        key = [r for r in rels if r[0] in KEY_RELATIVES and r not in picks]
        if key:
            picks.insert(rng.randrange(len(picks) + 1), rng.choice(key))
        for _, lit in picks:
            b.call(*head, lit)
        h = b.call(*T.toks())
        if rng.random() < 0.5 and picks:
            b.call(*head, picks[0][1])
            b.call(*T.toks())
        return [lab for lab, _ in picks]
    if g == "object-passed-again-after-edit":
        cand = [(lab, mutable_version(lit)) for lab, lit in rels
                if mutable_version(lit)[0] == mutable_version(T.arg)[0] and content_len(lit) > 0]
        same = [c for c in cand if content_len(c[1]) == content_len(T.arg)]
        lab, first = rng.choice(same if same and rng.random() < 0.75 else cand or [("self", mutable_version(T.arg))])
        x = b.call("new", first)
        b.call(*head, f"@{x}")
        if rel is not None and rng.random() < 0.25:
            disturb(b, rel, rng, 1)
        tgt = mutable_version(T.arg)
        if head[0] == "setparity":
            # a full column was written in place by the call: start the edits from a known content
            b.do("setall", f"@{x}", 0)
            first = "A:" + "0" * content_len(first)
        ok = b.edit_to(x, first, tgt, rng)
        b.call(*T.toks(f"@{x}", promised=ok))
        if ok and rng.random() < 0.5:
            # and back / on to a third content, same object
            third = first if rng.random() < 0.5 else rng.choice(cand)[1] if cand else first
            if b.edit_to(x, tgt, third, rng):
                b.call(*head, f"@{x}")
                if b.edit_to(x, third, tgt, rng):
                    b.call(*T.toks(f"@{x}"))
        b.do("read", f"@{x}")
        return [lab]
    if g == "result-edited-call-repeated":
        h1 = b.call(*T.toks())
        b.scribble(h1, b.kind[h1], T.rlen, rng)
        b.call(*T.toks())
        x = b.call("new", mutable_version(T.arg))
        full_column = head[0] == "setparity" and T.rlen == content_len(T.arg)  # written in place: @x is the result
        h3 = b.call(*T.toks(f"@{x}"))
        b.scribble(h3, b.kind[h3], T.rlen, rng)
        b.call(*T.toks(f"@{x}", promised=not full_column))
        return []
    if g == "result-kept-across-other-calls":
        h1 = b.call(*T.toks())
        if rel is not None:
            disturb(b, rel, rng, rng.randint(2, 5))
        else:
            for _, lit in rng.sample(rels, min(len(rels), 3)):
                b.call(*head, lit)
        b.do("read", f"@{h1}")
        if rel is not None and head[0] == "encode":
            cd = rel.cd
            w = T.promise  # the code word
            even = head[2] != "0" if cd.name == "32" else True
            b.call("data", cd.name, "0", f"@{h1}", promise("B:" + rel.m, w))
            if cd.c:
                b.call("cs", cd.name, f"@{h1}", promise("B:" + rel.cs_ext, w))
                d = b.call("data", cd.name, "1", f"@{h1}", promise("B:" + rel.m + rel.cs_ext, w))
                # extractor output (message ++ checksum field) re-encoded
                b.call(*head, f"@{d}", promise(w, "B:" + rel.m + rel.cs_ext))
            a = b.call("all", cd.name, f"@{h1}")
            b.call(*head, f"@{a}", promise(w, "B:" + rel.allf[even]))
        b.call(*T.toks())
        return []
    if g == "other-containers":
        alts = [(lit, True) for lit in T.same_promise]
        alts += [(lit, False) for _, lit in rels if lit[0] in "LFST" and lit not in T.same_promise][:4]
        rng.shuffle(alts)
        for lit, promised in alts[:5]:
            b.call(*T.toks(lit, promised=promised))
            if rng.random() < 0.4:
                b.call(*T.toks())
        b.call(*T.toks())
        return []
    if g == "one-object-many-entry-points":
        x = b.call("new", mutable_version(T.arg))
        heads = [("crc8calc",)]
        if rel is not None:
            for cd2 in rel.cds.values():
                heads += [("encode", cd2.name, "1"), ("data", cd2.name, "1" if cd2.c else "0"), ("all", cd2.name)]
                if cd2.name == "32":
                    heads.append(("encode", "32", "0"))
                if cd2.c:
                    heads += [("cs", cd2.name), ("data", cd2.name, "0")]
        kind = mutable_version(T.arg)[0]
        if kind == "O":
            heads = [("cs5calc",)]
        elif kind == "A":
            heads = [("setparity", c, e) for c in ("128", "68", "32") for e in ("10" if c == "32" else "1")]
        rng.shuffle(heads)
        for hd in heads[: rng.randint(2, 5)]:
            b.call(*hd, f"@{x}")
        if kind == "A":
            # set_parity writes into a full column: the promise is about the column as built
            b.call(*head, f"@{x}")
        else:
            b.call(*T.toks(f"@{x}"))
            if content_len(T.arg):
                if kind == "O":
                    b.do("put", f"@{x}", rng.randrange(content_len(T.arg)), rng.randrange(256))
                else:
                    b.do("flip", f"@{x}", rng.randrange(content_len(T.arg)))
            for hd in heads[:2]:
                b.call(*hd, f"@{x}")
            b.call(*head, f"@{x}")
        b.do("read", f"@{x}")
        return []
    if g == "result-edited-then-passed-on":
        # what a call handed out is edited by the caller (bits inverted "on the air", truncated, extended) and
        # passed to the other entry points: they must read what the object holds now
        h1 = b.call(*T.toks())
        kind = b.kind[h1]
        if kind == "N":
            return []
        for j in rng.sample(range(T.rlen), min(T.rlen, rng.randint(1, 3))) if T.rlen else []:
            b.do("flip", f"@{h1}", j)
        heads = []
        if kind == "A":
            heads = [("setparity", c, "1") for c in ("128", "68", "32")]
        elif rel is not None:
            cd = rel.cd
            heads = [("data", cd.name, "0"), ("all", cd.name), ("encode", cd.name, "1"), ("crc8calc",)]
            if cd.c:
                heads += [("data", cd.name, rng.choice("1d")), ("cs", cd.name)]
            if cd.name == "32":
                heads.append(("encode", "32", "0"))
        rng.shuffle(heads)
        for hd in heads[:4]:
            b.call(*hd, f"@{h1}")
        if kind == "B" and rng.random() < 0.5:
            b.do("extend", f"@{h1}", rbits(rng, rng.choice((1, 5, 8))))
            for hd in heads[:2]:
                b.call(*hd, f"@{h1}")
        b.call(*T.toks())
        b.do("read", f"@{h1}")
        return []
    if g == "other-flag-values-then-target":
        # the optional flag (even_parity / include_cs5 / include_crc8) with its other values — passed and omitted —
        # right before the call, on the same object and on equal ones
        flags = [f for f in "01d" if f != head[2]]
        x = b.call("new", mutable_version(T.arg))
        for f in rng.sample(flags, len(flags)):
            b.call(head[0], head[1], f, rng.choice((T.arg, f"@{x}")))
        b.call(*T.toks(rng.choice((None, f"@{x}"))))
        b.call(head[0], head[1], rng.choice(flags), f"@{x}")
        b.call(*T.toks(f"@{x}"))  # (a promise is only evaluated while the object holds the content it is about)
        b.call(*T.toks())
        return []
    raise ValueError(g)


def has_flag(head) -> bool:
    return (head[0] in ("encode", "setparity") and head[1] == "32") or (head[0] == "data" and head[1] != "32")


# relatives that stand for a whole class of "looks like the same input" mistakes: one of them is always tried
KEY_RELATIVES = {"same-int-other-length", "same-prefix-longer", "same-suffix-longer", "prefix-of", "suffix-of",
                 "little-endian-same-tobytes", "little-endian-same-int", "little-endian-same-bits",
                 "same-tobytes-zero-padded", "same-int-longer", "leading-zero-octet-added", "leading-octet-dropped",
                 "code-word-of-near-message", "near-message-same-form"}
SCENARIOS = ("relatives-then-target", "object-passed-again-after-edit", "result-edited-call-repeated",
             "result-kept-across-other-calls", "other-containers", "one-object-many-entry-points",
             "result-edited-then-passed-on", "other-flag-values-then-target")


def table_history(b: Build, rel: Rel, rng):
    """make_encoding_table / fill_encoding_table: new tables, dirty tables, one table filled twice, the bits
    object edited between two fills, two tables alive at once"""
    cd = rel.cd
    even = rng.choice(rel.parities)
    inputs = ["B:" + rel.m, "B:" + rel.allf[even], "B:" + rel.near(), "S:" + rel.m, "L:" + rel.m, "F:" + rel.allf[even],
              "B:" + rel.m[:-1], "B:" + rel.m + "0", "B:" + (rel.m + rel.cs_msb if cd.c else rel.m + "00")]
    t1 = b.call("make", cd.name)
    r = rng.random()
    if r < 0.3:
        b.do("setall", f"@{t1}", 1)
    elif r < 0.6:
        for j in rng.sample(range(cd.n), 5):
            b.do("flip", f"@{t1}", j)
    b.call("fill", cd.name, f"@{t1}", rng.choice(inputs[:6]))
    t2 = b.call("make", cd.name)
    x = b.call("new", "B:" + rel.near())
    b.call("fill", cd.name, f"@{t2}", f"@{x}")
    for j in rng.sample(range(cd.k), 2):
        b.do("flip", f"@{x}", j)
    b.call("fill", cd.name, f"@{rng.choice((t1, t2))}", f"@{x}")
    b.call("fill", cd.name, f"@{t1}", rng.choice(inputs))
    if rng.random() < 0.5:
        a = b.call("fill", cd.name, f"@{t2}", "B:" + rel.m)
        b.do("flip", f"@{a}", rng.randrange(cd.n))  # the returned table is the argument: the edit shows in @t2
    b.call("encode", cd.name, "1", "B:" + rel.m, promise("B:" + rel.cw[True], "B:" + rel.m))
    b.call("make", cd.name)
    b.do("read", f"@{t1}")
    b.do("read", f"@{t2}")


def random_history(rng, rels, length):
    """random interleaving of every entry point on inputs related to the messages of `rels`, held objects
    passed again as arguments, edited in place, calls repeated"""
    b = Build()
    calls = []
    bits_handles, arr_cols, tables, octets = [], [], [], []
    while len(b.steps) < length:
        rel = rng.choice(rels)
        cd = rel.cd
        even = rng.choice(rel.parities)
        e01 = "1" if even else "0"
        k = rng.random()
        if k < 0.16:
            pool = [("B:" + t) for _, t in rel.forms(even)] + ["B:" + rel.cw[even], "B:" + rel.near(), "L:" + rel.m, "S:" + rel.m]
            h = b.call("new", rng.choice(pool))
            bits_handles.append(h)
        elif k < 0.20:
            h = b.call("new", "A:" + rbits(rng, rng.choice((cd.R, cd.R - 1))))
            arr_cols.append((h, cd))
        elif k < 0.23:
            octets.append(b.call("new", "O:" + (bytes(rng.randrange(256) for _ in range(rng.choice((2, 9, 9)))).hex())))
        elif k < 0.55:
            # a call on a literal or on a held object
            use_held = bits_handles and rng.random() < 0.6
            if use_held:
                arg = f"@{rng.choice(bits_handles)}"
            else:
                t = rng.choice(rel.forms(even))[1]
                arg = rng.choice(["B:" + t, "B:" + rel.cw[even], rng.choice(rel.enc_relatives(t))[1], rng.choice(rel.air_relatives(rel.cw[even]))[1]])
            ed = "d" if (even and rng.random() < 0.3) else e01
            ops = [("encode", cd.name, ed), ("encode", cd.name, e01), ("data", cd.name, rng.choice("01d") if cd.c else "0"), ("all", cd.name), ("crc8calc",)]
            if cd.c:
                ops.append(("cs", cd.name))
            st = rng.choice(ops) + (arg,)
            h = b.call(*st)
            calls.append(st)
            if b.kind[h] == "B":
                bits_handles.append(h)
        elif k < 0.62 and calls:
            st = rng.choice(calls)
            h = b.call(*st)
            if b.kind[h] == "B":
                bits_handles.append(h)
        elif k < 0.80 and bits_handles:
            h = rng.choice(bits_handles)
            r = rng.random()
            if r < 0.6:
                b.do("flip", f"@{h}", rng.randrange(11))
            elif r < 0.7:
                b.do("setall", f"@{h}", rng.randrange(2))
            elif r < 0.8:
                b.do("extend", f"@{h}", rbits(rng, rng.choice((1, 5, 8, cd.c or 21))))
            elif r < 0.9:
                b.do("assign", f"@{h}", rng.choice(rel.forms(even))[1])
            else:
                b.do("clear", f"@{h}")
        elif k < 0.86:
            t = b.call("make", cd.name)
            tables.append((t, cd))
            if rng.random() < 0.4:
                b.do("setall", f"@{t}", 1)
        elif k < 0.92 and tables:
            t, tcd = rng.choice(tables)
            arg = f"@{rng.choice(bits_handles)}" if bits_handles and rng.random() < 0.5 else "B:" + rng.choice((rel.m, rel.allf[even]))
            b.call("fill", tcd.name, f"@{t}", arg)
        elif k < 0.96 and arr_cols:
            h, ccd = rng.choice(arr_cols)
            b.call("setparity", ccd.name, rng.choice("01") if ccd.name == "32" else "1", f"@{h}")
            if rng.random() < 0.5:
                b.do("flip", f"@{h}", 0)
        elif octets:
            h = rng.choice(octets)
            b.call("cs5calc", f"@{h}")
            b.do("put", f"@{h}", 0, rng.randrange(256))
            b.call("cs5calc", f"@{h}")
        else:
            b.call("cs5calc", "O:" + bitarray(rel.m).tobytes()[:9].hex())
    return b.steps


class Histories:
    """runs histories on the classes under test (the long-lived ones of this process) and reports"""

    def __init__(self, ctx, cds):
        self.ctx, self.cds = ctx, cds
        self.env = real_env()
        self.lines, self.pending = [], []
        self.recent = []  # the histories run just before (what they left behind may be what makes the next one fail)

    def run(self, steps, tag, sample=False):
        ctx = self.ctx
        H = Hist(self.env, self.cds, fresh=True).run(steps)
        H.finish()
        ctx.case(("history", tuple(steps)), nontrivial=True,
                 sample={"history": steps_str(steps), "results": [o[:48] for _, o in H.lines[:len(steps)]]} if sample else None)
        ctx.count(f"hist:{tag}")
        ctx.count("hist:steps", len(steps))
        ctx.count("hist:held-objects", sum(1 for o in H.held if o is not None))
        for st in steps:
            if st[-1].startswith("?="):
                ctx.count("hist:calls-with-promised-result")
            if st[0] in ARGPOS and any(t.startswith("@") for t in st[1:]):
                ctx.count("hist:held-object-as-argument")
            if st[0] in EDITS:
                ctx.count("hist:in-place-edits")
        self.lines.append(("vh.reset", "ok"))
        self.lines += H.lines
        seen = set()
        for kind, i, what, exp, act in H.bad:
            if kind in seen:
                continue
            seen.add(kind)
            prio = 0 if kind in PROPERTY_KINDS else 1 if kind == "history-dependent-result" else 2
            self.pending.append((prio, kind, steps[: i + 1], what, exp, act, list(self.recent)))
        self.recent = (self.recent + [list(steps)])[-4:]

    def emit(self):
        """report what the histories found, failures of the property as stated first; the first few are reduced
        to a short history that fails on new copies of the classes (so that the replay, a new process, fails too)"""
        ctx = self.ctx
        self.pending.sort(key=lambda r: r[0])
        per_kind = {}
        for n, (_, kind, steps, what, exp, act, before) in enumerate(self.pending):
            per_kind[kind] = per_kind.get(kind, 0) + 1
            if per_kind[kind] > 4:
                continue

            def fails(cand, kind=kind):
                try:
                    return any(b[0] == kind for b in Hist(FreshEnv(), self.cds, fresh=True).run(cand).bad)
                except Exception:  # noqa
                    return False

            inp = {"history": steps_str(steps)}
            if n < 8:
                # alone, or after the histories that ran just before it on the same long-lived classes
                for j in range(len(before) + 1):
                    cand = concat(before[len(before) - j:] + [steps])
                    if fails(cand):
                        inp = {"history": steps_str(shrink_history(cand, fails)), "fails_on_new_copies_of_the_classes": True}
                        break
                else:
                    inp["fails_on_new_copies_of_the_classes"] = False
            ctx.fail(kind, inp, what + " (after the calls of the history)", expected=exp, actual=act)
        for kind, cnt in per_kind.items():
            ctx.count(f"hist-fail:{kind}", cnt)
        self.pending = []

    def flush(self):
        ctx = self.ctx
        if self.lines and not ctx.search_only and ctx.driver_ok:
            ctx.correspond("history", self.lines)
        self.lines = []


def run_histories(ctx, cds):
    rng = ctx.rng
    boost = min(ctx.boost, 3)  # the classes are small: a changed source is searched three times as long, not 4-8 times
    Hs = Histories(ctx, cds)
    sweeps = (8 if not ctx.thorough() else 60) * boost
    for s in range(sweeps):
        for cd in cds.values():
            rel = None
            for gi, g in enumerate(SCENARIOS):
                # every (entry point, scenario) once per sweep and class, a new message per scenario
                shape, m = message_for_history(rng, cd)
                try:
                    rel = Rel(cd, m, rng, cds)
                    T = targets(rel)
                except BaseException as ex:  # noqa  (a class that cannot even encode: reported by the plain streams)
                    ctx.count(f"hist:skipped:{cd.name}:{impl_error(ex)}")
                    continue
                ctx.count(f"hist:message:{shape}")
                for ti, tg in enumerate(T):
                    if g == "other-containers" and not tg.same_promise and tg.promise is not None:
                        continue
                    if g == "other-flag-values-then-target" and not has_flag(tg.head):
                        continue
                    b = Build()
                    labs = scenario(g, b, tg, rel, rng)
                    ctx.count(f"hist:entry:{tg.name.split(':')[0]}[{cd.name}]")
                    for lab in labs:
                        ctx.count(f"hist:relative:{lab}")
                    Hs.run(b.steps, "scenario:" + g, sample=(s == 0 and cd.name == "32" and ti == 0 and gi == 1))
            if rel is not None:
                b = Build()
                table_history(b, rel, rng)
                Hs.run(b.steps, "scenario:tables")
        for _ in range(3):
            for tg in checksum_targets(rng):
                for g in SCENARIOS[:6]:  # (the last two need a class)
                    b = Build()
                    scenario(g, b, tg, None, rng)
                    ctx.count(f"hist:entry:{tg.name}")
                    Hs.run(b.steps, "scenario:" + g)
        Hs.flush()
    n_rand = (500 if not ctx.thorough() else 6000) * boost
    for i in range(n_rand):
        cd = rng.choice(list(cds.values()))
        try:
            rels = [Rel(cd, message_for_history(rng, cd)[1], rng, cds)]
            if rng.random() < 0.4:
                rels.append(Rel(cd, rels[0].near(), rng, cds))
            if rng.random() < 0.3:
                cd2 = rng.choice(list(cds.values()))
                rels.append(Rel(cd2, message_for_history(rng, cd2)[1], rng, cds))
            steps = random_history(rng, rels, rng.randint(5, 16))
        except BaseException as ex:  # noqa
            ctx.count(f"hist:skipped:{cd.name}:{impl_error(ex)}")
            continue
        Hs.run(steps, "random-interleaving", sample=(i == 0))
        if i % 200 == 199:
            Hs.flush()
    Hs.flush()
    Hs.emit()


# ------------------------------------------------------------------------------------------------
# history / object-identity probes (harness/histories.py); the adapters of the four FEC properties live in harness/hist_fec.py
def ENTRY_POINTS():
    import hist_fec

    return hist_fec.entry_points("c09")


def run(ctx):
    import histories

    histories.run(ctx, ENTRY_POINTS)  # generic history / object-identity probes (adapters: harness/hist_fec.py)
    ctx.rule = (
        "per class: corpus (messages with non-palindromic CS-5, the captured on-air words of the test-suite), "
        "boundary words, all unit / co-unit words, random 2-bit words, checksum-boundary octet sums, random words of "
        "mixed density; (32,11): all 2^11 x 2 (message, parity) pairs in thorough, a sample in quick.  Every message "
        "goes through the property oracle on the real code (extract, checksum read-back, rows, columns, re-encodings) "
        "and through the model (all accepted encode input lengths, every extractor).  Extra streams: GF(2) linearity "
        "spot checks, rejected lengths, random non-code on-air words through the extractors, every set_parity column, "
        "FiveBitChecksum / CRC8 on random inputs.  Histories: for every entry point of the three classes and the two "
        "checksum functions (encode in every accepted input form and both parities, the four extractors, set_parity, "
        "make / fill_encoding_table, FiveBitChecksum.calculate, CRC8.calculate) x six scenarios (related inputs first — "
        "same integer value in another length class, same prefix / suffix / low / high bits, same tobytes, other "
        "container; the same argument object passed again after in-place edits; the result edited and the call "
        "repeated; the result kept across calls of every other entry point and re-read / re-used as argument; other "
        "containers: little-endian, frozenbitarray, list, tuple, bytes; one object passed to many entry points) plus "
        "table histories and random interleavings; every call is compared with the same call made first on new copies "
        "of the classes, with what the property promises, with the store model (vh.* lines), every held object is "
        "re-read after every step, results are checked for identity with held objects; at the end of the run a sample "
        "of the messages of the plain streams is encoded again and must give the first answer.  A case is non-trivial "
        "unless the message is all-zero; distinct = distinct (class, operation, input) / distinct history"
    )
    ctx.trusted_base += [
        "Lean 4.33 kernel",
        "tools/extract_vbptc.py (dumps INTERLEAVING_INDICES and the five derived maps of the three classes in dict order, and the CRC-8 configuration of CRC8.CALC) and tools/extract.py gen_codes (Hamming matrices)",
        "hand-written model Model/Vbptc.lean (encode control flow, fill/place/row/column/read-out loops, hard-coded checksum cells, FiveBitChecksum, table based CRC-8 register) tied to the code by this run's correspondence",
        "hand-written store model Model/VbptcStore.lean (which calls hand out new objects / return their argument, what a little-endian container / a list changes) tied to the code by the history lines of this run's correspondence",
        "Lemmas/VbptcPacked.lean bridging is proved, not trusted; numpy / bitarray are trusted as the substrate of the implementation",
    ]
    ctx.assumptions += [
        "the property speaks of bit strings: its promises are checked for big-endian bitarrays / frozenbitarrays (and for every 0/1 sequence where the code only subscripts); a little-endian container changes the checksum the library computes (tobytes / ba2int), which is modelled and compared but not promised",
        "the history probes compare with new copies of the five classes under test; the Hamming classes and crc.py they import are shared with the copies (C06 / C05 own them)",
        "IndexError / negative-index wrap-around inside the loops is excluded by the theorem tables_in_range on the tables extracted on this run, the model does not raise there",
    ]
    do_corr = (not ctx.search_only) and ctx.driver_ok
    cds = classes()
    first_answers = []  # (class, message, parity, on-air bits) of the plain streams, for the re-verification at the end
    for cd in cds:
        pairs = []  # (line, impl output)
        if cd.name == "32":
            if ctx.thorough() or ctx.boost > 1:
                todo = [("all", int2ba(v, length=11)) for v in range(2**11)]
            else:
                todo = list(messages(ctx, cd, ctx.budget(300, 300)))
            parities = (True, False)
        else:
            todo = list(messages(ctx, cd, ctx.budget(900, 50000)))
            parities = (True,)
        n_full = 0
        for idx, (tag, m) in enumerate(todo):
            for even in parities:
                e, fails = oracle(ctx, cd, m, even)
                record(ctx, fails)
                if e is not None and not fails:
                    first_answers.append((cd, bs(m), even, bs(e)))
                ctx.count(f"{cd.name}:{tag}")
                ctx.case((cd.name, "msg", bs(m), even), nontrivial=m.any(),
                         sample={"class": cd.name, "message": bs(m), "even": even, "on_air": bs(e) if e is not None else None}
                         if (tag == "corpus" and idx < 2) or (tag == "random" and idx % 997 == 0) else None)
                if not do_corr:
                    continue
                # model vs implementation.  Bulk random messages in thorough: the main lines for all,
                # the remaining accepted lengths / extractors for every 8th.
                full = tag != "random" or (not ctx.thorough()) or idx % 8 == 0
                pairs.append((cd.l_encode(m, even), call(cd.encode, m, even)))
                if e is None:
                    continue
                if cd.c:
                    pairs.append((cd.l_cs(e), call(cd.cs_extract, e)))
                pairs.append((cd.l_data(e, True), call(cd.data, e, True)))
                if full:
                    n_full += 1
                    if cd.c:
                        pairs.append((cd.l_data(e, False), call(cd.data, e, False)))
                        mc = m + cd.checksum_msb_first(m)
                        pairs.append((cd.l_encode(mc, even), call(cd.encode, mc, even)))
                        # message with an arbitrary trailing checksum field (recomputed by encode)
                        junk = m + bitarray([ctx.rng.randrange(2) for _ in range(cd.c)])
                        pairs.append((cd.l_encode(junk, even), call(cd.encode, junk, even)))
                    da = call(cd.all, e)
                    pairs.append((cd.l_all(e), da))
                    if not da.startswith("ERR"):
                        dab = bitarray(da)
                        pairs.append((cd.l_encode(dab, even), call(cd.encode, dab, even)))
        ctx.count(f"{cd.name}:messages-with-all-input-lengths", n_full)

        # ---- GF(2) linearity spot checks on the real code -------------------------------------------
        for _ in range(ctx.budget(150, 3000)):
            a = bitarray([ctx.rng.randrange(2) for _ in range(cd.k)])
            b = bitarray([ctx.rng.randrange(2) for _ in range(cd.k)])
            ea, eb = ctx.rng.choice(parities), ctx.rng.choice(parities)
            try:
                d = cd.encode(a, ea) ^ cd.encode(b, eb) ^ cd.encode(a ^ b, True)
            except BaseException as ex:  # noqa
                ctx.fail("encode-raises", {"code": cd.name, "a": bs(a), "b": bs(b)}, f"encode raises {impl_error(ex)}")
                continue
            ctx.case((cd.name, "lin", bs(a), bs(b), ea, eb))
            ctx.count(f"{cd.name}:linearity")
            inp = {"code": cd.name, "a": bs(a), "b": bs(b), "even_a": ea, "even_b": eb}
            # the sum of three on-air words is again a word of the product code with zero data bits;
            # for the CRC-8 and the checksum-free code (linear checksum) it must be all-zero apart
            # from the parity row when an odd number of odd-parity words took part
            if call(cd.data, d, False) != "0" * cd.k:
                ctx.fail("linearity", inp, "data bits of enc(a)^enc(b)^enc(a^b) are not zero", "0" * cd.k, call(cd.data, d, False))
            for r in range(cd.hrows):
                row = bitarray([d[cd.cell[(r, c)]] for c in range(cd.W)])
                if call(cd.ham.check, row) != "1":
                    ctx.fail("linearity", inp, f"row {r + 1} of enc(a)^enc(b)^enc(a^b) is not a code word", "1", bs(row))
                    break
            want = (0 if ea else 1) ^ (0 if eb else 1)
            cols = [0] * cd.W
            for c in range(cd.W):
                for r in range(cd.R):
                    cols[c] ^= d[cd.cell[(r, c)]]
            if any(p != want for p in cols):
                ctx.fail("linearity", inp, "column parities of enc(a)^enc(b)^enc(a^b) break the rule", want, cols)
            if cd.name != "128":
                rows_zero = all(d[cd.cell[(r, c)]] == 0 for r in range(cd.hrows) for c in range(cd.W))
                if not rows_zero:
                    ctx.fail("linearity", inp, "encode is not GF(2)-linear on the data rows", "0", bs(d))

        # ---- model vs implementation on inputs that are not code words ------------------------------
        if do_corr:
            for L in sorted({0, 1, cd.k - 1, cd.k + 1, cd.k + cd.c - 1, cd.k + cd.c + 1, cd.n - 1, cd.n + 1, 2 * cd.n, cd.k, cd.k + cd.c, cd.n}):
                if L < 0:
                    continue
                for _ in range(ctx.budget(6, 30)):
                    w = bitarray([ctx.rng.randrange(2) for _ in range(L)])
                    for even in parities:
                        pairs.append((cd.l_encode(w, even), call(cd.encode, w, even)))
                    pairs.append((cd.l_data(w, True), call(cd.data, w, True)))
                    pairs.append((cd.l_data(w, False), call(cd.data, w, False)))
                    pairs.append((cd.l_all(w), call(cd.all, w)))
                    if cd.c:
                        pairs.append((cd.l_cs(w), call(cd.cs_extract, w)))
                    ctx.case((cd.name, "len", L, bs(w)))
                    ctx.count(f"{cd.name}:length-{'accepted' if L in (cd.k, cd.k + cd.c, cd.n) else 'rejected'}")
            for _ in range(ctx.budget(300, 5000)):
                w = bitarray([ctx.rng.randrange(2) for _ in range(cd.n)])
                for even in parities:
                    pairs.append((cd.l_encode(w, even), call(cd.encode, w, even)))
                pairs.append((cd.l_data(w, True), call(cd.data, w, True)))
                pairs.append((cd.l_all(w), call(cd.all, w)))
                if cd.c:
                    pairs.append((cd.l_cs(w), call(cd.cs_extract, w)))
                ctx.case((cd.name, "word", bs(w)))
                ctx.count(f"{cd.name}:random-on-air-words")
        # ---- set_parity: every column, oracle + correspondence --------------------------------------
        for L in range(0, cd.R + 3):
            for v in range(2**L):
                col = [int(x) for x in int2ba(v, length=L)] if L else []
                for even in parities:
                    arr = numpy.array(col, dtype=int)
                    out = call(cd.cls.set_parity, arr, even) if cd.name == "32" else call(cd.cls.set_parity, arr)
                    ctx.case((cd.name, "set_parity", L, v, even), nontrivial=v != 0)
                    ctx.count(f"{cd.name}:set_parity")
                    ok_len = (L == cd.R) or (cd.name != "32" and L == cd.R - 1)
                    inp = {"code": cd.name, "column": bs(col), "even": even}
                    if ok_len:
                        if out.startswith("ERR") or len(out) != cd.R:
                            ctx.fail("set-parity", inp, "set_parity rejects / mis-sizes a column of accepted length", cd.R, out)
                        else:
                            o = [int(ch) for ch in out]
                            if o[: cd.R - 1] != col[: cd.R - 1] or (sum(o) % 2) != (0 if even else 1):
                                ctx.fail("set-parity", inp, "set_parity output breaks the parity rule or changes data cells", None, out)
                    if do_corr:
                        line = f"vb.setparity {cd.name} {bs(col)}" + (f" {int(even)}" if cd.name == "32" else "")
                        pairs.append((line, out))
        if do_corr:
            ctx.correspond(f"VBPTC{cd.name}", pairs)

    # ---- the verifying side of the two checksum functions (coverage round: FiveBitChecksum.verify and CRC8.check were never executed):
    # "the checksum read back equals the checksum computed over the message" is what verify / check decide - they must accept exactly
    # the computed value, for every value of the checksum's range
    for d, hit in checksum_verify_cases(ctx):
        ctx.count("checksum-verify:" + hit)
    # ---- the two checksum functions: model vs implementation -----------------------------------------
    if do_corr:
        from okdmr.dmrlib.etsi.crc.crc8 import CRC8
        from okdmr.dmrlib.etsi.fec.five_bit_checksum import FiveBitChecksum

        pairs = []
        for L in range(0, 12):
            for j in range(ctx.budget(20, 300)):
                d = bytes([255] * L) if j == 0 else bytes(ctx.rng.randrange(256) for _ in range(L))
                pairs.append((f"vb.cs5calc {d.hex() if d else '-'}", call(FiveBitChecksum.calculate, d)))
                ctx.case(("cs5", d.hex()), nontrivial=any(d))
        for L in list(range(0, 41)) + [48, 56, 64, 72, 96]:
            for _ in range(ctx.budget(8, 100)):
                b = bitarray([ctx.rng.randrange(2) for _ in range(L)])
                pairs.append((f"vb.crc8calc {bs(b)}", call(CRC8.calculate, bitarray(b))))
                ctx.case(("crc8", bs(b)), nontrivial=b.any())
        ctx.count("checksum-functions", len(pairs))
        ctx.correspond("FiveBitChecksum/CRC8", pairs)
    # ---- histories of calls on the long-lived classes of this process -------------------------------
    run_histories(ctx, {cd.name: cd for cd in cds})

    # ---- the first answers of this run, asked again after everything else ---------------------------
    n_again = min(len(first_answers), ctx.budget(400, 6000))
    for cd, m, even, e in (ctx.rng.sample(first_answers, n_again) if n_again else []):
        ctx.count(f"{cd.name}:asked-again-at-the-end")
        r = call(cd.encode, bitarray(m), even)
        if r != e:
            ctx.fail("answer-changed-over-run", {"code": cd.name, "message": m, "even": even, "after_calls": "the whole run"},
                     "encode(m) at the end of the run differs from encode(m) earlier in the same run", e, r)
            continue
        e2, fails = oracle(ctx, cd, bitarray(m), even)
        record(ctx, fails)
    if ctx.thorough():
        ctx.notes.append("(32,11): all 2^11 x 2 (message, parity) pairs were evaluated on the real code (exhaustive for that class)")
    ctx.exhaustive = False


# ------------------------------------------------------------------------------------------------
def replay_history(inp, f):
    """re-run a history on the real classes (this process has not called them before): every call is compared
    with the same call on new copies, with its promise, and the model's answers are printed next to it"""
    cds = {c.name: c for c in classes()}
    steps = steps_parse(inp["history"])
    H = Hist(real_env(), cds, fresh=True).run(steps)
    model = {}
    exe = os.path.join(BIN, "drv_c09")
    if os.path.exists(exe):
        lines = ["vh.reset"] + [l for l, _ in H.lines]
        p = subprocess.run([exe], input="\n".join(lines) + "\n", capture_output=True, text=True)
        model = dict(enumerate(p.stdout.split("\n")[1:]))
    for i, (st, (_, out)) in enumerate(zip(steps, H.lines)):
        print(f"step {i:2d}  {' '.join(st)[:170]}")
        print(f"         implementation -> {out}")
        if i in model:
            print(f"         model          -> {model[i]}" + ("" if model[i] == out else "      <-- differs"))
    for k, i, w, ex, ac in H.bad:
        print(f"FAILS [{k}] at step {i}: {w}")
        print(f"         expected {ex}")
        print(f"         actual   {ac}")
    if not H.bad:
        print("the history does not fail in this process")
    print("recorded:", f.get("kind"), "-", f.get("what"))
    print("expected:", f.get("expected"))
    print("actual:  ", f.get("actual"))
    return 1 if H.bad else 0


def verify_one(fn, data):
    """(calculated value, values of the checksum's whole range that verify / check accept); fn = 'cs5' (data: bytes) | 'crc8' (data: bitarray)"""
    from okdmr.dmrlib.etsi.crc.crc8 import CRC8
    from okdmr.dmrlib.etsi.fec.five_bit_checksum import FiveBitChecksum

    if fn == "cs5":
        c = call(FiveBitChecksum.calculate, data)
        acc = [v for v in range(31) if call(FiveBitChecksum.verify, data, v) != "0"]
    else:
        c = call(CRC8.calculate, bitarray(data))
        acc = [v for v in range(256) if call(CRC8.check, bitarray(data), v) != "0"]
    return c, acc


def checksum_verify_cases(ctx):
    rng = ctx.rng
    out = []
    cases = [("cs5", bytes([255] * L) if j == 0 else bytes(rng.randrange(256) for _ in range(L))) for L in range(0, 10) for j in range(ctx.budget(6, 60))]
    cases += [("crc8", bitarray([rng.randrange(2) for _ in range(L)])) for L in (0, 1, 7, 8, 9, 28, 36, 72) for _ in range(ctx.budget(3, 30))]
    for fn, d in cases:
        c, acc = verify_one(fn, d)
        txt = d.hex() if fn == "cs5" else bs(d)
        ctx.case(("checksum-verify", fn, txt), nontrivial=bool(len(d)))
        good = (not str(c).startswith("ERR")) and acc == [int(c)]
        if not good:
            ctx.fail("checksum-verify", {"mode": "checksum-verify", "fn": fn, "data": txt or "-"},
                     f"{'FiveBitChecksum.verify' if fn == 'cs5' else 'CRC8.check'} does not accept exactly the value calculate() gives", expected=[c], actual=acc[:40])
        out.append((txt, fn))
    return out


def replay(obj):
    if str((obj.get("failure") or {}).get("kind", "")).startswith("history:"):
        import histories

        return histories.replay((obj.get("failure") or {}).get("input") or {}, ENTRY_POINTS)
    f = obj.get("failure") or {}
    inp = f.get("input", {})
    print(json.dumps(obj.get("type")), f.get("kind"), "-", f.get("what"))
    print("recorded expected:", f.get("expected"), "actual:", f.get("actual"))
    if inp.get("mode") == "checksum-verify":
        d = inp["data"] if inp["data"] != "-" else ""
        c, acc = verify_one(inp["fn"], bytes.fromhex(d) if inp["fn"] == "cs5" else bitarray(d))
        print(f"implementation: calculate -> {c}; values accepted by {'verify' if inp['fn'] == 'cs5' else 'check'}: {acc[:40]}")
        still = int(str(c).startswith("ERR") or acc != [int(c)])
        print("still failing" if still else "does not fail any more")
        return still
    if "history" in inp:
        return replay_history(inp, f)
    if inp.get("after_calls"):
        print("note: this answer changed in the course of a whole run; the single call below is made first in this process")
    table = {c.name: c for c in classes()}
    cd = table.get(inp.get("code"))
    if cd is None:
        print("no replayable input in this file (proof / correspondence difference only)")
        for d in obj.get("correspondence_differences", [])[:5]:
            print("model/implementation difference:", d)
        return 1
    still = 0
    lines = []
    if "message" in inp:
        m = bitarray(inp["message"]) if inp["message"] != "-" else bitarray()
        even = bool(inp.get("even", True))
        e, fails = oracle(None, cd, m, even)
        print(f"implementation VBPTC{cd.name}.encode({bs(m)}{'' if cd.name != '32' else ', ' + str(even)}) = {bs(e) if e is not None else None}")
        for kind, _, what, exp, act in fails:
            print(f"  FAILS {kind}: {what}; expected {exp} actual {act}")
            still = 1
        lines.append(cd.l_encode(m, even))
        if e is not None and cd.c:
            lines.append(cd.l_cs(e))
    elif "a" in inp:
        a, b = bitarray(inp["a"]), bitarray(inp["b"])
        ea, eb = inp.get("even_a", True), inp.get("even_b", True)
        d = cd.encode(a, ea) ^ cd.encode(b, eb) ^ cd.encode(a ^ b, True)
        print("implementation enc(a)^enc(b)^enc(a^b) =", bs(d), "data bits:", call(cd.data, d, False))
        still = 1 if call(cd.data, d, False) != "0" * cd.k else 0
        for r in range(cd.hrows):
            row = bitarray([d[cd.cell[(r, c)]] for c in range(cd.W)])
            if call(cd.ham.check, row) != "1":
                still = 1
    elif "column" in inp:
        col = [int(ch) for ch in inp["column"]] if inp["column"] != "-" else []
        arr = numpy.array(col, dtype=int)
        out = call(cd.cls.set_parity, arr, inp.get("even", True)) if cd.name == "32" else call(cd.cls.set_parity, arr)
        print(f"implementation set_parity({col}) = {out}")
        still = 1 if (out.startswith("ERR") or sum(int(ch) for ch in out) % 2 != (0 if inp.get("even", True) else 1)) else 0
    exe = os.path.join(BIN, "drv_c09")
    if lines and os.path.exists(exe):
        p = subprocess.run([exe], input="\n".join(lines) + "\n", capture_output=True, text=True)
        for l, o in zip(lines, p.stdout.split("\n")):
            print("model", l.split(" ")[0], "->", o)
    print("still failing" if still else "does not fail any more")
    return still
