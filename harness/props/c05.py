"""C05 — DMR CRCs equal the polynomial remainder, bitwise = table mode, front ends (DESIGN §5 C05)."""
import itertools
import json

from bitarray import bitarray
from bitarray.util import ba2int, int2ba

from common import bits_str, hex_str, impl_error

PROP = "C05"
MODULES = ["C05", "C05a", "C05b", "C05t"]
GEN = ["Crc", "TranslBitsBytes"]
MATCHERS = {}
# extra files for the drift detector (the front ends' byte/bit plumbing lives here)
ANCHORS = ["okdmr/dmrlib/utils/bits_bytes.py"]

# the ETSI TS 102 361-1 generator polynomials (without the leading term), hard-coded on purpose:
# the oracle must not read them from the code under test
ETSI = {7: 0x27, 8: 0x07, 9: 0x59, 16: 0x1021, 32: 0x04C11DB7}
CFG_NAMES = {7: "crc7", 8: "crc8", 9: "crc9", 16: "crc16", 32: "crc32"}
# ETSI TS 102 361-1 B.3.12 data type CRC masks
ETSI_MASKS = {
    "PiHeader": 0x6969,
    "VoiceLCHeader": 0x969696,
    "TerminatorWithLC": 0x999999,
    "CSBK": 0xA5A5,
    "MBCHeader": 0xAAAA,
    "DataHeader": 0xCCCC,
    "UnifiedSingleBlockData": 0x3333,
    "Rate12DataContinuation": 0x0F0,
    "Rate34DataContinuation": 0x1FF,
    "Rate1DataContinuation": 0x10F,
    "ReverseChannel": 0x7A,
}


# ------------------------------------------------------------------------------------------------
# independent reference: GF(2) long division of message(x) * x^w by G(x), on Python lists
def poly_rem(bits, w):
    g = [1] + [(ETSI[w] >> (w - 1 - i)) & 1 for i in range(w)]
    d = [int(b) for b in bits] + [0] * w
    for i in range(len(bits)):
        if d[i]:
            for j in range(w + 1):
                d[i + j] ^= g[j]
    return d[len(bits):]


def rem_int(bits, w):
    v = 0
    for b in poly_rem(bits, w):
        v = (v << 1) | b
    return v


def bytes_bits(data: bytes):
    return [(b >> (7 - i)) & 1 for b in data for i in range(8)]


def ref_feed_width(w):
    if w % 8 == 0:
        return 8
    ds = [c for c in range(2, 16) if w % c == 0]
    return max(ds) if ds else 1


def ref_byteswap(data: bytes) -> bytes:
    out = bytearray(data)
    for i in range(0, len(data) - 1, 2):
        out[i], out[i + 1] = data[i + 1], data[i]
    return bytes(out)


def barg(bits) -> str:
    s = bits_str(bits)
    return s if s else "-"


def call(fn, *a, **kw):
    try:
        return fn(*a, **kw)
    except BaseException as e:  # noqa
        return impl_error(e)


def is_err(x):
    return isinstance(x, str) and x.startswith("ERR")


def out_bits(x):
    return x if is_err(x) else barg(x)


def out_int(x):
    return x if is_err(x) else str(int(x))


def out_bool(x):
    return x if is_err(x) else ("1" if x else "0")


def lib():
    from okdmr.dmrlib.etsi.crc import crc as crcmod
    from okdmr.dmrlib.etsi.crc.crc8 import CRC8
    from okdmr.dmrlib.etsi.crc.crc9 import CRC9
    from okdmr.dmrlib.etsi.crc.crc16 import CRC16
    from okdmr.dmrlib.etsi.crc.crc32 import CRC32
    from okdmr.dmrlib.etsi.layer2.elements.crc_masks import CrcMasks

    return crcmod, CRC8, CRC9, CRC16, CRC32, CrcMasks


def rand_bits(rng, n, kind="random"):
    if kind == "zeros":
        return bitarray([0] * n)
    if kind == "ones":
        return bitarray([1] * n)
    if kind == "alt":
        return bitarray([i & 1 for i in range(n)])
    v = rng.getrandbits(n) if n else 0
    return int2ba(v, length=n) if n else bitarray()


def burst_pattern(rng, n, maxlen):
    """a burst: first and last bit of a window of length 1..maxlen set, random in between"""
    ln = rng.randint(1, min(maxlen, n))
    pos = rng.randint(0, n - ln)
    e = [0] * n
    e[pos] = 1
    e[pos + ln - 1] = 1
    for i in range(pos + 1, pos + ln - 1):
        e[i] = rng.getrandbits(1)
    return bitarray(e), pos, ln


# ------------------------------------------------------------------------------------------------
def engine_cases(ctx, crcmod):
    enums = {7: crcmod.Crc7, 8: crcmod.Crc8, 9: crcmod.Crc9, 16: crcmod.Crc16, 32: crcmod.Crc32}
    maxlen = ctx.budget(120, 400)
    maxlen = min(maxlen, 1600)
    per_len = 2 if not ctx.thorough() else 3
    for w, en in enums.items():
        name = CFG_NAMES[w]
        cfg = call(lambda: en.ETSI_DMR)
        bit_calc = call(crcmod.BitCrcCalculator, cfg, False)
        tab_calc = call(crcmod.BitCrcCalculator, cfg, True)
        if is_err(cfg) or is_err(bit_calc) or is_err(tab_calc):
            ctx.fail("engine-construct", {"config": name}, f"cannot construct the {name} calculators: {cfg} {bit_calc} {tab_calc}")
            continue
        pairs_b, pairs_t, pairs_le = [], [], []
        # ---- the feed width the configuration really has
        fw = getattr(cfg.value, "feed_width_bits", None)
        if fw != ref_feed_width(w):
            ctx.fail("feed-width", {"config": name}, f"{name}: feed width is not the documented derivation", expected=ref_feed_width(w), actual=fw)

        prev = [None]

        def one(bits, tag, sample=False):
            in_b, in_t = bitarray(bits), bitarray(bits)
            rb = call(bit_calc.calculate_checksum, in_b)
            rt = call(tab_calc.calculate_checksum, in_t)
            sb, st = out_bits(rb), out_bits(rt)
            arg = barg(bits)
            if in_b != bits or in_t != bits:
                ctx.fail("input-mutated", {"component": "engine", "config": name, "bits": arg}, f"{name}.calculate_checksum altered the caller's bit buffer", expected=arg, actual=f"{barg(in_b)} / {barg(in_t)}")
            pairs_b.append((f"crc.bit {name} {arg}", sb))
            pairs_t.append((f"crc.tab {name} 0 {arg}", st))
            exp = "".join(str(x) for x in poly_rem(bits, w))
            ctx.case((name, tag, arg), nontrivial=bits.any() if len(bits) else False,
                     sample={"config": name, "bits": arg, "bitwise": sb, "table": st, "remainder": exp} if sample else None)
            ctx.count(f"engine:{name}:len%fw={'0' if len(bits) % fw == 0 else 'short-last-chunk'}")
            # the calculators are re-used objects: the message they saw before is part of the input
            inp = {"component": "engine", "config": name, "bits": arg, "previous": prev[0]}
            prev[0] = arg
            if sb != exp:
                ctx.fail("bitwise-not-remainder", inp, f"{name} bit-by-bit register differs from message(x)*x^{w} mod G", expected=exp, actual=sb)
            if st != exp:
                ctx.fail("table-not-remainder", inp, f"{name} table register differs from message(x)*x^{w} mod G (length {len(bits)}, feed width {fw})", expected=exp, actual=st)
            return rb

        for n in range(0, maxlen + 1):
            kinds = ["random"] * per_len
            if n % 7 == 0:
                kinds += ["ones", "alt"]
            if n % 16 == 0:
                kinds += ["zeros"]
            for kind in kinds:
                one(rand_bits(ctx.rng, n, kind), "len", sample=(n == 23 and kind == "random" and w == 9))
            # history: the calculators are re-used objects; the empty and a short message again after longer ones
            if n % 8 == 5:
                one(bitarray(), "empty-again")
                one(rand_bits(ctx.rng, ctx.rng.randint(1, fw if isinstance(fw, int) and fw > 0 else 8)), "short-again")
                ctx.count(f"engine:{name}:history-rechecks", 2)
            # little-endian container: correspondence of the table register only (see DESIGN §8)
            if n % 3 == ctx.seed % 3 or n < 40:
                b = rand_bits(ctx.rng, n)
                le = bitarray(b.tolist(), endian="little")
                rt = call(tab_calc.calculate_checksum, le)
                pairs_le.append((f"crc.tab {name} 1 {barg(b)}", out_bits(rt)))
                ctx.case((name, "le", barg(b)))
        # ---- a few long messages (beyond the dense range), lengths around multiples of the feed width
        for _ in range(ctx.budget(12, 60)):
            n = ctx.rng.choice([ctx.rng.randint(maxlen + 1, 2100), 8 * ctx.rng.randint(50, 260) + ctx.rng.choice([-1, 0, 1]), 9 * ctx.rng.randint(45, 230) + ctx.rng.choice([-1, 0, 1])])
            one(rand_bits(ctx.rng, n), "long")
            ctx.count(f"engine:{name}:long")
        # ---- unit vectors (with linearity they determine every CRC of that length)
        unit_lengths = list(range(1, 41)) + [48, 64, 72, 77, 80, 96, 120]
        if ctx.thorough():
            unit_lengths = list(range(1, 81)) + [87, 96, 103, 128, 144, 151, 183, 192, 196, 199, 400]
        for n in unit_lengths:
            for i in range(n):
                u = bitarray([0] * n)
                u[i] = 1
                one(u, "unit")
        ctx.count(f"engine:{name}:unit-vectors", sum(unit_lengths))
        # ---- linearity on random pairs, bursts, verify_checksum
        for _ in range(ctx.budget(150, 1500)):
            n = ctx.rng.randint(1, maxlen)
            a, b = rand_bits(ctx.rng, n), rand_bits(ctx.rng, n)
            ra = call(tab_calc.calculate_checksum, bitarray(a))
            rb = call(tab_calc.calculate_checksum, bitarray(b))
            rx = call(bit_calc.calculate_checksum, a ^ b)
            ctx.case((name, "lin", barg(a), barg(b)))
            if is_err(ra) or is_err(rb) or is_err(rx) or (ra ^ rb) != rx:
                ctx.fail("not-linear", {"component": "engine", "config": name, "a": barg(a), "b": barg(b)}, f"{name}: crc(a^b) != crc(a)^crc(b)", expected=out_bits(rx), actual=f"{out_bits(ra)} ^ {out_bits(rb)}")
        for _ in range(ctx.budget(400, 6000)):
            n = ctx.rng.randint(1, maxlen)
            a = rand_bits(ctx.rng, n, ctx.rng.choice(["random", "random", "zeros", "ones"]))
            e, pos, ln = burst_pattern(ctx.rng, n, w)
            b = a ^ e
            mode = ctx.rng.choice([bit_calc, tab_calc])
            ra, rb = call(mode.calculate_checksum, bitarray(a)), call(mode.calculate_checksum, bitarray(b))
            ctx.case((name, "burst", barg(a), pos, ln))
            ctx.count(f"engine:{name}:bursts")
            if is_err(ra) or is_err(rb) or ra == rb:
                ctx.fail("burst-undetected", {"component": "engine", "config": name, "a": barg(a), "b": barg(b), "table": mode is tab_calc},
                         f"{name}: two messages differing by a burst of length {ln} <= {w} at {pos} get the same CRC", expected="different", actual=out_bits(ra))
        pairs_v = []
        for _ in range(ctx.budget(120, 1200)):
            n = ctx.rng.randint(0, 96)
            a = rand_bits(ctx.rng, n)
            good = rem_int(a, w)
            cands = [good, good ^ (1 << ctx.rng.randrange(w)), ctx.rng.getrandbits(w), good + (1 << w), 0, -1]
            for v in cands:
                for mode, tag in ((bit_calc, "b"), (tab_calc, "t")):
                    r = call(mode.verify_checksum, bitarray(a), v)
                    pairs_v.append((f"crc.verify {name} {tag} {barg(a)} {v}", out_bool(r)))
                    ctx.case((name, "verify", tag, barg(a), v))
                    if r is not (v == good):
                        ctx.fail("verify-not-exact", {"component": "verify", "config": name, "bits": barg(a), "value": v, "table": tag == "t"},
                                 f"{name}.verify_checksum does not accept exactly the remainder", expected=(v == good), actual=str(r))
        # ---- lookup table of the table register
        tbl = call(crcmod.bits_create_lookup_table, w, ETSI[w])
        pairs_tbl = []
        if is_err(tbl):
            ctx.fail("lookup-table", {"config": name}, f"bits_create_lookup_table raised {tbl}")
        else:
            pairs_tbl.append((f"crc.tbllen {name}", str(len(tbl))))
            for idx, e in enumerate(tbl):
                pairs_tbl.append((f"crc.tbl {name} {idx}", barg(e)))
                ctx.case((name, "tbl", idx), nontrivial=idx != 0)
                exp = "".join(str(x) for x in poly_rem(int2ba(idx, length=ref_feed_width(w)), w))
                if barg(e) != exp:
                    ctx.fail("lookup-table", {"config": name, "index": idx}, f"{name}: lookup table entry is not the remainder of its index", expected=exp, actual=barg(e))
        # the table the table calculator really holds (white box, skipped if the attribute is gone)
        own = getattr(getattr(tab_calc, "_crc_register", None), "_lookup_table", None)
        if isinstance(own, list):
            pairs_tbl.append((f"crc.tbllen {name}", str(len(own))))
            for idx, e in enumerate(own):
                pairs_tbl.append((f"crc.tbl {name} {idx}", barg(e) if isinstance(e, bitarray) else repr(type(e))))
                ctx.case((name, "own-tbl", idx), nontrivial=idx != 0)
        if not ctx.search_only and ctx.driver_ok:
            ctx.correspond(f"{name}.bitwise", pairs_b)
            ctx.correspond(f"{name}.table", pairs_t)
            ctx.correspond(f"{name}.table-little-endian-container", pairs_le)
            ctx.correspond(f"{name}.verify", pairs_v)
            ctx.correspond(f"{name}.lookup-table", pairs_tbl)


def feed_width_cases(ctx, crcmod):
    pairs = []
    for w in range(1, 130):
        c = call(crcmod.BitCrcConfiguration, polynomial=1, width_bits=w)
        fw = c if is_err(c) else str(c.feed_width_bits)
        pairs.append((f"crc.fw {w}", fw))
        ctx.case(("fw", w))
        if fw != str(ref_feed_width(w)):
            ctx.fail("feed-width", {"component": "feed-width", "width": w}, "calc_feed_width_bits is not '8 for whole octets, else the largest divisor 2..15, else 1'", expected=ref_feed_width(w), actual=fw)
    got = [int(p[1]) if not is_err(p[1]) else p[1] for p in pairs if int(p[0].split()[1]) in (7, 8, 9, 16, 32)]
    if got != [7, 8, 9, 8, 8]:
        ctx.fail("feed-width", {"component": "feed-width"}, "feed widths of the five ETSI widths", expected=[7, 8, 9, 8, 8], actual=got)
    if not ctx.search_only and ctx.driver_ok:
        ctx.correspond("feed-width", pairs)


def mask_cases(ctx, CrcMasks):
    got = {m.name: m.value for m in CrcMasks}
    ctx.case(("masks",))
    if got != ETSI_MASKS:
        diff = {k: (ETSI_MASKS.get(k), got.get(k)) for k in set(got) | set(ETSI_MASKS) if got.get(k) != ETSI_MASKS.get(k)}
        ctx.fail("mask-table", {"component": "masks", "difference": {k: list(v) for k, v in diff.items()}}, "CrcMasks differs from ETSI TS 102 361-1 B.3.12", expected=ETSI_MASKS, actual=got)


def front_cases(ctx, CRC8, CRC9, CRC16, CRC32, CrcMasks):
    masks = list(CrcMasks)
    rng = ctx.rng
    # ------------------------------------------------------------------ CRC-8
    pairs = []
    for i in range(ctx.budget(300, 3000)):
        n = i % 81 if i < 162 else rng.randint(0, 140)
        a = rand_bits(rng, n)
        le = i % 5 == 4
        data = bitarray(a.tolist(), endian="little") if le else bitarray(a)
        r = call(CRC8.calculate, data)
        if data.tolist() != a.tolist():
            ctx.fail("input-mutated", {"component": "crc8", "bits": barg(a)}, "CRC8.calculate altered the caller's bit buffer", expected=barg(a), actual=barg(data))
        pairs.append((f"crc8 {int(le)} {barg(a)}", out_int(r)))
        ctx.case(("crc8", le, barg(a)))
        ctx.count("front:crc8")
        good = rem_int(a, 8)
        if not le and r != good:
            ctx.fail("crc8-front", {"component": "crc8", "bits": barg(a)}, "CRC8.calculate is not the plain remainder modulo x^8+x^2+x+1", expected=good, actual=out_int(r))
        if not le:
            for v in (good, good ^ (1 << rng.randrange(8)), 256 + good, -1, rng.randrange(256), 0, 255, 256):
                c = call(CRC8.check, bitarray(a), v)
                pairs.append((f"crc8.check 0 {barg(a)} {v}", out_bool(c)))
                ctx.case(("crc8.check", barg(a), v))
                exp = "ERR AssertionError" if not (0 <= v <= 255) else (v == good)
                if c != exp:
                    ctx.fail("crc8-check", {"component": "crc8.check", "bits": barg(a), "value": v}, "CRC8.check does not accept exactly the computed value", expected=str(exp), actual=str(c))
    if not ctx.search_only and ctx.driver_ok:
        ctx.correspond("CRC8", pairs)
    # ------------------------------------------------------------------ CRC-CCITT
    pairs = []
    for i in range(ctx.budget(330, 4000)):
        n = i % 33 if i < 99 else rng.choice([0, 1, 2, 9, 10, 10, 10, 12, rng.randint(0, 48)])
        d = bytes(rng.getrandbits(8) for _ in range(n))
        for m in (masks if i % 4 == 0 else [masks[i % len(masks)]]):
            r = call(CRC16.calculate, d, m)
            pairs.append((f"crc16 {hex_str(d)} {m.value}", out_int(r)))
            ctx.case(("crc16", d, m.name), sample={"front": "CRC16", "data": hex_str(d), "mask": m.name, "out": out_int(r)} if i == 10 else None)
            ctx.count("front:crc16")
            good = (rem_int(bytes_bits(d), 16) ^ 0xFFFF) ^ ETSI_MASKS.get(m.name, m.value)
            if r != good:
                ctx.fail("crc16-front", {"component": "crc16", "data": hex_str(d), "mask": m.name}, "CRC16.calculate is not (inverted remainder) xor mask", expected=good, actual=out_int(r))
            if good <= 0xFFFF:
                for v in (good, good ^ (1 << rng.randrange(16)), 0x10000 | good, -1, 0, 0xFFFF, 0x10000):
                    c = call(CRC16.check, d, v, m)
                    pairs.append((f"crc16.check {hex_str(d)} {v} {m.value}", out_bool(c)))
                    ctx.case(("crc16.check", d, v, m.name))
                    exp = "ERR AssertionError" if not (0 <= v <= 0xFFFF) else (v == good)
                    if c != exp:
                        ctx.fail("crc16-check", {"component": "crc16.check", "data": hex_str(d), "value": v, "mask": m.name}, "CRC16.check does not accept exactly the computed value", expected=str(exp), actual=str(c))
    if not ctx.search_only and ctx.driver_ok:
        ctx.correspond("CRC16", pairs)
    # ------------------------------------------------------------------ CRC-9
    pairs = []
    sns = list(range(128))
    for i in range(ctx.budget(40, 400)):
        n = rng.choice([10, 16, 22, 10, 16, 22, 0, 1, rng.randint(0, 30)])
        d = bytes(rng.getrandbits(8) for _ in range(n))
        m = masks[i % len(masks)] if i % 3 else rng.choice([CrcMasks.Rate12DataContinuation, CrcMasks.Rate34DataContinuation, CrcMasks.Rate1DataContinuation])
        c32v = rng.choice([rng.getrandbits(32), rng.getrandbits(32), 1, 255, 256, rng.getrandbits(24), (1 << 24) - 1, 1 << 31, (1 << 32) - 1, rng.getrandbits(8) << 24]) or 1
        variants = [
            ("none", None, []),
            ("i:0", 0, []),
            (f"i:{c32v}", c32v, bytes_bits(c32v.to_bytes(4, "big"))),
            ("b:" + c32v.to_bytes(4, "big").hex(), c32v.to_bytes(4, "big"), bytes_bits(c32v.to_bytes(4, "big"))),
            ("b:00000000", bytes(4), [0] * 32),
        ]
        # every serial number for one variant, a few for the others
        full = i % len(variants)
        for vi, (tag, arg, extra) in enumerate(variants):
            for sn in (sns if vi == full else rng.sample(sns, 6) + [0, 127]):
                r = call(CRC9.calculate_from_parts, d, sn, m, arg)
                pairs.append((f"crc9 {hex_str(d)} {sn} {m.value} {tag}", out_int(r)))
                ctx.case(("crc9", d, sn, m.name, tag), sample={"front": "CRC9", "data": hex_str(d), "serial": sn, "mask": m.name, "crc32": tag, "out": out_int(r)} if (i, sn, vi) == (1, 5, 2) else None)
                ctx.count(f"front:crc9:{'with' if extra else 'without'}-crc32")
                src = bytes_bits(d) + extra + [(sn >> (6 - k)) & 1 for k in range(7)]
                good = (rem_int(src, 9) ^ 0x1FF) ^ ETSI_MASKS.get(m.name, m.value)
                if r != good:
                    ctx.fail("crc9-front", {"component": "crc9", "data": hex_str(d), "serial": sn, "mask": m.name, "crc32": tag},
                             "CRC9.calculate_from_parts is not (inverted remainder of data|crc32|dbsn) xor mask", expected=good, actual=out_int(r))
                if sn % 16 == 3:
                    for v in (good, good ^ (1 << rng.randrange(9)), 512 + (good & 511), -1, 0, 511, 512):
                        c = call(CRC9.check, d, sn, v, m, arg)
                        pairs.append((f"crc9.check {hex_str(d)} {sn} {v} {m.value} {tag}", out_bool(c)))
                        ctx.case(("crc9.check", d, sn, v, m.name, tag))
                        exp = "ERR AssertionError" if v > 511 else (v == good)
                        if c != exp:
                            ctx.fail("crc9-check", {"component": "crc9.check", "data": hex_str(d), "serial": sn, "value": v, "mask": m.name, "crc32": tag}, "CRC9.check does not accept exactly the computed value", expected=str(exp), actual=str(c))
        # malformed arguments: the model must reject what the code rejects
        for sn, tag, arg in ((128, "none", None), (-1, "none", None), (3, "i:-5", -5), (3, f"i:{2**32}", 2**32), (3, "b:010203", b"\1\2\3"), (3, "b:0102030405", b"\1\2\3\4\5")):
            r = call(CRC9.calculate_from_parts, d, sn, m, arg)
            pairs.append((f"crc9 {hex_str(d)} {sn} {m.value} {tag}", out_int(r)))
            ctx.case(("crc9-bad", d, sn, tag))
    # CRC9.calculate on raw bit strings (lengths that are not multiples of the 9-bit feed)
    for i in range(ctx.budget(200, 2000)):
        n = i % 100 if i < 200 else rng.randint(0, 260)
        a = rand_bits(rng, n)
        m = masks[i % len(masks)]
        r = call(CRC9.calculate, bitarray(a), m)
        pairs.append((f"crc9.bits 0 {barg(a)} {m.value}", out_int(r)))
        ctx.case(("crc9.bits", barg(a), m.name))
        good = (rem_int(a, 9) ^ 0x1FF) ^ ETSI_MASKS.get(m.name, m.value)
        if r != good:
            ctx.fail("crc9-front", {"component": "crc9.bits", "bits": barg(a), "mask": m.name}, "CRC9.calculate is not (inverted remainder) xor mask", expected=good, actual=out_int(r))
    if not ctx.search_only and ctx.driver_ok:
        ctx.correspond("CRC9", pairs)
    # ------------------------------------------------------------------ CRC-32
    pairs = []
    for i in range(ctx.budget(300, 4000)):
        n = i % 66 if i < 132 else rng.randint(0, 200)
        d = bytes(rng.getrandbits(8) for _ in range(n))
        r = call(CRC32.calculate, d)
        pairs.append((f"crc32 {hex_str(d)}", out_int(r)))
        ctx.case(("crc32", d), sample={"front": "CRC32", "data": hex_str(d), "out": out_int(r)} if i == 7 else None)
        ctx.count(f"front:crc32:{'odd' if n % 2 else 'even'}-length")
        good = rem_int(bytes_bits(ref_byteswap(d)), 32)
        if r != good:
            ctx.fail("crc32-front", {"component": "crc32", "data": hex_str(d)}, "CRC32.calculate is not the remainder over the pairwise swapped octets, MSB first", expected=good, actual=out_int(r))
        if i % 3 == 0:
            for v in (good, good ^ (1 << rng.randrange(32)), (1 << 32) | good, -1, 0, 0xFFFFFFFF, 1 << 32):
                c = call(CRC32.check, d, v)
                pairs.append((f"crc32.check {hex_str(d)} {v}", out_bool(c)))
                ctx.case(("crc32.check", d, v))
                exp = "ERR AssertionError" if not (0 <= v <= 0xFFFFFFFF) else (v == good)
                if c != exp:
                    ctx.fail("crc32-check", {"component": "crc32.check", "data": hex_str(d), "value": v}, "CRC32.check does not accept exactly the computed value", expected=str(exp), actual=str(c))
    if not ctx.search_only and ctx.driver_ok:
        ctx.correspond("CRC32", pairs)


def detection_cases(ctx, CRC8, CRC9, CRC16, CRC32, CrcMasks):
    """consequences on the front ends: bursts <= width, and 1..3 bit differences for CRC-CCITT on the
    80 data bits of a 96-bit PDU (message level) and on the whole 96-bit code word"""
    rng = ctx.rng
    masks16 = [CrcMasks.CSBK, CrcMasks.DataHeader, CrcMasks.PiHeader, CrcMasks.MBCHeader, CrcMasks.UnifiedSingleBlockData]

    def crc16_of(bits80, m):
        return call(CRC16.calculate, bitarray(bits80).tobytes(), m)

    # --- message level: all singles and doubles, triples sampled (thorough: all) on a random message
    base = rand_bits(rng, 80)
    positions = list(range(80))
    patterns = [(i,) for i in positions] + list(itertools.combinations(positions, 2))
    triples = list(itertools.combinations(positions, 3))
    if ctx.thorough():
        patterns += triples
    else:
        patterns += rng.sample(triples, ctx.budget(3000, 3000))
    m = rng.choice(masks16)
    c0 = crc16_of(base, m)
    for pat in patterns:
        b = bitarray(base)
        for p in pat:
            b.invert(p)
        c1 = crc16_of(b, m)
        ctx.case(("ccitt-msg", pat))
        ctx.count(f"detect:ccitt-message-weight-{len(pat)}")
        if is_err(c0) or is_err(c1) or c0 == c1:
            ctx.fail("ccitt-le3-undetected", {"component": "ccitt-message", "a": barg(base), "positions": list(pat), "mask": m.name},
                     f"80-bit messages differing in {len(pat)} bits get the same CRC-CCITT", expected="different", actual=out_int(c0))
    # --- code word level (what C04 needs): data|crc of a library-made check sum, error over all 96 bits
    for _ in range(ctx.budget(3, 12)):
        base = rand_bits(rng, 80)
        m = rng.choice(masks16)
        c0 = crc16_of(base, m)
        if is_err(c0):
            ctx.fail("ccitt-le3-undetected", {"component": "ccitt-codeword", "a": barg(base), "mask": m.name}, f"CRC16.calculate raised {c0}")
            continue
        word = base + int2ba(c0 & 0xFFFF, length=16)
        pos96 = list(range(96))
        pats = [(i,) for i in pos96] + list(itertools.combinations(pos96, 2)) + rng.sample(list(itertools.combinations(pos96, 3)), ctx.budget(2500, 30000))
        for pat in pats:
            wv = bitarray(word)
            for p in pat:
                wv.invert(p)
            ok = call(CRC16.check, wv[:80].tobytes(), ba2int(wv[80:]), m)
            ctx.case(("ccitt-cw", barg(base), pat))
            ctx.count(f"detect:ccitt-codeword-weight-{len(pat)}")
            if ok is not False:
                ctx.fail("ccitt-le3-undetected", {"component": "ccitt-codeword", "a": barg(base), "positions": list(pat), "mask": m.name},
                         f"a 96-bit CCITT code word with {len(pat)} inverted bits is accepted", expected=False, actual=str(ok))
    # --- bursts on the front ends
    for _ in range(ctx.budget(300, 5000)):
        which = rng.choice(["crc8", "crc16", "crc9", "crc32"])
        if which == "crc8":
            n = rng.randint(1, 72)
            a = rand_bits(rng, n)
            e, pos, ln = burst_pattern(rng, n, 8)
            r0, r1 = call(CRC8.calculate, bitarray(a)), call(CRC8.calculate, a ^ e)
            inp = {"component": "burst-crc8", "a": barg(a), "b": barg(a ^ e)}
        elif which == "crc16":
            nb = rng.randint(1, 24)
            a = rand_bits(rng, 8 * nb)
            e, pos, ln = burst_pattern(rng, 8 * nb, 16)
            m = rng.choice(masks16)
            r0, r1 = call(CRC16.calculate, a.tobytes(), m), call(CRC16.calculate, (a ^ e).tobytes(), m)
            inp = {"component": "burst-crc16", "a": a.tobytes().hex(), "b": (a ^ e).tobytes().hex(), "mask": m.name}
        elif which == "crc9":
            nb = rng.choice([10, 16, 22])
            a = rand_bits(rng, 8 * nb + 7)
            e, pos, ln = burst_pattern(rng, 8 * nb + 7, 9)
            b = a ^ e
            m = rng.choice([CrcMasks.Rate12DataContinuation, CrcMasks.Rate34DataContinuation, CrcMasks.Rate1DataContinuation])
            r0 = call(CRC9.calculate_from_parts, a[: 8 * nb].tobytes(), ba2int(a[8 * nb:]), m)
            r1 = call(CRC9.calculate_from_parts, b[: 8 * nb].tobytes(), ba2int(b[8 * nb:]), m)
            inp = {"component": "burst-crc9", "a": barg(a), "b": barg(b), "mask": m.name}
        else:
            nb = rng.randint(1, 40)
            a = rand_bits(rng, 8 * nb)
            # a burst in the order in which the octets are fed to the register (after the pairwise swap)
            e, pos, ln = burst_pattern(rng, 8 * nb, 32)
            da, db = ref_byteswap(a.tobytes()), ref_byteswap((a ^ e).tobytes())
            r0, r1 = call(CRC32.calculate, da), call(CRC32.calculate, db)
            inp = {"component": "burst-crc32", "a": da.hex(), "b": db.hex()}
        ctx.case(("burst", which, json.dumps(inp, sort_keys=True)))
        ctx.count(f"detect:burst-{which}")
        if is_err(r0) or is_err(r1) or r0 == r1:
            ctx.fail("burst-undetected", inp, f"{which}: inputs differing by a burst of length {ln} get the same check sum", expected="different", actual=out_int(r0))


def singleton_state_cases(ctx, CRC8, CRC9, CRC16, CRC32, CrcMasks):
    """the calculators are class-level singletons with a mutable register: interleaved calls (and calls
    that raise in between) must not influence each other"""
    rng = ctx.rng
    for _ in range(ctx.budget(60, 600)):
        d1 = bytes(rng.getrandbits(8) for _ in range(rng.randint(0, 20)))
        d2 = bytes(rng.getrandbits(8) for _ in range(rng.randint(0, 20)))
        first = call(CRC16.calculate, d1, CrcMasks.CSBK)
        call(CRC16.calculate, d2, CrcMasks.DataHeader)
        call(CRC9.calculate_from_parts, d2, 300, CrcMasks.CSBK)  # raises OverflowError before the calculation
        call(CRC32.calculate, d2)
        call(CRC8.calculate, bitarray([1] * rng.randint(0, 30)))
        again = call(CRC16.calculate, d1, CrcMasks.CSBK)
        ctx.case(("state", d1, d2))
        ctx.count("state:interleaved-calls")
        if first != again:
            ctx.fail("singleton-state", {"component": "state", "d1": hex_str(d1), "d2": hex_str(d2)}, "CRC16.calculate depends on earlier calls", expected=out_int(first), actual=out_int(again))


# ------------------------------------------------------------------------------------------------
# structured algebraic inputs: the CRC is affine in the message, so for any choice of >= w "free" bit
# positions (a contiguous window always works, x^k being invertible modulo G) the remaining bits can be
# completed to a message whose remainder is a CHOSEN value.  The solver below works on Python ints; every
# message it constructs is re-checked with the list-based long division `poly_rem` before it is used, and
# the oracle's expectation is always computed by `poly_rem` / `rem_int`, never taken from the solver.
_POW = {}


def _pow_table(w, upto):
    """x^(k+w) mod G for k = 0..upto, as ints"""
    t = _POW.setdefault(w, [ETSI[w]])
    g = ETSI[w] | (1 << w)
    while len(t) <= upto:
        v = t[-1] << 1
        if v >> w:
            v ^= g
        t.append(v)
    return t


def _fast_rem(bits, w):
    t = _pow_table(w, max(len(bits), 1))
    n = len(bits)
    r = 0
    for i, b in enumerate(bits):
        if b:
            r ^= t[n - 1 - i]
    return r


def gf2_solve(cols, target):
    """a 0/1 list x with xor of cols[i] over x[i] = 1 equal to target, or None"""
    basis = {}
    for i, c in enumerate(cols):
        v, m = c, 1 << i
        while v:
            hb = v.bit_length() - 1
            if hb in basis:
                v ^= basis[hb][0]
                m ^= basis[hb][1]
            else:
                basis[hb] = (v, m)
                break
    v, m = target, 0
    while v:
        hb = v.bit_length() - 1
        if hb not in basis:
            return None
        v ^= basis[hb][0]
        m ^= basis[hb][1]
    return [(m >> i) & 1 for i in range(len(cols))]


def force_rem(bits, free, w, target):
    """bits (0/1 list) with the positions in `free` re-chosen such that message(x)*x^w mod G == target;
    None if the free positions do not span the difference.  Verified with the reference division."""
    n = len(bits)
    t = _pow_table(w, n)
    delta = _fast_rem(bits, w) ^ target
    x = gf2_solve([t[n - 1 - p] for p in free], delta)
    if x is None:
        return None
    out = list(bits)
    for p, xi in zip(free, x):
        out[p] ^= xi
    if rem_int(out, w) != target:  # the construction itself went wrong: never use such an input
        raise AssertionError("harness: force_rem produced a message with another remainder")
    return out


def free_positions(rng, n, w, where=None):
    """>= w positions out of 0..n-1 (n >= w): the last w, the first w, a random window, or w + 6 scattered"""
    where = where or rng.choice(["tail", "tail", "head", "window", "window", "scattered"])
    if where == "tail":
        return list(range(n - w, n)), where
    if where == "head":
        return list(range(w)), where
    if where == "window" or n < w + 6:
        s = rng.randint(0, n - w)
        return list(range(s, s + w)), "window"
    return sorted(rng.sample(range(n), min(n, w + 6))), where


def special_values(w, rng, extra=()):
    """the check-sum values a careless special case is most likely to single out"""
    full = (1 << w) - 1
    vals = [0, full, 1, 1 << (w - 1), full >> 1, full ^ 1, 0x55555555 & full, 0xAAAAAAAA & full]
    vals += [1 << k for k in range(w)]
    vals += [full ^ (1 << k) for k in rng.sample(range(w), min(w, 4))]
    if w > 8:
        vals += [rng.randrange(1, 256), rng.randrange(1, 256) << (w - 8), 0xFF, full ^ 0xFF]
    if w > 16:
        vals += [rng.randrange(1, 1 << 16), rng.randrange(1, 1 << 24), 0x7FFFFFFF & full, 0xFFFF, 0xFFFF0000 & full]
    vals += [v & full for v in extra]
    seen, out = set(), []
    for v in vals:
        if v not in seen:
            seen.add(v)
            out.append(v)
    return out


def base_bits(rng, n):
    kind = rng.choice(["random", "random", "random", "zeros", "ones", "sparse"])
    if kind == "zeros":
        return [0] * n
    if kind == "ones":
        return [1] * n
    if kind == "sparse":
        b = [0] * n
        for _ in range(rng.randint(1, 3)):
            if n:
                b[rng.randrange(n)] = 1
        return b
    return [rng.getrandbits(1) for _ in range(n)]


def bits_bytes(bits) -> bytes:
    assert len(bits) % 8 == 0
    return bytes(int("".join(str(b) for b in bits[i:i + 8]), 2) for i in range(0, len(bits), 8))


def wbits(v, w):
    return "".join(str((v >> (w - 1 - i)) & 1) for i in range(w))


def pick(rng, vals, k, must=()):
    """the first four (0, all-ones, 1, top bit) and `must` always, the rest sampled"""
    head = vals[:4] + [v for v in dict.fromkeys(must) if v not in vals[:4]]
    rest = [v for v in vals[4:] if v not in head]
    return head + rng.sample(rest, min(len(rest), max(0, k - len(head))))


def structured_engine_cases(ctx, crcmod):
    """raw engines on messages constructed to have a chosen remainder / to drive the register through
    chosen states in mid-message / that are multiples of the generator"""
    rng = ctx.rng
    enums = {7: crcmod.Crc7, 8: crcmod.Crc8, 9: crcmod.Crc9, 16: crcmod.Crc16, 32: crcmod.Crc32}
    for w, en in enums.items():
        name = CFG_NAMES[w]
        fw = ref_feed_width(w)
        full = (1 << w) - 1
        bit_calc = call(crcmod.BitCrcCalculator, en.ETSI_DMR, False)
        tab_calc = call(crcmod.BitCrcCalculator, en.ETSI_DMR, True)
        if is_err(bit_calc) or is_err(tab_calc):
            continue  # reported by engine_cases
        pairs_b, pairs_t, pairs_v = [], [], []

        def one(bits, tag, target=None):
            ba_ = bitarray(bits)
            arg = barg(ba_)
            exp = "".join(str(x) for x in poly_rem(bits, w))
            rb, rt = call(bit_calc.calculate_checksum, bitarray(ba_)), call(tab_calc.calculate_checksum, bitarray(ba_))
            sb, st = out_bits(rb), out_bits(rt)
            pairs_b.append((f"crc.bit {name} {arg}", sb))
            pairs_t.append((f"crc.tab {name} 0 {arg}", st))
            ctx.case((name, "structured", tag, arg))
            inp = {"component": "engine", "config": name, "bits": arg, "previous": None, "class": tag}
            if sb != exp:
                ctx.fail("bitwise-not-remainder", inp, f"{name} bit-by-bit register differs from message(x)*x^{w} mod G ({tag})", expected=exp, actual=sb)
            if st != exp:
                ctx.fail("table-not-remainder", inp, f"{name} table register differs from message(x)*x^{w} mod G ({tag})", expected=exp, actual=st)
            good = int(exp, 2) if exp else 0
            if target is not None:
                ctx.count(f"structured:engine:{name}:target-hit" if good == target else f"structured:engine:{name}:target-missed")
            for v in dict.fromkeys((good, good ^ (1 << rng.randrange(w)), 0, full)):
                for mode, mt in ((bit_calc, "b"), (tab_calc, "t")):
                    r = call(mode.verify_checksum, bitarray(ba_), v)
                    pairs_v.append((f"crc.verify {name} {mt} {arg} {v}", out_bool(r)))
                    ctx.case((name, "structured-verify", mt, arg, v))
                    if r is not (v == good):
                        ctx.fail("verify-not-exact", {"component": "verify", "config": name, "bits": arg, "value": v, "table": mt == "t", "class": tag},
                                 f"{name}.verify_checksum does not accept exactly the remainder ({tag})", expected=(v == good), actual=str(r))

        # ---- chosen remainder
        targets = special_values(w, rng)
        for tv in pick(rng, targets, ctx.budget(14, 60)):
            for _ in range(ctx.budget(2, 4)):
                n = rng.choice([w, w + 1, 2 * w, fw * rng.randint(2, 6), fw * rng.randint(2, 6) + rng.choice([-1, 1]), rng.randint(w, 4 * w + 24)])
                n = max(n, w)
                free, where = free_positions(rng, n, w)
                m = force_rem(base_bits(rng, n), free, w, tv)
                if m is None:
                    free, where = free_positions(rng, n, w, "window")
                    m = force_rem(base_bits(rng, n), free, w, tv)
                one(m, f"remainder={wbits(tv, w)} free={where}", tv)
                ctx.count(f"structured:engine:{name}:chosen-remainder")
        # ---- multiples of the generator (remainder 0 without being zero), and generator +/- one bit
        g = [1] + [(ETSI[w] >> (w - 1 - i)) & 1 for i in range(w)]
        for _ in range(ctx.budget(6, 30)):
            q = [1] + [rng.getrandbits(1) for _ in range(rng.randint(0, 20))]
            prod = [0] * (len(q) + w)
            for i, qi in enumerate(q):
                if qi:
                    for j, gj in enumerate(g):
                        prod[i + j] ^= gj
            lead, trail = rng.choice([0, 0, 1, fw, rng.randint(0, 12)]), rng.choice([0, 0, 1, fw, rng.randint(0, 12)])
            one([0] * lead + prod + [0] * trail, "generator-multiple", 0)
            ctx.count(f"structured:engine:{name}:generator-multiple")
        one(list(g), "generator", 0)
        one(g[1:], "generator-without-top-bit")
        # ---- the register passes through a chosen state after a prefix (whole chunks or not), then more bits;
        #      in particular the table index of the next chunk is 0 or the last entry
        for _ in range(ctx.budget(28, 140)):
            npre = rng.choice([fw * rng.randint(2, 5), fw * rng.randint(2, 5), w + rng.randint(0, 20)])
            npre = max(npre, w)
            state = rng.choice([0, 0, full, 1, 1 << (w - 1), rng.choice(targets)])
            free, where = free_positions(rng, npre, w, rng.choice(["tail", "window", "head"]))
            pre = force_rem(base_bits(rng, npre), free, w, state)
            top = [(state >> (w - 1 - i)) & 1 for i in range(fw)]
            kind = ["zeros", "ones", "random", "index0", "indexmax", "empty", "onezero"][_ % 7]
            ns = rng.randint(1, 3 * fw)
            suf = {"zeros": [0] * ns, "ones": [1] * ns, "random": [rng.getrandbits(1) for _ in range(ns)],
                   "index0": top + [rng.getrandbits(1) for _ in range(ns - 1)],
                   "indexmax": [1 - b for b in top] + [rng.getrandbits(1) for _ in range(ns - 1)],
                   "empty": [], "onezero": [0]}[kind]
            one(pre + suf, f"state={wbits(state, w)}@{npre} then {kind}")
            ctx.count(f"structured:engine:{name}:mid-state:{kind}")
        if not ctx.search_only and ctx.driver_ok:
            ctx.correspond(f"{name}.structured.bitwise", pairs_b)
            ctx.correspond(f"{name}.structured.table", pairs_t)
            ctx.correspond(f"{name}.structured.verify", pairs_v)


def structured_front_cases(ctx, CRC8, CRC9, CRC16, CRC32, CrcMasks):
    """front ends on data constructed such that the RESULT (after inversion / mask / byte order) is a chosen
    value — 0, all-ones, the mask, single bits, low-byte-only values … — and check() on it"""
    rng = ctx.rng
    masks = list(CrcMasks)

    def mval(m):
        return ETSI_MASKS.get(m.name, m.value)

    # ------------------------------------------------------------------ special data (all front ends)
    pairs8, pairs16, pairs9, pairs32 = [], [], [], []
    shapes = []
    for n in list(range(0, 13)) + [16, 22, 24]:
        shapes += [bytes(n), b"\xff" * n]
        if n:
            k = rng.randrange(8 * n)
            u = bytearray(n)
            u[k // 8] = 0x80 >> (k % 8)
            shapes += [bytes(u), bytes(n - 1) + b"\x01", b"\x80" + bytes(n - 1)]
    for d in shapes:
        for m in masks:
            r = call(CRC16.calculate, d, m)
            pairs16.append((f"crc16 {hex_str(d)} {m.value}", out_int(r)))
            ctx.case(("crc16-special", d, m.name))
            good = (rem_int(bytes_bits(d), 16) ^ 0xFFFF) ^ mval(m)
            if r != good:
                ctx.fail("crc16-front", {"component": "crc16", "data": hex_str(d), "mask": m.name}, "CRC16.calculate is not (inverted remainder) xor mask on all-zero / all-ones / one-bit data", expected=good, actual=out_int(r))
        r = call(CRC32.calculate, d)
        pairs32.append((f"crc32 {hex_str(d)}", out_int(r)))
        ctx.case(("crc32-special", d))
        good = rem_int(bytes_bits(ref_byteswap(d)), 32)
        if r != good:
            ctx.fail("crc32-front", {"component": "crc32", "data": hex_str(d)}, "CRC32.calculate is not the remainder over the swapped octets on all-zero / all-ones / one-bit data", expected=good, actual=out_int(r))
        a = bitarray(bytes_bits(d))
        r = call(CRC8.calculate, bitarray(a))
        pairs8.append((f"crc8 0 {barg(a)}", out_int(r)))
        ctx.case(("crc8-special", d))
        if r != rem_int(a, 8):
            ctx.fail("crc8-front", {"component": "crc8", "bits": barg(a)}, "CRC8.calculate is not the plain remainder on all-zero / all-ones / one-bit data", expected=rem_int(a, 8), actual=out_int(r))
        m = masks[len(d) % len(masks)]
        for sn in (0, 1, 64, 127):
            for tag, arg, extra in (("none", None, []), ("b:00000000", bytes(4), [0] * 32), ("i:1", 1, [0] * 31 + [1])):
                r = call(CRC9.calculate_from_parts, d, sn, m, arg)
                pairs9.append((f"crc9 {hex_str(d)} {sn} {m.value} {tag}", out_int(r)))
                ctx.case(("crc9-special", d, sn, m.name, tag))
                src = bytes_bits(d) + extra + [(sn >> (6 - k)) & 1 for k in range(7)]
                good = (rem_int(src, 9) ^ 0x1FF) ^ mval(m)
                if r != good:
                    ctx.fail("crc9-front", {"component": "crc9", "data": hex_str(d), "serial": sn, "mask": m.name, "crc32": tag},
                             "CRC9.calculate_from_parts is not (inverted remainder) xor mask on all-zero / all-ones / one-bit data", expected=good, actual=out_int(r))
        ctx.count("structured:front:special-data")

    # ------------------------------------------------------------------ CRC-8: chosen result
    for tv in pick(rng, special_values(8, rng), ctx.budget(16, 24)):
        for _ in range(ctx.budget(2, 6)):
            n = rng.choice([8, 9, 36, 36, 72, rng.randint(8, 90)])
            free, where = free_positions(rng, n, 8)
            m_ = force_rem(base_bits(rng, n), free, 8, tv) or force_rem(base_bits(rng, n), list(range(n - 8, n)), 8, tv)
            a = bitarray(m_)
            good = rem_int(m_, 8)
            r = call(CRC8.calculate, bitarray(a))
            pairs8.append((f"crc8 0 {barg(a)}", out_int(r)))
            ctx.case(("crc8-target", barg(a)))
            ctx.count("structured:front:crc8:target-hit" if good == tv else "structured:front:crc8:target-missed")
            if r != good:
                ctx.fail("crc8-front", {"component": "crc8", "bits": barg(a)}, f"CRC8.calculate is not the plain remainder (data constructed for the result {tv:#04x})", expected=good, actual=out_int(r))
            for v in dict.fromkeys((good, good ^ (1 << rng.randrange(8)), 0, 255)):
                c = call(CRC8.check, bitarray(a), v)
                pairs8.append((f"crc8.check 0 {barg(a)} {v}", out_bool(c)))
                ctx.case(("crc8.check-target", barg(a), v))
                if c != (v == good):
                    ctx.fail("crc8-check", {"component": "crc8.check", "bits": barg(a), "value": v}, f"CRC8.check does not accept exactly the computed value (data constructed for the result {tv:#04x})", expected=str(v == good), actual=str(c))
    # ------------------------------------------------------------------ CRC-CCITT: chosen result, every mask
    for m in masks:
        mv = mval(m)
        tvs = pick(rng, special_values(16, rng, extra=(mv >> 8, mv << 8)), ctx.budget(12, 40), must=(mv & 0xFFFF, (mv ^ 0xFFFF) & 0xFFFF))
        for tv in tvs:
            nb = rng.choice([2, 2, 3, 10, 10, 10, 12, rng.randint(2, 30)])
            free, where = free_positions(rng, 8 * nb, 16)
            want_rem = (tv ^ 0xFFFF ^ mv) & 0xFFFF
            bits = force_rem(base_bits(rng, 8 * nb), free, 16, want_rem) or force_rem(base_bits(rng, 8 * nb), list(range(8 * nb - 16, 8 * nb)), 16, want_rem)
            d = bits_bytes(bits)
            good = (rem_int(bytes_bits(d), 16) ^ 0xFFFF) ^ mv
            r = call(CRC16.calculate, d, m)
            pairs16.append((f"crc16 {hex_str(d)} {m.value}", out_int(r)))
            ctx.case(("crc16-target", d, m.name))
            ctx.count("structured:front:crc16:target-hit" if (good & 0xFFFF) == tv else "structured:front:crc16:target-missed")
            if tv == 0 and good == 0:
                ctx.count("structured:front:crc16:result-zero")
            if r != good:
                ctx.fail("crc16-front", {"component": "crc16", "data": hex_str(d), "mask": m.name}, f"CRC16.calculate is not (inverted remainder) xor mask (data constructed for the result {tv:#06x})", expected=good, actual=out_int(r))
            for v in dict.fromkeys((good & 0xFFFF, (good & 0xFFFF) ^ (1 << rng.randrange(16)), 0, 0xFFFF, mv & 0xFFFF)):
                c = call(CRC16.check, d, v, m)
                pairs16.append((f"crc16.check {hex_str(d)} {v} {m.value}", out_bool(c)))
                ctx.case(("crc16.check-target", d, v, m.name))
                if c != (v == good):
                    ctx.fail("crc16-check", {"component": "crc16.check", "data": hex_str(d), "value": v, "mask": m.name},
                             f"CRC16.check does not accept exactly the computed value (data constructed for the result {tv:#06x})", expected=str(v == good), actual=str(c))
    # ------------------------------------------------------------------ CRC-9: chosen result, every mask
    for m in masks:
        mv = mval(m)
        tvs = pick(rng, special_values(9, rng), ctx.budget(9, 24), must=(mv & 0x1FF, (mv ^ 0x1FF) & 0x1FF))
        for tv in tvs:
            nb = rng.choice([10, 16, 22, 2, rng.randint(2, 24)])
            c32kind = rng.choice(["none", "none", "int", "bytes"])
            sn0 = rng.randrange(128)
            c32bits = [rng.getrandbits(1) for _ in range(32)] if c32kind != "none" else []
            src = base_bits(rng, 8 * nb) + c32bits + [(sn0 >> (6 - k)) & 1 for k in range(7)]
            n = len(src)
            field = rng.choice(["data", "data", "tail", "crc32" if c32bits else "data", "window"])
            if field == "data":
                s0 = rng.randint(0, 8 * nb - 9)
                free = list(range(s0, s0 + 9))
            elif field == "tail":  # the serial number and the two bits before it
                free = list(range(n - 9, n))
            elif field == "crc32":
                s0 = 8 * nb + rng.randint(0, 32 - 9)
                free = list(range(s0, s0 + 9))
            else:
                free = free_positions(rng, n, 9, "window")[0]
            want_rem = (tv ^ 0x1FF ^ mv) & 0x1FF
            bits = force_rem(src, free, 9, want_rem)
            d = bits_bytes(bits[: 8 * nb])
            sn = int("".join(map(str, bits[-7:])), 2)
            if c32kind == "none":
                tag, arg, extra = "none", None, []
            else:
                cb = bits_bytes(bits[8 * nb: 8 * nb + 32])
                if c32kind == "int":
                    arg = int.from_bytes(cb, "big")
                    tag, extra = f"i:{arg}", (bytes_bits(cb) if arg else [])  # the integer 0 means "no CRC-32"
                else:
                    tag, arg, extra = "b:" + cb.hex(), cb, bytes_bits(cb)
            good = (rem_int(bytes_bits(d) + extra + [(sn >> (6 - k)) & 1 for k in range(7)], 9) ^ 0x1FF) ^ mv
            r = call(CRC9.calculate_from_parts, d, sn, m, arg)
            pairs9.append((f"crc9 {hex_str(d)} {sn} {m.value} {tag}", out_int(r)))
            ctx.case(("crc9-target", d, sn, m.name, tag))
            ctx.count("structured:front:crc9:target-hit" if (good & 0x1FF) == tv else "structured:front:crc9:target-missed")
            if r != good:
                ctx.fail("crc9-front", {"component": "crc9", "data": hex_str(d), "serial": sn, "mask": m.name, "crc32": tag},
                         f"CRC9.calculate_from_parts is not (inverted remainder of data|crc32|dbsn) xor mask (parts constructed for the result {tv:#05x}, free bits in {field})", expected=good, actual=out_int(r))
            for v in dict.fromkeys((good, good ^ (1 << rng.randrange(9)), 0, 511, mv)):
                c = call(CRC9.check, d, sn, v, m, arg)
                pairs9.append((f"crc9.check {hex_str(d)} {sn} {v} {m.value} {tag}", out_bool(c)))
                ctx.case(("crc9.check-target", d, sn, v, m.name, tag))
                exp = "ERR AssertionError" if v > 511 else (v == good)
                if c != exp:
                    ctx.fail("crc9-check", {"component": "crc9.check", "data": hex_str(d), "serial": sn, "value": v, "mask": m.name, "crc32": tag},
                             f"CRC9.check does not accept exactly the computed value (parts constructed for the result {tv:#05x})", expected=str(exp), actual=str(c))
            # the same target on a raw bit string of a length that is not a multiple of the 9-bit feed
            nbits = rng.randint(9, 120)
            raw = force_rem(base_bits(rng, nbits), free_positions(rng, nbits, 9, "window")[0], 9, want_rem)
            a = bitarray(raw)
            r = call(CRC9.calculate, bitarray(a), m)
            pairs9.append((f"crc9.bits 0 {barg(a)} {m.value}", out_int(r)))
            ctx.case(("crc9.bits-target", barg(a), m.name))
            good = (rem_int(raw, 9) ^ 0x1FF) ^ mv
            if r != good:
                ctx.fail("crc9-front", {"component": "crc9.bits", "bits": barg(a), "mask": m.name}, f"CRC9.calculate is not (inverted remainder) xor mask (bits constructed for the result {tv:#05x})", expected=good, actual=out_int(r))
    # ------------------------------------------------------------------ CRC-32: chosen result, even and odd lengths
    for tv in pick(rng, special_values(32, rng), ctx.budget(30, 70)):
        nb = rng.choice([4, 5, 6, 7, 12, 13, rng.randint(4, 60)])
        free, where = free_positions(rng, 8 * nb, 32)
        fed = force_rem(base_bits(rng, 8 * nb), free, 32, tv) or force_rem(base_bits(rng, 8 * nb), list(range(8 * nb - 32, 8 * nb)), 32, tv)
        d = ref_byteswap(bits_bytes(fed))  # the swap is an involution: these octets are fed in the order `fed`
        good = rem_int(bytes_bits(ref_byteswap(d)), 32)
        r = call(CRC32.calculate, d)
        pairs32.append((f"crc32 {hex_str(d)}", out_int(r)))
        ctx.case(("crc32-target", d))
        ctx.count("structured:front:crc32:target-hit" if good == tv else "structured:front:crc32:target-missed")
        if r != good:
            ctx.fail("crc32-front", {"component": "crc32", "data": hex_str(d)}, f"CRC32.calculate is not the remainder over the pairwise swapped octets (data constructed for the result {tv:#010x})", expected=good, actual=out_int(r))
        for v in dict.fromkeys((good, good ^ (1 << rng.randrange(32)), 0, 0xFFFFFFFF)):
            c = call(CRC32.check, d, v)
            pairs32.append((f"crc32.check {hex_str(d)} {v}", out_bool(c)))
            ctx.case(("crc32.check-target", d, v))
            if c != (v == good):
                ctx.fail("crc32-check", {"component": "crc32.check", "data": hex_str(d), "value": v}, f"CRC32.check does not accept exactly the computed value (data constructed for the result {tv:#010x})", expected=str(v == good), actual=str(c))
    if not ctx.search_only and ctx.driver_ok:
        ctx.correspond("CRC8.structured", pairs8)
        ctx.correspond("CRC16.structured", pairs16)
        ctx.correspond("CRC9.structured", pairs9)
        ctx.correspond("CRC32.structured", pairs32)


# ------------------------------------------------------------------------------------------------
# the register objects used through their documented workflow  init() -> update() 1..n times -> digest()
def split_message(rng, bits, fw):
    """cut a message into 1..6 pieces (empty ones allowed); returns (pieces, how)"""
    n = len(bits)
    how = rng.choice(["random", "random", "random", "feed-multiples", "feed-off-by-one", "zero-runs", "bitwise", "whole"])
    if how == "whole" or n == 0:
        cuts = [] if how == "whole" else sorted(rng.choice([0, 0, n]) for _ in range(rng.randint(0, 3)))
    elif how == "random":
        cuts = sorted(rng.randint(0, n) for _ in range(rng.randint(1, 5)))
    elif how == "feed-multiples":
        cuts = sorted(min(n, fw * rng.randint(0, n // fw + 1)) for _ in range(rng.randint(1, 5)))
    elif how == "feed-off-by-one":
        cuts = sorted(min(n, max(0, fw * rng.randint(0, n // fw + 1) + rng.choice([-1, 1]))) for _ in range(rng.randint(1, 5)))
    elif how == "bitwise" and n <= 24:
        cuts = list(range(1, n))
    else:  # cut exactly around runs of zeros, so that whole pieces are all-zero
        how = "zero-runs"
        runs, i = [], 0
        while i < n:
            if bits[i] == 0:
                j = i
                while j < n and bits[j] == 0:
                    j += 1
                runs.append((i, j))
                i = j
            else:
                i += 1
        cuts = []
        for a, b in rng.sample(runs, min(len(runs), 2)):
            cuts += [a, b]
        cuts = sorted(cuts) or [rng.randint(0, n)]
    pieces, prev = [], 0
    for c in cuts:
        pieces.append(bits[prev:c])
        prev = c
    pieces.append(bits[prev:])
    return pieces, how


STREAM_KINDS = ["random", "zero-padding", "trailing-zero-bit", "zero-field", "leading-zeros", "unit", "sparse", "random",
                "all-zero", "all-ones", "register-zero-then-more", "empty-pieces"]


def stream_message(rng, w, fw, kind):
    """(pieces, class) — messages whose pieces exercise the register in states other than the initial one"""
    rb = lambda k: [rng.getrandbits(1) for _ in range(k)]  # noqa
    if kind == "zero-padding":  # payload, then zero pad octets handed over on their own (then perhaps a serial number)
        pieces = [rb(8 * rng.randint(1, 12)), [0] * (8 * rng.randint(1, 8))]
        if rng.getrandbits(1):
            pieces.append(rb(7))
        return pieces, kind
    if kind == "trailing-zero-bit":
        return [rb(rng.randint(1, 40)) + [1], [0]], kind
    if kind == "zero-field":  # an all-zero field of any width between / after non-zero pieces
        pieces = [rb(rng.randint(1, 30)) + [1], [0] * rng.choice([1, 2, fw - 1, fw, fw + 1, 2 * fw, w, rng.randint(1, 48)])]
        for _ in range(rng.randint(0, 3)):
            pieces.append(rng.choice([rb(rng.randint(1, 20)), [0] * rng.randint(1, 20), []]))
        return pieces, kind
    if kind == "leading-zeros":
        return [[0] * rng.randint(1, 30), rb(rng.randint(1, 40)), [0] * rng.randint(0, 9)], kind
    if kind == "empty-pieces":
        pieces = [[], rb(rng.randint(0, 30)), [], [], rb(rng.randint(0, 30)), []]
        return pieces[rng.randint(0, 2):], kind
    if kind == "register-zero-then-more":  # a prefix with remainder 0 (register back at its initial content), then more
        n = max(w, rng.choice([fw * rng.randint(2, 5), w + rng.randint(0, 20)]))
        pre = force_rem(rb(n), list(range(n - w, n)), w, 0)
        return [pre, rng.choice([[0] * rng.randint(1, 20), rb(rng.randint(1, 20)), []]), rb(rng.randint(0, 12))], kind
    n = rng.choice([rng.randint(0, 80), rng.randint(0, 80), fw * rng.randint(1, 12), rng.randint(80, 260)])
    if kind == "unit":
        bits = [0] * max(n, 1)
        bits[rng.randrange(len(bits))] = 1
    elif kind == "sparse":
        bits = [0] * max(n, 1)
        for _ in range(rng.randint(1, 3)):
            bits[rng.randrange(len(bits))] = 1
    elif kind == "all-zero":
        bits = [0] * n
    elif kind == "all-ones":
        bits = [1] * n
    else:
        bits = rb(n)
    pieces, how = split_message(rng, bits, fw)
    return pieces, f"{kind}/{how}"


def stream_cases(ctx, crcmod):
    rng = ctx.rng
    enums = {7: crcmod.Crc7, 8: crcmod.Crc8, 9: crcmod.Crc9, 16: crcmod.Crc16, 32: crcmod.Crc32}
    classes = {False: getattr(crcmod, "BitCrcRegister", None), True: getattr(crcmod, "TableBasedBitCrcRegister", None)}
    for w, en in enums.items():
        name = CFG_NAMES[w]
        fw = ref_feed_width(w)
        for table, cls in classes.items():
            mt = "t" if table else "b"
            shared = call(cls, en.ETSI_DMR) if cls is not None else "ERR AttributeError"
            oneshot = call(crcmod.BitCrcCalculator, en.ETSI_DMR, table)
            if is_err(shared) or is_err(oneshot):
                ctx.fail("engine-construct", {"config": name, "table": table}, f"cannot construct the {name} register object: {shared} {oneshot}")
                continue
            pairs = []
            previous = None
            for i in range(ctx.budget(60, 360)):
                # every class in turn; 12 classes and 4 x 5 object / scribble variants: all combinations come up
                pieces, klass = stream_message(rng, w, fw, STREAM_KINDS[i % len(STREAM_KINDS)])
                whole = [b for p in pieces for b in p]
                # a quarter on the register inside a calculator, a quarter on a fresh object, the rest on one re-used object
                sel = (i + i // 12) % 4
                if sel == 0:
                    reg, where = call(cls, en.ETSI_DMR), "fresh"
                elif sel == 1:
                    reg, where = getattr(oneshot, "_crc_register", None), "calculator"
                    if reg is None:
                        reg, where = shared, "shared"
                else:
                    reg, where = shared, "shared"
                mutate = (i + i // 12) % 5 == 3  # the caller scribbles over every object update() hands back and over its own buffer
                held, outs, err = [], [], None
                r = call(reg.init)
                if is_err(r):
                    err = r
                fed = []
                for p in pieces:
                    if err:
                        break
                    arg = bitarray(p)
                    r = call(reg.update, arg)
                    if is_err(r):
                        err = r
                        break
                    if arg.tolist() != p:
                        ctx.fail("input-mutated", {"component": "stream", "config": name, "table": table, "pieces": [barg(bitarray(x)) for x in pieces]},
                                 f"{name} register.update altered the caller's bit buffer", expected=barg(bitarray(p)), actual=barg(arg))
                    fed += p
                    outs.append(out_bits(r))
                    held.append((r, out_bits(r)))
                    if mutate and isinstance(r, bitarray):
                        r.invert()
                        held[-1] = (r, out_bits(r))
                        arg.setall(1)  # … and re-uses the buffer it passed in
                if not err:
                    r = call(reg.digest)
                    if is_err(r):
                        err = r
                    else:
                        outs.append(out_bits(r))
                        held.append((r, out_bits(r)))
                if err:
                    outs.append(err)
                impl = ",".join(outs)
                pstr = [barg(bitarray(p)) for p in pieces]
                pairs.append((f"crc.reg {name} {mt} i " + " ".join("u:" + x for x in pstr) + " d", impl))
                ctx.case((name, mt, "stream", tuple(pstr), where, mutate), nontrivial=any(whole))
                ctx.count(f"stream:{name}:{mt}:{klass.split('/')[0]}")
                later_zero = any(not any(p) and len(p) and any(b for q in pieces[:k] for b in q) for k, p in enumerate(pieces))
                if later_zero:
                    ctx.count(f"stream:{name}:{mt}:all-zero-piece-on-non-zero-register")
                if any(len(p) == 0 for p in pieces):
                    ctx.count(f"stream:{name}:{mt}:empty-piece")
                if mutate:
                    ctx.count(f"stream:{name}:{mt}:returned-objects-mutated")
                # ---- oracle: every update returns the remainder of what was fed so far, digest the remainder of
                #      everything, which is also what the one-shot calculator returns for the concatenation
                exp, acc = [], []
                for p in pieces:
                    acc += p
                    exp.append("".join(str(x) for x in poly_rem(acc, w)))
                exp.append("".join(str(x) for x in poly_rem(whole, w)))
                inp = {"component": "stream", "config": name, "table": table, "pieces": pstr, "object": where,
                       "previous": previous, "mutate_returned": mutate, "class": klass}
                previous = pstr
                if impl != ",".join(exp):
                    k = next((j for j, (a, b) in enumerate(zip(outs, exp)) if a != b), min(len(outs), len(exp)))
                    what = ("digest()" if k == len(pieces) else f"update() of piece {k + 1}")
                    ctx.fail("stream-not-remainder", inp,
                             f"{name} {'table' if table else 'bit-by-bit'} register fed in {len(pieces)} pieces ({klass}): {what} is not (what was fed so far)(x)*x^{w} mod G",
                             expected=",".join(exp), actual=impl)
                one = out_bits(call(oneshot.calculate_checksum, bitarray(whole)))
                if one != exp[-1]:
                    ctx.fail("table-not-remainder" if table else "bitwise-not-remainder", {"component": "engine", "config": name, "bits": barg(bitarray(whole)), "previous": None},
                             f"{name}: one-shot value of the concatenated pieces differs from the remainder", expected=exp[-1], actual=one)
                # ---- the objects handed back earlier still hold what they held
                for obj, was in held:
                    if out_bits(obj) != was:
                        ctx.fail("result-aliased", inp, f"{name}: a bit string returned by update()/digest() changed while the register was used further", expected=was, actual=out_bits(obj))
                        break
            # ---- call sequences outside the plain workflow: correspondence only (no init on a fresh object, digest in
            #      the middle, re-init, little-endian pieces)
            for _ in range(ctx.budget(10, 60)):
                reg = call(cls, en.ETSI_DMR)
                acts, outs = [], []
                for _ in range(rng.randint(1, 7)):
                    a = rng.choice(["i", "d", "u", "u", "u", "v"])
                    if a == "i":
                        call(reg.init)
                        acts.append("i")
                    elif a == "d":
                        outs.append(out_bits(call(reg.digest)))
                        acts.append("d")
                    else:
                        k = rng.choice([0, 1, fw - 1, fw, fw + 1, 2 * fw, rng.randint(0, 40)])
                        p = [0] * k if rng.random() < 0.25 else [rng.getrandbits(1) for _ in range(k)]
                        ba_ = bitarray(p, endian="little" if a == "v" else "big")
                        outs.append(out_bits(call(reg.update, ba_)))
                        acts.append(f"{a}:{barg(bitarray(p))}")
                    if outs and is_err(outs[-1]):
                        break
                pairs.append((f"crc.reg {name} {mt} " + " ".join(acts), ",".join(outs) if outs else "="))
                ctx.case((name, mt, "calls", tuple(acts)))
                ctx.count(f"stream:{name}:{mt}:free-call-sequences")
            if not ctx.search_only and ctx.driver_ok:
                ctx.correspond(f"{name}.register-in-pieces.{'table' if table else 'bitwise'}", pairs)


def returned_object_cases(ctx, crcmod, CRC16, CRC9, CRC32, CrcMasks):
    """hold and scribble over the bit strings the calculators return, then calculate again: the check sums
    (and the shared lookup tables) must not be reachable through them.  Also: a front end is not disturbed
    by its singleton's register having been left in mid-message.  Run last (a violation here may leave the
    process-wide tables corrupted)."""
    rng = ctx.rng
    enums = {7: crcmod.Crc7, 8: crcmod.Crc8, 9: crcmod.Crc9, 16: crcmod.Crc16, 32: crcmod.Crc32}
    for w, en in enums.items():
        name = CFG_NAMES[w]
        fw = ref_feed_width(w)
        for table in (False, True):
            calc = call(crcmod.BitCrcCalculator, en.ETSI_DMR, table)
            if is_err(calc):
                continue
            for _ in range(ctx.budget(6, 40)):
                # one full chunk on the zero register: the result is a lookup table entry
                n = rng.choice([fw, fw, 2 * fw, rng.randint(1, 60)])
                bits = [rng.getrandbits(1) for _ in range(n)]
                exp = "".join(str(x) for x in poly_rem(bits, w))
                r1 = call(calc.calculate_checksum, bitarray(bits))
                if isinstance(r1, bitarray):
                    r1.invert()
                    r1 <<= 1
                r2 = out_bits(call(calc.calculate_checksum, bitarray(bits)))
                other = out_bits(call(crcmod.BitCrcCalculator(en.ETSI_DMR, table).calculate_checksum, bitarray(bits)))
                ctx.case((name, table, "scribble", barg(bitarray(bits))))
                ctx.count(f"alias:{name}:returned-check-sum-mutated")
                if r2 != exp or other != exp:
                    ctx.fail("result-aliased", {"component": "scribble", "config": name, "table": table, "bits": barg(bitarray(bits))},
                             f"{name}: after the caller changed the bit string calculate_checksum returned, the same message gets another check sum", expected=exp, actual=f"{r2} / new calculator: {other}")
    for front, fn, good_of in (
        (CRC16, lambda d: CRC16.calculate(d, CrcMasks.CSBK), lambda d: (rem_int(bytes_bits(d), 16) ^ 0xFFFF) ^ ETSI_MASKS["CSBK"]),
        (CRC32, lambda d: CRC32.calculate(d), lambda d: rem_int(bytes_bits(ref_byteswap(d)), 32)),
        (CRC9, lambda d: CRC9.calculate_from_parts(d, 5, CrcMasks.Rate12DataContinuation), lambda d: (rem_int(bytes_bits(d) + [0, 0, 0, 0, 1, 0, 1], 9) ^ 0x1FF) ^ ETSI_MASKS["Rate12DataContinuation"]),
    ):
        reg = getattr(getattr(front, "CALC", None), "_crc_register", None)
        if reg is None:
            continue
        for _ in range(ctx.budget(8, 40)):
            d = bytes(rng.getrandbits(8) for _ in range(rng.randint(0, 14)))
            call(reg.update, bitarray([rng.getrandbits(1) for _ in range(rng.randint(1, 30))]))  # left in mid-message
            r = call(fn, d)
            ctx.case((front.__name__, "dirty-singleton", d))
            ctx.count("state:front-end-after-partial-feed")
            if r != good_of(d):
                ctx.fail("singleton-state", {"component": "dirty-singleton", "front": front.__name__, "data": hex_str(d)},
                         f"{front.__name__}: result depends on what the singleton's register was fed before", expected=good_of(d), actual=out_int(r))


# ================================================================================================
# round 3
# ------------------------------------------------------------------------------------------------
# (1) wrong check values that are SYSTEMATIC TRANSFORMS of the right one, for every check()/verify entry point
def budget2(ctx, quick, thorough):
    """budget of the round-3 classes: a fixed small share, at most doubled by the drift / broken-proof boost"""
    return (thorough if ctx.thorough() else quick) * min(ctx.boost, 2)


def _bitrev(v, n):
    return int(format(v & ((1 << n) - 1), f"0{n}b")[::-1], 2) if n else 0


def _rotl(v, k, n):
    k %= n
    return ((v << k) | (v >> (n - k))) & ((1 << n) - 1)


def wrong_values(good, w, mask_values=(), related=()):
    """[(label, value)]: the computed value first, then values an endianness- / notation- / mask-confused peer
    would send instead: octets reversed, bits reversed (whole, per octet), halves / octet pairs / nibbles swapped,
    complements, rotations, shifts, xor with every data-type mask, neighbours, truncations, sign / width
    confusions — deduplicated by value, first label wins; `related` adds (label, value) pairs of the caller
    (values of related algorithms / of neighbouring inputs)."""
    nb = (w + 7) // 8
    cw = 8 * nb  # width of the octet container the value travels in
    full, cfull = (1 << w) - 1, (1 << cw) - 1
    g = good & cfull
    octs = g.to_bytes(nb, "big")
    out = [("computed", good)]
    out.append(("octets-reversed", int.from_bytes(octs, "little")))
    out.append(("bits-reversed", _bitrev(good, w)))
    out.append(("bits-reversed-in-container", _bitrev(g, cw)))
    out.append(("bits-reversed-per-octet", int.from_bytes(bytes(_bitrev(o, 8) for o in octs), "big")))
    out.append(("nibbles-swapped-per-octet", int.from_bytes(bytes(((o << 4) | (o >> 4)) & 0xFF for o in octs), "big")))
    out.append(("halves-swapped", _rotl(g, cw // 2, cw)))
    if nb >= 2:
        sw = bytearray(octs)
        for i in range(0, nb - 1, 2):
            sw[i], sw[i + 1] = octs[i + 1], octs[i]
        out.append(("octet-pairs-swapped", int.from_bytes(bytes(sw), "big")))
        out.append(("octet-pairs-swapped+halves-swapped", _rotl(int.from_bytes(bytes(sw), "big"), cw // 2, cw)))
    out.append(("complement", good ^ full))
    out.append(("complement-in-container", g ^ cfull))
    out.append(("negated-mod-2^w", (-good) & full))
    for k in sorted({1, 2, 4, 8, w // 2, w - 1, w - 8} - {0}):
        if 0 < k < w:
            out.append((f"rotated-left-{k}", _rotl(good & full, k, w)))
    for k in (1, 4, 8, 16):
        if k < w + 8:
            out.append((f"shifted-left-{k}-truncated", (good << k) & full))
            out.append((f"shifted-left-{k}", good << k))
            out.append((f"shifted-right-{k}", good >> k))
    for m in mask_values:
        out.append((f"xor-mask-{m:#x}-truncated", good ^ (m & full)))
        out.append((f"xor-mask-{m:#x}", good ^ m))
    out += [("plus-1", good + 1), ("minus-1", good - 1), ("top-bit-flipped", good ^ (1 << (w - 1))), ("low-bit-flipped", good ^ 1),
            ("low-octet-only", good & 0xFF), ("high-octet-only", good >> max(0, w - 8)), ("low-octet-cleared", good & ~0xFF & full),
            ("low-16-only", good & 0xFFFF), ("plus-2^w", good + (1 << w)), ("bit-w-set", good | (1 << w)), ("minus-2^w", good - (1 << w)),
            ("arithmetic-negative", -good), ("gray-code", good ^ (good >> 1)), ("zero", 0), ("all-ones", full), ("container-all-ones", cfull)]
    if w in ETSI:
        out += factor_values(good, w)
    out += list(related)
    seen, res = set(), []
    for lab, v in out:
        if v not in seen:
            seen.add(v)
            res.append((lab, v))
    return res


_FACTORS = {}


def generator_factors(w):
    """the proper divisors of degree 1 .. w/2 (and their cofactors) of the ETSI generator of width w over GF(2), as
    ints — a checker that only tests divisibility by one factor accepts computed ^ (multiple of the cofactor)"""
    if w in _FACTORS:
        return _FACTORS[w]
    g = ETSI[w] | (1 << w)

    def divmod2(a, b):
        q, db = 0, b.bit_length()
        while a.bit_length() >= db:
            sh = a.bit_length() - db
            q |= 1 << sh
            a ^= b << sh
        return q, a

    out = []
    for f in range(2, 1 << (min(w // 2, 16) + 1)):
        q, r = divmod2(g, f)
        if r == 0:
            out += [f, q]
    _FACTORS[w] = sorted(set(out))
    return _FACTORS[w]


def factor_values(good, w):
    full = (1 << w) - 1
    res = []
    for f in generator_factors(w):
        for k, lab in ((1, ""), (2, "*x"), (3, "*(x+1)")):
            v, kk, sh = 0, k, 0
            while kk:  # carry-less product f * k
                if kk & 1:
                    v ^= f << sh
                kk >>= 1
                sh += 1
            if v <= full:
                res.append((f"xor-generator-factor-{f:#x}{lab}", good ^ v))
    res.append(("xor-generator-low-part", good ^ ETSI[w]))
    return res


def poly_mod(dividend, w):
    """remainder of an arbitrary dividend (0/1 list of length >= w, highest power first) modulo the ETSI generator"""
    g = [1] + [(ETSI[w] >> (w - 1 - i)) & 1 for i in range(w)]
    d = list(dividend)
    for i in range(len(d) - w):
        if d[i]:
            for j in range(w + 1):
                d[i + j] ^= g[j]
    return d[-w:]


def _ref_variant(bits, w, init_ones=False, refl=False, xorout=0):
    """the check sum a peer with ANOTHER flavour of the same polynomial computes (a wrong value for DMR): all-ones
    initial register (= the first w coefficients of message(x)*x^w complemented), octet-reflected input with
    reflected output, final xor.  Only ever used as a candidate wrong value; the expectation is `v == computed`."""
    b = [int(x) for x in bits]
    if refl and len(b) % 8 == 0:
        b = [x for i in range(0, len(b), 8) for x in reversed(b[i:i + 8])]
    ext = b + [0] * w
    if init_ones:
        ext = [1 - x for x in ext[:w]] + ext[w:]
    v = int("".join(map(str, poly_mod(ext, w))), 2)
    if refl:
        v = _bitrev(v, w)
    return v ^ xorout


def transform_cases(ctx, crcmod, CRC8, CRC9, CRC16, CRC32, CrcMasks):
    """every check()/verify entry point with wrong values that are systematic transforms of the right one
    (and the right one): the verdict must be True exactly for the computed value"""
    import binascii
    import zlib

    rng = ctx.rng
    masks = list(CrcMasks)
    mvals = sorted(set(ETSI_MASKS.values()))
    enums = {7: crcmod.Crc7, 8: crcmod.Crc8, 9: crcmod.Crc9, 16: crcmod.Crc16, 32: crcmod.Crc32}
    nfail = [0]
    budget = lambda q, t: budget2(ctx, q, t)  # noqa: E731

    def verdict(entry, comp, inp, label, v, got, exp, pairs, line):
        pairs.append((line, out_bool(got)))
        ctx.case((entry, line))
        ctx.count(f"transform:entry:{entry}")
        ctx.count(f"transform:value:{label.split('-0x')[0] if label.startswith(('xor-mask', 'xor-generator-factor')) else 'with-another-mask' if label.startswith('with-mask-') else label}")
        if got != exp and nfail[0] < 40:
            nfail[0] += 1
            ctx.fail(comp.replace(".", "-") if comp.endswith("check") else "verify-not-exact", dict(inp, value=v, transform=label),
                     f"{entry} does not accept exactly the computed value: the value '{label}' of the computed one gets another verdict", expected=str(exp), actual=str(got))

    def data_octets(k):
        kind = k % 6
        n = rng.choice([1, 2, 3, 4, 5, 8, 10, 10, 12, 12, 16, 22, rng.randint(1, 40)])
        if kind == 4:
            return bytes(n)
        if kind == 5:
            return b"\xff" * n
        return bytes(rng.getrandbits(8) for _ in range(n))

    # ---------------------------------------------------------------- raw engines: verify_checksum, both register kinds
    for w, en in enums.items():
        name = CFG_NAMES[w]
        calcs = [(call(crcmod.BitCrcCalculator, en.ETSI_DMR, False), "b"), (call(crcmod.BitCrcCalculator, en.ETSI_DMR, True), "t")]
        if any(is_err(c) for c, _ in calcs):
            continue
        pairs = []
        for k in range(budget(8, 40)):
            n = rng.choice([w, 2 * w, 8 * rng.randint(1, 12), rng.randint(1, 100), 96])
            bits = [rng.getrandbits(1) for _ in range(n)] if k % 4 else force_rem(base_bits(rng, max(n, w)), list(range(max(n, w) - w, max(n, w))), w, rng.choice(special_values(w, rng)))
            good = rem_int(bits, w)
            rel = [("init-all-ones", _ref_variant(bits, w, init_ones=True)), ("reflected", _ref_variant(bits, w, refl=True)),
                   ("init-all-ones+xorout", _ref_variant(bits, w, init_ones=True, xorout=(1 << w) - 1)),
                   ("reflected+init-all-ones+xorout", _ref_variant(bits, w, init_ones=True, refl=True, xorout=(1 << w) - 1)),
                   ("of-message-without-last-bit", rem_int(bits[:-1], w)), ("of-message-plus-zero-bit", rem_int(bits + [0], w)),
                   ("of-reversed-message", rem_int(bits[::-1], w)), ("of-complemented-message", rem_int([1 - b for b in bits], w))]
            arg = barg(bitarray(bits))
            for lab, v in wrong_values(good, w, mvals, rel):
                for calc, mt in calcs:
                    r = call(calc.verify_checksum, bitarray(bits), v)
                    verdict(f"{name}.verify_checksum[{mt}]", "verify", {"component": "verify", "config": name, "bits": arg, "table": mt == "t"}, lab, v, r, v == good,
                            pairs, f"crc.verify {name} {mt} {arg} {v}")
        if not ctx.search_only and ctx.driver_ok:
            ctx.correspond(f"{name}.verify.transforms", pairs)
    # ---------------------------------------------------------------- CRC8.check
    pairs = []
    for k in range(budget(25, 150)):
        n = rng.choice([8, 36, 36, 72, rng.randint(1, 90)])
        bits = [rng.getrandbits(1) for _ in range(n)]
        good = rem_int(bits, 8)
        rel = [("init-all-ones", _ref_variant(bits, 8, init_ones=True)), ("reflected", _ref_variant(bits, 8, refl=True)),
               ("of-message-without-last-bit", rem_int(bits[:-1], 8)), ("of-reversed-message", rem_int(bits[::-1], 8))]
        arg = barg(bitarray(bits))
        for lab, v in wrong_values(good, 8, mvals, rel):
            c = call(CRC8.check, bitarray(bits), v)
            exp = "ERR AssertionError" if not (0 <= v <= 255) else (v == good)
            verdict("CRC8.check", "crc8.check", {"component": "crc8.check", "bits": arg}, lab, v, c, exp, pairs, f"crc8.check 0 {arg} {v}")
    if not ctx.search_only and ctx.driver_ok:
        ctx.correspond("CRC8.check.transforms", pairs)
    # ---------------------------------------------------------------- CRC16.check, every mask
    pairs = []
    for k in range(budget(33, 220)):
        d = data_octets(k)
        m = masks[k % len(masks)]
        mv = ETSI_MASKS.get(m.name, m.value)
        plain = rem_int(bytes_bits(d), 16)
        good = (plain ^ 0xFFFF) ^ mv
        rel = [("not-inverted", plain ^ mv), ("not-masked", plain ^ 0xFFFF), ("plain-remainder", plain), ("mask-only", mv), ("inverted-mask", mv ^ 0xFFFF),
               ("crc_hqx-init-0", binascii.crc_hqx(d, 0)), ("crc_hqx-init-ffff", binascii.crc_hqx(d, 0xFFFF)), ("crc_hqx-init-ffff-inverted+mask", binascii.crc_hqx(d, 0xFFFF) ^ 0xFFFF ^ mv),
               ("reflected(kermit)", _ref_variant(bytes_bits(d), 16, refl=True)), ("of-data-without-last-octet", (rem_int(bytes_bits(d[:-1]), 16) ^ 0xFFFF) ^ mv),
               ("of-data-plus-zero-octet", (rem_int(bytes_bits(d + b"\0"), 16) ^ 0xFFFF) ^ mv), ("of-octet-pair-swapped-data", (rem_int(bytes_bits(ref_byteswap(d)), 16) ^ 0xFFFF) ^ mv),
               ("of-reversed-data", (rem_int(bytes_bits(d[::-1]), 16) ^ 0xFFFF) ^ mv)]
        rel += [(f"with-mask-{o.name}", (plain ^ 0xFFFF) ^ ETSI_MASKS.get(o.name, o.value)) for o in masks if o is not m]
        if good > 0xFFFF:  # a 24-bit mask on the 16-bit CRC: no 16-bit value can be right
            rel.append(("computed-truncated-to-16", good & 0xFFFF))
        for lab, v in wrong_values(good, 16, mvals, rel):
            c = call(CRC16.check, d, v, m)
            exp = "ERR AssertionError" if not (0 <= v <= 0xFFFF) else (v == good)
            verdict("CRC16.check", "crc16.check", {"component": "crc16.check", "data": hex_str(d), "mask": m.name}, lab, v, c, exp, pairs, f"crc16.check {hex_str(d)} {v} {m.value}")
    if not ctx.search_only and ctx.driver_ok:
        ctx.correspond("CRC16.check.transforms", pairs)
    # ---------------------------------------------------------------- CRC32.check, even and odd lengths, chosen results
    pairs = []
    specials = special_values(32, rng) + [0x01020304, 0x80000001, 0x00FF00FF, 0x12345678, 0x000000FF, 0xFF000000, 0x0000FFFF]
    for k in range(budget(40, 250)):
        if k % 3 == 2:  # data constructed such that the result is a chosen value (single bits, one non-zero octet, 0x01020304 …)
            nbo = rng.choice([4, 5, 6, 12, 13, rng.randint(4, 30)])
            fed = force_rem(base_bits(rng, 8 * nbo), list(range(8 * nbo - 32, 8 * nbo)), 32, specials[(k // 3) % len(specials)])
            d = ref_byteswap(bits_bytes(fed))
        else:
            d = data_octets(k)
        good = rem_int(bytes_bits(ref_byteswap(d)), 32)
        rel = [("of-data-without-octet-swap", rem_int(bytes_bits(d), 32)), ("zlib.crc32", zlib.crc32(d)), ("zlib.crc32-of-swapped", zlib.crc32(ref_byteswap(d))),
               ("bzip2-flavour", _ref_variant(bytes_bits(ref_byteswap(d)), 32, init_ones=True, xorout=0xFFFFFFFF)),
               ("init-all-ones", _ref_variant(bytes_bits(ref_byteswap(d)), 32, init_ones=True)), ("reflected", _ref_variant(bytes_bits(ref_byteswap(d)), 32, refl=True)),
               ("of-data-without-last-octet", rem_int(bytes_bits(ref_byteswap(d[:-1])), 32)), ("of-data-plus-zero-octet", rem_int(bytes_bits(ref_byteswap(d + b"\0")), 32)),
               ("of-reversed-data", rem_int(bytes_bits(ref_byteswap(d[::-1])), 32))]
        for lab, v in wrong_values(good, 32, mvals, rel):
            c = call(CRC32.check, d, v)
            exp = "ERR AssertionError" if not (0 <= v <= 0xFFFFFFFF) else (v == good)
            verdict("CRC32.check", "crc32.check", {"component": "crc32.check", "data": hex_str(d)}, lab, v, c, exp, pairs, f"crc32.check {hex_str(d)} {v}")
    if not ctx.search_only and ctx.driver_ok:
        ctx.correspond("CRC32.check.transforms", pairs)
    # ---------------------------------------------------------------- CRC9.check: masks, serial numbers, with / without CRC-32
    pairs = []
    for k in range(budget(33, 220)):
        d = bytes(rng.getrandbits(8) for _ in range(rng.choice([10, 16, 22, 10, 16, 22, rng.randint(1, 24)])))
        m = masks[k % len(masks)] if k % 2 else rng.choice([CrcMasks.Rate12DataContinuation, CrcMasks.Rate34DataContinuation, CrcMasks.Rate1DataContinuation])
        mv = ETSI_MASKS.get(m.name, m.value)
        sn = rng.choice([0, 1, 127, rng.randrange(128), rng.randrange(128)])
        c32 = rng.getrandbits(32) | 1
        tag, arg, extra = [("none", None, []), (f"i:{c32}", c32, bytes_bits(c32.to_bytes(4, "big"))), ("b:" + c32.to_bytes(4, "big").hex(), c32.to_bytes(4, "big"), bytes_bits(c32.to_bytes(4, "big")))][k % 3]

        def g9(data=d, ex=extra, s=sn, mval=mv, invert=0x1FF):
            return (rem_int(bytes_bits(data) + list(ex) + [(s >> (6 - i)) & 1 for i in range(7)], 9) ^ invert) ^ mval

        good = g9()
        rel = [("not-inverted", g9(invert=0)), ("not-masked", g9(mval=0)), ("plain-remainder", g9(mval=0, invert=0)), ("serial-number-0", g9(s=0)),
               ("serial-number+1", g9(s=(sn + 1) % 128)), ("serial-number-1", g9(s=(sn - 1) % 128)), ("serial-number-bits-reversed", g9(s=_bitrev(sn, 7))),
               ("without-crc32-part" if extra else "with-zero-crc32-part", g9(ex=[] if extra else [0] * 32)),
               ("crc32-part-octets-reversed", g9(ex=bytes_bits(c32.to_bytes(4, "little")) if extra else [])), ("of-data-without-last-octet", g9(data=d[:-1])),
               ("serial-number-first", (rem_int([(sn >> (6 - i)) & 1 for i in range(7)] + bytes_bits(d) + list(extra), 9) ^ 0x1FF) ^ mv), ("computed-truncated-to-9", good & 0x1FF)]
        rel += [(f"with-mask-{o.name}", g9(mval=ETSI_MASKS.get(o.name, o.value))) for o in masks if o is not m]
        for lab, v in wrong_values(good, 9, mvals, rel):
            c = call(CRC9.check, d, sn, v, m, arg)
            exp = "ERR AssertionError" if v > 511 else (v == good)
            verdict("CRC9.check", "crc9.check", {"component": "crc9.check", "data": hex_str(d), "serial": sn, "mask": m.name, "crc32": tag}, lab, v, c, exp, pairs,
                    f"crc9.check {hex_str(d)} {sn} {v} {m.value} {tag}")
    if not ctx.search_only and ctx.driver_ok:
        ctx.correspond("CRC9.check.transforms", pairs)


# ------------------------------------------------------------------------------------------------
# (2) HISTORIES over register objects / calculators of ANY configuration under every public call, interleaved with
#     the standard engines and the front ends; afterwards the standard engines and the process-wide lookup tables
#     are verified again.  A history is a JSON-able list of steps (so that a failing one can be replayed verbatim):
#       ["new", slot, kind, w, poly, fw, init, xorout, revIn, revOut]   kind b|t = register object, cb|ct = BitCrcCalculator
#       ["std", slot, kind, w]                                         … constructed from the enum member CrcN.ETSI_DMR
#       ["i"|"d"|"r"|"g", slot]      init() / digest() / reverse() / read .register
#       ["u", slot, bits, how]       update(); how = big | little | frozen | readonly (provenance of the argument)
#       ["w", slot, bits]            assign .register from a caller-owned bitarray, which the caller then overwrites
#       ["s", slot, bits] / ["y", slot, bits, value]      calculate_checksum / verify_checksum (calculator slots)
#       ["bad", slot, what]          a call that raises: update(None) | update(5) | calculate_checksum(None) | verify_checksum(None, 0)
#       ["scribble", how]            the caller changes the bit string returned by the previous call in place
#       ["f8", bits] ["f16", hex, mask] ["f9", hex, serial, mask] ["f32", hex]       front-end calls in between
#       ["fbad", which]              a front-end call that raises (before, or only after, its singleton calculated)
#       ["cache_clear"]              bits_create_lookup_table.cache_clear() (public functools API)
#       ["tables", [[w, poly], …]]   build lookup tables for many other (width, polynomial) keys (cache eviction)
OTHER_POLY = {7: 0x09, 8: 0x31, 9: 0x0B3, 16: 0x8005, 32: 0x1EDC6F41}
OTHER_WIDTH = {7: 21, 8: 24, 9: 18, 16: 24, 32: 40}  # widths whose derived feed width stays <= 9 (cheap tables)
_REF_TABLE = {}


def ref_table(w):
    """the lookup table as it has to be: entry i = remainder of the fw-bit number i (reference division)"""
    if w not in _REF_TABLE:
        fw = ref_feed_width(w)
        _REF_TABLE[w] = ["".join(str(x) for x in poly_rem([(i >> (fw - 1 - k)) & 1 for k in range(fw)], w)) for i in range(1 << fw)]
    return _REF_TABLE[w]


def cfg_variants(rng, w):
    """(label, dict of BitCrcConfiguration arguments): every flag toggled on the ETSI polynomial of width w,
    combinations, explicit feed widths, another polynomial of the same width, the same polynomial at another width"""
    full = (1 << w) - 1
    fw = ref_feed_width(w)
    base = dict(w=w, poly=ETSI[w], fw=0, init=0, xorout=0, revIn=0, revOut=0)
    v = [
        ("equal-to-standard", dict(base)),  # a separately constructed dataclass equal to CrcN.ETSI_DMR.value
        ("reverse_output", dict(base, revOut=1)), ("reverse_input", dict(base, revIn=1)), ("reverse_input+output", dict(base, revIn=1, revOut=1)),
        ("init-all-ones", dict(base, init=full)), ("init-1", dict(base, init=1)), ("init-random", dict(base, init=rng.randrange(1, full))),
        ("xorout-all-ones", dict(base, xorout=full)), ("xorout-random", dict(base, xorout=rng.randrange(1, full))),
        ("reverse_output+xorout", dict(base, revOut=1, xorout=full)), ("every-flag", dict(base, init=full, xorout=full, revIn=1, revOut=1)),
        ("reverse_output+init", dict(base, revOut=1, init=full)),
        ("feed-explicit-derived", dict(base, fw=fw)), ("feed-1", dict(base, fw=1)), ("feed-explicit-derived+reverse_output", dict(base, fw=fw, revOut=1)),
        ("feed-small", dict(base, fw=rng.choice([2, 3, 4]))), ("feed-width", dict(base, fw=w)), ("feed-over-width", dict(base, fw=w + rng.choice([1, 3]))),
        ("other-polynomial", dict(base, poly=OTHER_POLY[w])), ("other-polynomial+reverse_output", dict(base, poly=OTHER_POLY[w], revOut=1)),
        ("other-width", dict(base, w=OTHER_WIDTH[w])), ("other-width+reverse_output", dict(base, w=OTHER_WIDTH[w], revOut=1)),
    ]
    return v


def eff_fw(c):
    return c["fw"] if c["fw"] >= 1 else ref_feed_width(c["w"])


class Hist:
    """interpreter of a history on the real code (used by run() and replay())"""

    def __init__(self, libs):
        self.crcmod, self.CRC8, self.CRC9, self.CRC16, self.CRC32, self.CrcMasks = libs
        self.slots = {}      # slot -> dict(reg, calc, cfg (dict or None for std), w, kind, outs (values returned), acts (model calls), dead)
        self.held = []       # [object, canonical value when it was returned / last scribbled, step index]
        self.last = None
        self.problems = []   # oracle findings: (kind, what, expected, actual, step index)
        self.n = 0

    # ---- helpers
    def _ret(self, r):
        if isinstance(r, bitarray):
            self.held.append([r, out_bits(r), self.n])
            self.last = self.held[-1]
        else:
            self.last = None
        return r

    def _mk_bits(self, bits, how):
        if how == "little":
            return bitarray([int(c) for c in bits] if bits != "-" else [], endian="little")
        b = bitarray(bits if bits != "-" else "")
        if how == "frozen":
            from bitarray import frozenbitarray

            return frozenbitarray(b)
        if how == "readonly":
            # a bit string imported from a read-only buffer (whole octets only)
            if len(b) % 8 == 0 and len(b):
                return bitarray(buffer=b.tobytes())
        return b

    def step(self, st):
        """executes one step, returns its canonical output"""
        self.n += 1
        op = st[0]
        crcmod = self.crcmod
        if op in ("new", "std"):
            slot, kind = st[1], st[2]
            if op == "new":
                w, poly, fw, init, xo, ri, ro = st[3:10]
                cfg = call(crcmod.BitCrcConfiguration, polynomial=poly, width_bits=w, feed_width_bits=fw, init_value=init, final_xor_value=xo,
                           reverse_input_bytes=bool(ri), reverse_output_bytes=bool(ro))
                cd = dict(w=w, poly=poly, fw=fw, init=init, xorout=xo, revIn=ri, revOut=ro)
            else:
                w = st[3]
                cfg = call(lambda: {7: crcmod.Crc7, 8: crcmod.Crc8, 9: crcmod.Crc9, 16: crcmod.Crc16, 32: crcmod.Crc32}[w].ETSI_DMR)
                cd = None
            if is_err(cfg):
                self.slots[slot] = dict(dead=True)
                return cfg
            if kind in ("cb", "ct"):
                calc = call(crcmod.BitCrcCalculator, cfg, kind == "ct")
                reg = calc if is_err(calc) else getattr(calc, "_crc_register", None)
            else:
                calc = None
                reg = call(crcmod.TableBasedBitCrcRegister if kind == "t" else crcmod.BitCrcRegister, cfg)
            if is_err(reg) or reg is None:
                self.slots[slot] = dict(dead=True)
                return reg if is_err(reg) else "ERR no-register"
            self.slots[slot] = dict(reg=reg, calc=calc, cfg=cd, w=w, kind=kind, outs=[], acts=[], dead=False, fed=[], clean=True, model_dead=False)
            return "="
        if op == "scribble":
            if self.last is not None and isinstance(self.last[0], bitarray):
                o = self.last[0]
                try:
                    {"reverse": o.reverse, "invert": o.invert, "setall1": lambda: o.setall(1), "setall0": lambda: o.setall(0),
                     "shl": lambda: o.__ilshift__(1), "bytereverse": o.bytereverse, "flip-first": lambda: o.invert(0) if len(o) else None,
                     "extend": lambda: o.extend([1, 0, 1]), "clear": o.clear}[st[1]]()
                except BaseException:  # noqa  (the returned object may be immutable: fine)
                    pass
                self.last[1] = out_bits(o)
            return "="
        if op == "cache_clear":
            cc = getattr(getattr(crcmod, "bits_create_lookup_table", None), "cache_clear", None)
            if cc is not None:
                call(cc)
            return "="
        if op == "tables":
            for w, poly in st[1]:
                call(crcmod.bits_create_lookup_table, w, poly)
            return "="
        if op == "fbad":
            # a front-end call that raises — before, or only after, its singleton calculated
            CrcMasks = self.CrcMasks
            fn, args = {
                "crc16-mask-none": (self.CRC16.calculate, (b"\x12\x34\x56", None)), "crc16-data-none": (self.CRC16.calculate, (None, CrcMasks.CSBK)),
                "crc16-check-out-of-range": (self.CRC16.check, (b"\x12\x34", 1 << 16, CrcMasks.CSBK)), "crc32-data-none": (self.CRC32.calculate, (None,)),
                "crc32-check-negative": (self.CRC32.check, (b"\x12\x34", -1)), "crc9-serial-300": (self.CRC9.calculate_from_parts, (b"\x12\x34", 300, CrcMasks.Rate34DataContinuation)),
                "crc9-crc32-3-octets": (self.CRC9.calculate_from_parts, (b"\x12\x34", 3, CrcMasks.Rate34DataContinuation, b"\x01\x02\x03")),
                "crc9-mask-none": (self.CRC9.calculate_from_parts, (b"\x12\x34", 3, None)), "crc9-check-out-of-range": (self.CRC9.check, (b"\x12", 3, 512, CrcMasks.Rate34DataContinuation)),
                "crc8-data-none": (self.CRC8.calculate, (None,)), "crc8-check-out-of-range": (self.CRC8.check, (bitarray("1011"), 256)),
            }[st[1]]
            r = call(fn, *args)
            return r if is_err(r) else "no-exception"
        if op in ("f8", "f16", "f9", "f32"):
            if op == "f8":
                bits = [int(c) for c in st[1]] if st[1] != "-" else []
                r, good = call(self.CRC8.calculate, bitarray(bits)), rem_int(bits, 8)
            elif op == "f16":
                d = bytes.fromhex(st[1])
                r, good = call(self.CRC16.calculate, d, self.CrcMasks[st[2]]), (rem_int(bytes_bits(d), 16) ^ 0xFFFF) ^ ETSI_MASKS[st[2]]
            elif op == "f9":
                d = bytes.fromhex(st[1])
                r = call(self.CRC9.calculate_from_parts, d, st[2], self.CrcMasks[st[3]])
                good = (rem_int(bytes_bits(d) + [(st[2] >> (6 - k)) & 1 for k in range(7)], 9) ^ 0x1FF) ^ ETSI_MASKS[st[3]]
            else:
                d = bytes.fromhex(st[1])
                r, good = call(self.CRC32.calculate, d), rem_int(bytes_bits(ref_byteswap(d)), 32)
            if r != good:
                self.problems.append(("front-end-in-history", f"front-end call {st} in the middle of the history returns a wrong check sum", good, out_int(r), self.n))
            return out_int(r)
        # ---- calls on a slot
        s = self.slots.get(st[1])
        if s is None or s.get("dead"):
            return "ERR no-slot"
        reg, calc = s["reg"], s["calc"]
        c_ = s["cfg"]
        # standard = the enum member, or a configuration whose every field equals it (the feed width given explicitly or derived)
        std = c_ is None or (c_["w"] in ETSI and c_["poly"] == ETSI[c_["w"]] and c_["fw"] in (0, ref_feed_width(c_["w"])) and not (c_["init"] or c_["xorout"] or c_["revIn"] or c_["revOut"]))
        w = s["w"]
        out, act, observed = None, None, True

        def rem_s(bits):
            return "".join(str(x) for x in poly_rem(bits, w))

        if op == "i":
            out, act, observed = call(reg.init), "i", False
            s["fed"], s["clean"] = [], True
        elif op == "u":
            bits = [int(c) for c in st[2]] if st[2] != "-" else []
            arg = self._mk_bits(st[2], st[3])
            before = arg.tolist()
            out = self._ret(call(reg.update, arg))
            act = ("v:" if st[3] == "little" else "u:") + st[2]
            if arg.tolist() != before:
                self.problems.append(("input-mutated", f"update() altered the caller's bit buffer (step {st})", st[2], barg(bitarray(arg.tolist())), self.n))
            if st[3] == "little":
                s["clean"] = False  # the table register reads a little-endian chunk as an integer: model only
            s["fed"] = s["fed"] + bits
            if std and s["clean"] and out_bits(out) != rem_s(s["fed"]):
                self.problems.append(("stream-not-remainder", f"update() on a standard {CFG_NAMES[w]} register ({s['kind']}) does not return the remainder of what was fed since init()", rem_s(s["fed"]), out_bits(out), self.n))
        elif op == "d":
            out, act = self._ret(call(reg.digest)), "d"
            if std and s["clean"] and out_bits(out) != rem_s(s["fed"]):
                self.problems.append(("stream-not-remainder", f"digest() on a standard {CFG_NAMES[w]} register ({s['kind']}) is not the remainder of what was fed since init()", rem_s(s["fed"]), out_bits(out), self.n))
        elif op == "r":
            out, act = self._ret(call(reg.reverse)), "r"
            s["clean"] = False
        elif op == "g":
            out, act = self._ret(call(lambda: reg.register)), "g"
            if std and s["clean"] and out_bits(out) != rem_s(s["fed"]):
                self.problems.append(("stream-not-remainder", f".register of a standard {CFG_NAMES[w]} register ({s['kind']}) is not the remainder of what was fed since init()", rem_s(s["fed"]), out_bits(out), self.n))
        elif op == "w":
            mine = bitarray(st[2])

            def assign():
                reg.register = mine

            out, act, observed = call(assign), "w:" + st[2], False
            mine.setall(1)  # the caller re-uses its buffer
            mine.reverse()
            s["clean"] = False
        elif op in ("s", "y"):
            if calc is None:
                return "ERR no-calculator"
            bits = [int(c) for c in st[2]] if st[2] != "-" else []
            if op == "s":
                out, act = self._ret(call(calc.calculate_checksum, bitarray(bits))), "s:" + st[2]
                if std and out_bits(out) != rem_s(bits):
                    self.problems.append(("table-not-remainder" if s["kind"] == "ct" else "bitwise-not-remainder", f"calculate_checksum of a standard {CFG_NAMES[w]} calculator ({s['kind']}) in the middle of the history", rem_s(bits), out_bits(out), self.n))
            else:
                out, act = call(calc.verify_checksum, bitarray(bits), st[3]), f"y:{st[2]}:{st[3]}"
                if std and out is not (st[3] == rem_int(bits, w)):
                    self.problems.append(("verify-not-exact", f"verify_checksum of a standard {CFG_NAMES[w]} calculator ({s['kind']}) in the middle of the history", st[3] == rem_int(bits, w), str(out), self.n))
                out = out if is_err(out) else bitarray([1 if out else 0])
            s["fed"], s["clean"] = bits, True
        elif op == "bad":
            what = st[2]
            if what == "update-none":
                out = call(reg.update, None)
            elif what == "update-int":
                out = call(reg.update, 5)
            elif what == "sum-none" and calc is not None:
                out, act = call(calc.calculate_checksum, None), "i"
                s["fed"], s["clean"] = [], True
            elif what == "verify-none" and calc is not None:
                out, act = call(calc.verify_checksum, None, 0), "i"
                s["fed"], s["clean"] = [], True
            else:
                out = "ERR skipped"
            observed = False
            canon = out if is_err(out) else "no-exception"
            if act and not s["model_dead"]:
                s["acts"].append(act)
            return canon
        else:
            return "ERR unknown-step"
        canon = out if is_err(out) else (out_bits(out) if isinstance(out, bitarray) else "=")
        if not s["model_dead"]:
            s["acts"].append(act)
            if is_err(out):
                s["outs"].append(out)
                s["model_dead"] = True  # the model ends a call sequence at the first exception
            elif observed:
                s["outs"].append(canon)
        if is_err(out):
            s["clean"] = False
        return canon

    def run(self, steps):
        return [self.step(st) for st in steps]

    def held_changed(self):
        for obj, was, at in self.held:
            if out_bits(obj) != was:
                return at, was, out_bits(obj)
        return None

    def model_pairs(self):
        """(line, implementation output) per slot, for the correspondence with `crc.cfg`"""
        pairs = []
        for name, s in self.slots.items():
            if s.get("dead") or not s["acts"]:
                continue
            c = s["cfg"] or dict(w=s["w"], poly=ETSI[s["w"]], fw=0, init=0, xorout=0, revIn=0, revOut=0)
            if c["revIn"] and any(a[:2] in ("u:", "v:", "s:", "y:") and (0 if a.split(":")[1] == "-" else len(a.split(":")[1])) % 8 for a in s["acts"]):
                continue  # bytereverse of a partial last octet depends on the pad bits of the buffer: not modelled
            line = f"crc.cfg {c['w']} {c['poly']} {c['fw']} {c['init']} {c['xorout']} {c['revIn']} {c['revOut']} {'t' if s['kind'] in ('t', 'ct') else 'b'} " + " ".join(s["acts"])
            pairs.append((line, ",".join(s["outs"]) if s["outs"] else "="))
        return pairs


def tables_now(crcmod, fronts):
    """every lookup table reachable for the five ETSI (width, polynomial) keys: the cached one through the public
    function and (white box, when the attributes exist) the ones the CALC singletons hold — as {(where, w): list}"""
    out = {}
    for w in ETSI:
        t = call(crcmod.bits_create_lookup_table, w, ETSI[w])
        out[("bits_create_lookup_table", w)] = t
    for cls in fronts:
        reg = getattr(getattr(cls, "CALC", None), "_crc_register", None)
        t = getattr(reg, "_lookup_table", None)
        w = getattr(getattr(reg, "_config", None), "width_bits", None)
        if isinstance(t, list) and w in ETSI and not any(t is o for o in out.values()):
            out[(cls.__name__ + ".CALC", w)] = t
    return out


def check_tables(crcmod, fronts, heal=True):
    """[(where, w, index, expected, actual)] — entries that are no longer the remainder of their index; healed in place"""
    bad = []
    for (where, w), t in tables_now(crcmod, fronts).items():
        ref = ref_table(w)
        if is_err(t) or not isinstance(t, list):
            bad.append((where, w, -1, f"{len(ref)} entries", str(t) if is_err(t) else type(t).__name__))
            continue
        if len(t) != len(ref):
            bad.append((where, w, -1, f"{len(ref)} entries", f"{len(t)} entries"))
            if heal:
                t[:] = [bitarray(e) for e in ref]
            continue
        for i, (e, r) in enumerate(zip(t, ref)):
            got = e.to01() if isinstance(e, bitarray) else repr(type(e))
            if got != r:
                bad.append((where, w, i, r, got))
                if heal:
                    t[i] = bitarray(r)
    return bad


class StdProbe:
    """the standard engines, verified again after a history: calculators that were constructed BEFORE the histories
    (held) and freshly constructed ones, both register kinds, plus the front ends — on every one-chunk message
    (each lookup table entry is the answer to one of them) and a few longer ones"""

    def __init__(self, libs):
        self.libs = libs
        crcmod = libs[0]
        self.enums = {7: crcmod.Crc7, 8: crcmod.Crc8, 9: crcmod.Crc9, 16: crcmod.Crc16, 32: crcmod.Crc32}
        self.held = {(w, tb): call(crcmod.BitCrcCalculator, en.ETSI_DMR, tb) for w, en in self.enums.items() for tb in (False, True)}

    def probe(self, rng, widths=None, full=True):
        """first wrong answer as (probe dict, expected, actual), else None"""
        crcmod, CRC8, CRC9, CRC16, CRC32, CrcMasks = self.libs
        for w in widths or list(ETSI):
            fw = ref_feed_width(w)
            ref = ref_table(w)
            idxs = range(1 << fw) if full else sorted(rng.sample(range(1 << fw), 24))
            engines = [("held-table", self.held[(w, True)]), ("new-table", call(crcmod.BitCrcCalculator, self.enums[w].ETSI_DMR, True)),
                       ("new-bitwise", call(crcmod.BitCrcCalculator, self.enums[w].ETSI_DMR, False)), ("held-bitwise", self.held[(w, False)])]
            for ename, calc in engines:
                if is_err(calc):
                    return {"engine": ename, "config": CFG_NAMES[w], "bits": "-"}, "a calculator", calc
                sub = idxs if ename == "held-table" else list(idxs)[:: max(1, len(idxs) // 24)]
                for i in sub:
                    bits = format(i, f"0{fw}b")
                    r = out_bits(call(calc.calculate_checksum, bitarray(bits)))
                    if r != ref[i]:
                        return {"engine": ename, "config": CFG_NAMES[w], "bits": bits}, ref[i], r
                # two chunks and a tail: every step of the table register looks an entry up
                for _ in range(3):
                    n = rng.choice([2 * fw, 3 * fw, 2 * fw + rng.randint(1, fw - 1)])
                    b = [rng.getrandbits(1) for _ in range(n)]
                    exp = "".join(str(x) for x in poly_rem(b, w))
                    r = out_bits(call(calc.calculate_checksum, bitarray(b)))
                    if r != exp:
                        return {"engine": ename, "config": CFG_NAMES[w], "bits": barg(bitarray(b))}, exp, r
        # front ends (their singletons hold table registers)
        for i in (range(256) if full else sorted(rng.sample(range(256), 16))):
            d = bytes([i])
            r = call(CRC8.calculate, bitarray(format(i, "08b")))
            if r != rem_int(bytes_bits(d), 8):
                return {"engine": "CRC8.calculate", "bits": format(i, "08b")}, rem_int(bytes_bits(d), 8), out_int(r)
            r = call(CRC16.calculate, d + d, CrcMasks.CSBK)
            if r != (rem_int(bytes_bits(d + d), 16) ^ 0xFFFF) ^ ETSI_MASKS["CSBK"]:
                return {"engine": "CRC16.calculate", "data": (d + d).hex(), "mask": "CSBK"}, (rem_int(bytes_bits(d + d), 16) ^ 0xFFFF) ^ ETSI_MASKS["CSBK"], out_int(r)
            r = call(CRC32.calculate, d + b"\x01")
            if r != rem_int(bytes_bits(b"\x01" + d), 32):
                return {"engine": "CRC32.calculate", "data": (d + b"\x01").hex()}, rem_int(bytes_bits(b"\x01" + d), 32), out_int(r)
        for i in (range(512) if full else sorted(rng.sample(range(512), 16))):
            # 2 octets + 7-bit serial number = 23 bits: the first 9-bit chunk takes every value
            d = bytes([i >> 1, (i & 1) << 7 | 0x15])
            r = call(CRC9.calculate_from_parts, d, 77, CrcMasks.Rate34DataContinuation)
            good = (rem_int(bytes_bits(d) + [(77 >> (6 - k)) & 1 for k in range(7)], 9) ^ 0x1FF) ^ ETSI_MASKS["Rate34DataContinuation"]
            if r != good:
                return {"engine": "CRC9.calculate_from_parts", "data": d.hex(), "serial": 77, "mask": "Rate34DataContinuation"}, good, out_int(r)
        return None


def rand_msg(rng, c, aligned=None):
    """a message for configuration dict c as a 0/1 string: mostly whole chunks of the effective feed width (the last
    step of a table register is then a table step), sometimes with a tail, sometimes empty; whole octets when
    reverse_input_bytes is on"""
    fw = eff_fw(c)
    if c["revIn"]:
        n = 8 * rng.choice([1, 2, 3, 7, 9, rng.randint(1, 12)]) if fw not in (7, 9) or rng.random() < 0.5 else 8 * fw * rng.randint(1, 2)
    else:
        aligned = rng.random() < 0.6 if aligned is None else aligned
        n = fw * rng.randint(1, 4) if aligned else rng.choice([0, 1, fw - 1, fw + 1, rng.randint(0, 4 * fw)])
    n = max(0, min(n, 160))
    kind = rng.choice(["random", "random", "random", "ones", "zeros"])
    bits = [1] * n if kind == "ones" else [0] * n if kind == "zeros" else [rng.getrandbits(1) for _ in range(n)]
    return "".join(map(str, bits)) or "-"


FRONT_BAD = ["crc16-mask-none", "crc16-data-none", "crc16-check-out-of-range", "crc32-data-none", "crc32-check-negative", "crc9-serial-300", "crc9-crc32-3-octets",
             "crc9-mask-none", "crc9-check-out-of-range", "crc8-data-none", "crc8-check-out-of-range"]
SCRIBBLES = ["reverse", "invert", "setall1", "setall0", "shl", "bytereverse", "flip-first", "extend", "clear"]


def gen_history(rng, w, variants, family):
    """a history for width w: one or two registers / calculators of non-default configurations next to standard ones
    of the same width (and of the width whose table shares the polynomial), random public calls interleaved"""
    steps, slots = [], []
    masks16 = ["CSBK", "DataHeader", "PiHeader", "MBCHeader"]

    def add(slot, kind, c):
        if c is None:
            steps.append(["std", slot, kind, w])
            slots.append((slot, kind, dict(w=w, poly=ETSI[w], fw=0, init=0, xorout=0, revIn=0, revOut=0), True))
        else:
            steps.append(["new", slot, kind, c["w"], c["poly"], c["fw"], c["init"], c["xorout"], c["revIn"], c["revOut"]])
            slots.append((slot, kind, c, False))

    if family == "cache-clear-first":
        steps.append(["cache_clear"])
    if family == "error-first":
        # the first call on a freshly constructed object is a failing one
        add("e0", rng.choice(["cb", "ct"]), None)
        steps.append(["bad", "e0", rng.choice(["sum-none", "verify-none", "update-none", "update-int"])])
    picks = rng.sample(variants, rng.choice([1, 1, 2]))
    order = rng.random()
    if order < 0.5:
        add("s0", rng.choice(["t", "ct", "ct", "b", "cb"]), None)
    for k, (lab, c) in enumerate(picks):
        add(f"n{k}", rng.choice(["t", "ct", "t", "ct", "b", "cb"]), c)
    if order >= 0.5 or rng.random() < 0.5:
        add("s1", rng.choice(["t", "ct"]), None)
    if family == "reverse-on-standard":
        add("s2", rng.choice(["t", "ct"]), None)
    for _ in range(rng.randint(6, 22)):
        slot, kind, c, std = rng.choice(slots)
        calc = kind in ("cb", "ct")
        ops = ["i", "u", "u", "u", "d", "d", "g", "scribble", "front"]
        if calc:
            ops += ["s", "s", "y"]
        if not std or family == "reverse-on-standard":
            ops += ["r", "r", "w"]
        if family in ("error-path", "error-first"):
            ops += ["bad", "bad", "fbad", "fbad"]
        op = rng.choice(ops)
        if op in ("i", "d", "r", "g"):
            steps.append([op, slot])
        elif op == "u":
            how = rng.choice(["big"] * 6 + ["frozen", "readonly", "little"])
            if c["revIn"] and how == "frozen":
                how = "big"
            steps.append(["u", slot, rand_msg(rng, c), how])
            if rng.random() < 0.35:
                steps.append([rng.choice(["r", "d", "g", "d"]) if (not std or family == "reverse-on-standard") else rng.choice(["d", "g"]), slot])
        elif op == "w":
            steps.append(["w", slot, "".join(str(rng.getrandbits(1)) for _ in range(c["w"]))])
        elif op == "s":
            steps.append(["s", slot, rand_msg(rng, c)])
        elif op == "y":
            m = rand_msg(rng, c)
            good = rem_int([int(x) for x in m] if m != "-" else [], c["w"]) if (c["poly"] == ETSI.get(c["w"]) and not (c["init"] or c["xorout"] or c["revIn"] or c["revOut"])) else rng.getrandbits(c["w"])
            steps.append(["y", slot, m, rng.choice([good, good, good ^ 1, _bitrev(good, c["w"]), 0])])
        elif op == "bad":
            steps.append(["bad", slot, rng.choice(["update-none", "update-int", "sum-none", "verify-none"])])
        elif op == "scribble":
            steps.append(["scribble", rng.choice(SCRIBBLES)])
        elif op == "fbad":
            steps.append(["fbad", rng.choice(FRONT_BAD)])
            steps.append([rng.choice(["f16", "f16"]), bytes(rng.getrandbits(8) for _ in range(rng.randint(1, 12))).hex(), rng.choice(masks16)] if rng.random() < 0.5
                         else ["f32", bytes(rng.getrandbits(8) for _ in range(rng.randint(1, 12))).hex()])
        else:
            f = rng.choice(["f8", "f16", "f9", "f32"])
            if f == "f8":
                steps.append(["f8", "".join(str(rng.getrandbits(1)) for _ in range(rng.choice([8, 16, 36, rng.randint(1, 40)])))])
            elif f == "f16":
                steps.append(["f16", bytes(rng.getrandbits(8) for _ in range(rng.randint(1, 12))).hex(), rng.choice(masks16)])
            elif f == "f9":
                steps.append(["f9", bytes(rng.getrandbits(8) for _ in range(rng.choice([2, 10, 11, 16]))).hex(), rng.randrange(128), rng.choice(["Rate12DataContinuation", "Rate34DataContinuation", "Rate1DataContinuation"])])
            else:
                steps.append(["f32", bytes(rng.getrandbits(8) for _ in range(rng.randint(1, 12))).hex()])
    return steps, "+".join(lab for lab, _ in picks)


def systematic_history(rng, w, lab, c, kind):
    """the shortest history of its kind: a non-default object digests one message (whole chunks), is asked for its
    digest, reversed, read; a standard calculator of the same width works before and after"""
    m1, m2 = rand_msg(rng, c, aligned=True), rand_msg(rng, c, aligned=True)
    steps = [["std", "s0", "ct", w], ["s", "s0", rand_msg(rng, dict(c, w=w, fw=0, revIn=0), aligned=True)],
             ["new", "n0", kind, c["w"], c["poly"], c["fw"], c["init"], c["xorout"], c["revIn"], c["revOut"]],
             ["i", "n0"], ["u", "n0", m1, "big"], ["d", "n0"], ["r", "n0"], ["g", "n0"], ["u", "n0", m2, "big"], ["r", "n0"], ["r", "n0"], ["d", "n0"]]
    if kind in ("cb", "ct"):
        steps += [["s", "n0", m1], ["r", "n0"], ["s", "n0", m2], ["y", "n0", m2, 0]]
    steps += [["s", "s0", rand_msg(rng, dict(c, w=w, fw=0, revIn=0))]]
    return steps


def history_cases(ctx, libs):
    """see the comment block above `Hist`.  Run after everything else (a violation found here is healed in place, but
    may have left other process-wide state behind)."""
    rng = ctx.rng
    crcmod, CRC8, CRC9, CRC16, CRC32, CrcMasks = libs
    fronts = (CRC8, CRC9, CRC16, CRC32)
    probe = StdProbe(libs)
    pairs = []
    reported = [0]

    def verdict(steps, h, tag, full_probe):
        """verdict on one executed history: what the history itself showed on standard objects, held results, the
        lookup tables (compared entry by entry with the reference), and — always when a table differs, else every
        now and then — the standard engines and front ends as black boxes"""
        wrong = [(kind, {"step": at}, what, exp, act) for kind, what, exp, act, at in h.problems]
        ch = h.held_changed()
        if ch:
            wrong.append(("result-aliased", {"step": ch[0]}, "a bit string returned by a call of the history changed while the history went on", ch[1], ch[2]))
        bad = check_tables(crcmod, fronts, heal=False)
        if bad or full_probe:
            pr = probe.probe(rng, sorted({b[1] for b in bad}) or None, full=bool(bad) or full_probe == "full")
            ctx.count("history:standard-engines-probed-as-black-boxes")
            if pr:
                wrong.append(("history-breaks-standard-engine", {"probe": pr[0]}, f"after the history a standard engine returns a wrong check sum for {pr[0]}", pr[1], pr[2]))
        if bad:
            where, w, i, exp, act = bad[0]
            wrong.append(("lookup-table-poisoned", {"table": where, "config": CFG_NAMES[w], "index": i, "entries_wrong": len(bad)},
                          f"after the history the process-wide lookup table of {CFG_NAMES[w]} ({where}) no longer holds the remainder of its index at entry {i}: "
                          f"standard {CFG_NAMES[w]} table calculators and front ends return wrong check sums for every message that reaches the entry", exp, act))
            check_tables(crcmod, fronts, heal=True)  # the next history starts from sound tables again
        ctx.count("history:lookup-tables-compared")
        for kind, extra, what, exp, act in wrong:
            if reported[0] < 30:
                reported[0] += 1
                ctx.fail(kind, dict({"component": "history", "family": tag, "history": steps}, **extra), what, expected=exp, actual=act)
        return bool(wrong)

    def execute(steps, tag, full_probe=False):
        h = Hist(libs)
        h.run(steps)
        verdict(steps, h, tag, full_probe)
        pairs.extend(h.model_pairs())
        ctx.case(("history", json.dumps(steps)))
        return h

    # the state everything before left behind is sound (else the histories are not to blame)
    verdict([], Hist(libs), "before-any-history", "full")
    k = 0
    # ---- systematic: every variant x every ETSI width x table register / table calculator
    for w in ETSI:
        variants = cfg_variants(rng, w)
        for lab, c in variants:
            for kind in ("t", "ct") + (("b",) if ctx.thorough() else ()):
                k += 1
                execute(systematic_history(rng, w, lab, c, kind), f"systematic/{lab}", full_probe=(k % 16 == 0))
                ctx.count(f"history:systematic:{lab}")
        verdict([], Hist(libs), f"systematic/{CFG_NAMES[w]}/end", "full")
    # ---- random histories
    families = ["flags", "flags", "reverse-on-standard", "error-path", "error-first", "cache-clear-first", "flags"]
    for i in range(ctx.budget(70, 500)):
        w = list(ETSI)[i % 5]
        fam = families[(i // 5) % len(families)]
        steps, labs = gen_history(rng, w, cfg_variants(rng, w), fam)
        execute(steps, f"{fam}/{labs}", full_probe=(i % 16 == 15))
        ctx.count(f"history:{fam}:{CFG_NAMES[w]}")
        ctx.count("history:steps", len(steps))
    verdict([], Hist(libs), "random/end", "full")
    # ---- more (width, polynomial) keys than the cache holds, then the standard ones again
    keys = [[w, p] for w in (3, 4, 5, 6) for p in range(1, 1 << w)] + [[7, p] for p in rng.sample([q for q in range(1, 128) if q != ETSI[7]], 30)]
    rng.shuffle(keys)  # 146 keys, functools.lru_cache keeps 128
    steps = [["std", "s0", "ct", 9], ["s", "s0", "101100111"], ["tables", keys]] + [["std", f"s{w}", "ct", w] for w in ETSI] + [["s", f"s{w}", rand_msg(rng, dict(w=w, fw=0, revIn=0), aligned=True)] for w in ETSI]
    execute(steps, "cache-eviction", full_probe="full")
    ctx.count("history:cache-eviction:keys", len(keys))
    if not ctx.search_only and ctx.driver_ok:
        ctx.correspond("histories.any-configuration", pairs)


# ------------------------------------------------------------------------------------------------
# (3) argument provenance, correlated inputs, very long messages
def provenance_cases(ctx, crcmod, CRC8, CRC9, CRC16, CRC32, CrcMasks):
    """the same message handed over as objects of different provenance must get the same (right) check sum, and
    must not be changed: frozenbitarray, a bitarray importing a read-only buffer, a slice copy, a bitarray made
    by the library's own bytes_to_bits, the calculator's own previous result; bytes / bytearray / memoryview /
    bytes produced by another code path (bitarray.tobytes, byteswap_bytes) for the byte-oriented front ends"""
    from bitarray import frozenbitarray

    rng = ctx.rng
    enums = {7: crcmod.Crc7, 8: crcmod.Crc8, 9: crcmod.Crc9, 16: crcmod.Crc16, 32: crcmod.Crc32}
    try:
        from okdmr.dmrlib.utils.bits_bytes import bytes_to_bits, byteswap_bytes
    except BaseException:  # noqa
        bytes_to_bits = byteswap_bytes = None
    for w, en in enums.items():
        name = CFG_NAMES[w]
        for tb in (False, True):
            calc = call(crcmod.BitCrcCalculator, en.ETSI_DMR, tb)
            if is_err(calc):
                continue
            for _ in range(ctx.budget(6, 40)):
                nb = rng.randint(1, 14)
                d = bytes(rng.getrandbits(8) for _ in range(nb))
                bits = bytes_bits(d)
                exp = "".join(str(x) for x in poly_rem(bits, w))
                big = bitarray(bits)
                forms = [("frozenbitarray", lambda: frozenbitarray(big)), ("read-only-buffer", lambda: bitarray(buffer=d)),
                         ("writable-buffer", lambda: bitarray(buffer=bytearray(d))), ("slice-of-longer", lambda: (bitarray([1, 0, 1]) + big + bitarray([1]))[3:-1]),
                         ("memoryview-import", lambda: bitarray(buffer=memoryview(d)))]
                if bytes_to_bits is not None:
                    forms.append(("library-bytes_to_bits", lambda: bytes_to_bits(d)))
                for lab, mk in forms:
                    arg = call(mk)
                    if is_err(arg):
                        continue
                    r = out_bits(call(calc.calculate_checksum, arg))
                    ctx.case((name, tb, "provenance", lab, d))
                    ctx.count(f"provenance:engine:{lab}")
                    if r != exp or arg.tolist() != bits:
                        ctx.fail("table-not-remainder" if tb else "bitwise-not-remainder", {"component": "engine", "config": name, "bits": barg(big), "previous": None, "argument": lab},
                                 f"{name}: the message handed over as {lab} gets another check sum than the remainder (or was altered)", expected=exp, actual=r)
                # the calculator's own result fed back (crc of the crc), the result object must survive
                r1 = call(calc.calculate_checksum, bitarray(big))
                if isinstance(r1, bitarray):
                    keep = out_bits(r1)
                    r2 = out_bits(call(calc.calculate_checksum, r1))
                    exp2 = "".join(str(x) for x in poly_rem([int(c) for c in keep], w))
                    ctx.case((name, tb, "own-result-as-input", d))
                    ctx.count("provenance:engine:own-result-as-input")
                    if r2 != exp2 or out_bits(r1) != keep:
                        ctx.fail("result-aliased", {"component": "engine", "config": name, "bits": keep, "previous": barg(big), "argument": "the calculator's own previous result object"},
                                 f"{name}: calculate_checksum fed with its own previous result object", expected=f"{exp2}, argument still {keep}", actual=f"{r2}, argument now {out_bits(r1)}")
    for _ in range(ctx.budget(40, 300)):
        d = bytes(rng.getrandbits(8) for _ in range(rng.choice([1, 2, 3, 10, 12, rng.randint(0, 30)])))
        forms = [("bytearray", bytearray(d)), ("memoryview", memoryview(d)), ("bitarray.tobytes", bitarray(bytes_bits(d)).tobytes()), ("bytes-slice", (b"\x00" + d + b"\xff")[1:-1])]
        if byteswap_bytes is not None:
            forms.append(("library-byteswap-twice", call(lambda: bytes(byteswap_bytes(byteswap_bytes(d))))))
        m = rng.choice(list(CrcMasks))
        sn = rng.randrange(128)
        g16 = (rem_int(bytes_bits(d), 16) ^ 0xFFFF) ^ ETSI_MASKS.get(m.name, m.value)
        g32 = rem_int(bytes_bits(ref_byteswap(d)), 32)
        g9 = (rem_int(bytes_bits(d) + [(sn >> (6 - k)) & 1 for k in range(7)], 9) ^ 0x1FF) ^ ETSI_MASKS.get(m.name, m.value)
        for lab, arg in forms:
            if is_err(arg):
                continue
            snapshot = bytes(arg)
            res = [("crc16", call(CRC16.calculate, arg, m), g16, {"component": "crc16", "data": hex_str(d), "mask": m.name}),
                   ("crc32", call(CRC32.calculate, arg), g32, {"component": "crc32", "data": hex_str(d)}),
                   ("crc9", call(CRC9.calculate_from_parts, arg, sn, m), g9, {"component": "crc9", "data": hex_str(d), "serial": sn, "mask": m.name, "crc32": "none"})]
            for comp, r, good, inp in res:
                ctx.case((comp, "provenance", lab, d, m.name, sn))
                ctx.count(f"provenance:{comp}:{lab}")
                # an argument type the front end refuses on the unchanged tree is not part of the property: only wrong VALUES count
                if not is_err(r) and r != good:
                    ctx.fail(f"{comp}-front", dict(inp, argument=lab), f"{comp}: data handed over as {lab} gets another check sum", expected=good, actual=out_int(r))
            if bytes(arg) != snapshot:
                ctx.fail("input-mutated", {"component": "front", "data": hex_str(d), "argument": lab}, "a front end altered the caller's buffer", expected=snapshot.hex(), actual=bytes(arg).hex())


def correlated_cases(ctx, crcmod, CRC8, CRC9, CRC16, CRC32, CrcMasks):
    """inputs whose parts are correlated through the check sum itself: the message followed by / preceded by /
    wrapped around its own check sum (in every octet / bit order and with / without inversion and mask), the
    CRC-9 `crc32` part being the CRC-32 of the data (the real use), data made of the mask / the polynomial, the
    serial number equal to bits of the check sum; check() on such inputs with the embedded value and the right one"""
    rng = ctx.rng
    masks = list(CrcMasks)
    pairs16, pairs32, pairs9, pairs8, pairs_e = [], [], [], [], []
    enums = {7: crcmod.Crc7, 8: crcmod.Crc8, 9: crcmod.Crc9, 16: crcmod.Crc16, 32: crcmod.Crc32}
    # ---- raw engines: code words (remainder 0), code word + own remainder again, with the check sum in front
    for w, en in enums.items():
        name = CFG_NAMES[w]
        calcs = [(call(crcmod.BitCrcCalculator, en.ETSI_DMR, False), "b"), (call(crcmod.BitCrcCalculator, en.ETSI_DMR, True), "t")]
        if any(is_err(c) for c, _ in calcs):
            continue
        for _ in range(budget2(ctx, 10, 60)):
            n = rng.choice([rng.randint(1, 60), ref_feed_width(w) * rng.randint(1, 5), 80])
            m = [rng.getrandbits(1) for _ in range(n)]
            c = poly_rem(m, w)
            for lab, msg in (("message+crc", m + c), ("message+crc+crc", m + c + c), ("crc+message", c + m), ("message+reversed-crc", m + c[::-1]),
                             ("message+inverted-crc", m + [1 - x for x in c]), ("message+crc+zeros", m + c + [0] * rng.randint(1, 2 * w)), ("crc-only", c), ("crc+crc", c + c)):
                exp = "".join(str(x) for x in poly_rem(msg, w))
                arg = barg(bitarray(msg))
                for calc, mt in calcs:
                    r = out_bits(call(calc.calculate_checksum, bitarray(msg)))
                    pairs_e.append((f"crc.bit {name} {arg}" if mt == "b" else f"crc.tab {name} 0 {arg}", r))
                    ctx.case((name, mt, "correlated", lab, arg))
                    ctx.count(f"correlated:engine:{lab}")
                    if r != exp:
                        ctx.fail("table-not-remainder" if mt == "t" else "bitwise-not-remainder", {"component": "engine", "config": name, "bits": arg, "previous": None, "class": lab},
                                 f"{name}: message that embeds its own check sum ({lab})", expected=exp, actual=r)
                    good = int(exp, 2)
                    emb = int("".join(map(str, c)), 2)
                    for v in dict.fromkeys((good, emb, 0)):
                        rv = call(calc.verify_checksum, bitarray(msg), v)
                        ctx.case((name, mt, "correlated-verify", lab, arg, v))
                        if rv is not (v == good):
                            ctx.fail("verify-not-exact", {"component": "verify", "config": name, "bits": arg, "value": v, "table": mt == "t", "class": lab},
                                     f"{name}.verify_checksum on a message that embeds its own check sum ({lab})", expected=(v == good), actual=str(rv))
    # ---- byte-oriented front ends
    for k in range(budget2(ctx, 40, 300)):
        d = bytes(rng.getrandbits(8) for _ in range(rng.choice([2, 4, 8, 10, 10, 12, rng.randint(1, 30)])))
        m = masks[k % len(masks)]
        mv = ETSI_MASKS.get(m.name, m.value)
        c16 = ((rem_int(bytes_bits(d), 16) ^ 0xFFFF) ^ mv) & 0xFFFF
        p16 = rem_int(bytes_bits(d), 16)
        c32 = rem_int(bytes_bits(ref_byteswap(d)), 32)
        datas16 = [("data+crc-be", d + c16.to_bytes(2, "big")), ("data+crc-le", d + c16.to_bytes(2, "little")), ("data+plain-remainder", d + p16.to_bytes(2, "big")),
                   ("crc+data", c16.to_bytes(2, "big") + d), ("data+crc+crc", d + c16.to_bytes(2, "big") * 2), ("mask-octets", (mv & 0xFFFF).to_bytes(2, "big") * rng.randint(1, 5)),
                   ("polynomial-octets", b"\x10\x21" * rng.randint(1, 5)), ("data+mask", d + (mv & 0xFFFF).to_bytes(2, "big"))]
        for lab, dd in datas16:
            good = (rem_int(bytes_bits(dd), 16) ^ 0xFFFF) ^ mv
            r = call(CRC16.calculate, dd, m)
            pairs16.append((f"crc16 {hex_str(dd)} {m.value}", out_int(r)))
            ctx.case(("crc16-correlated", lab, dd, m.name))
            ctx.count(f"correlated:crc16:{lab}")
            if r != good:
                ctx.fail("crc16-front", {"component": "crc16", "data": hex_str(dd), "mask": m.name, "class": lab}, f"CRC16.calculate on data that embeds its own check sum ({lab})", expected=good, actual=out_int(r))
            for v in dict.fromkeys((good & 0xFFFF, c16, 0, 0xFFFF, mv & 0xFFFF, (mv ^ 0xFFFF) & 0xFFFF, 0x1D0F, 0xE2F0)):
                c = call(CRC16.check, dd, v, m)
                pairs16.append((f"crc16.check {hex_str(dd)} {v} {m.value}", out_bool(c)))
                ctx.case(("crc16.check-correlated", lab, dd, v, m.name))
                if c != (v == good):
                    ctx.fail("crc16-check", {"component": "crc16.check", "data": hex_str(dd), "value": v, "mask": m.name, "class": lab}, f"CRC16.check on data that embeds its own check sum ({lab})", expected=str(v == good), actual=str(c))
        datas32 = [("data+crc-be", d + c32.to_bytes(4, "big")), ("data+crc-le", d + c32.to_bytes(4, "little")), ("data+crc-octet-pairs-swapped", d + ref_byteswap(c32.to_bytes(4, "big"))),
                   ("crc+data", c32.to_bytes(4, "big") + d), ("polynomial-octets", b"\x04\xc1\x1d\xb7" * rng.randint(1, 4)), ("data+crc-be+pad", d + c32.to_bytes(4, "big") + bytes(rng.randint(1, 5)))]
        for lab, dd in datas32:
            good = rem_int(bytes_bits(ref_byteswap(dd)), 32)
            r = call(CRC32.calculate, dd)
            pairs32.append((f"crc32 {hex_str(dd)}", out_int(r)))
            ctx.case(("crc32-correlated", lab, dd))
            ctx.count(f"correlated:crc32:{lab}")
            if r != good:
                ctx.fail("crc32-front", {"component": "crc32", "data": hex_str(dd), "class": lab}, f"CRC32.calculate on data that embeds its own check sum ({lab})", expected=good, actual=out_int(r))
            for v in dict.fromkeys((good, c32, int.from_bytes(c32.to_bytes(4, "little"), "big"), int.from_bytes(good.to_bytes(4, "little"), "big"), 0, 0xFFFFFFFF, 0xC704DD7B, 0x38FB2284)):
                c = call(CRC32.check, dd, v)
                pairs32.append((f"crc32.check {hex_str(dd)} {v}", out_bool(c)))
                ctx.case(("crc32.check-correlated", lab, dd, v))
                if c != (v == good):
                    ctx.fail("crc32-check", {"component": "crc32.check", "data": hex_str(dd), "value": v, "class": lab}, f"CRC32.check on data that embeds its own check sum ({lab})", expected=str(v == good), actual=str(c))
        # CRC-9 whose crc32 part IS the CRC-32 of the data (as in the last block of a confirmed transmission), in every notation
        sn = rng.randrange(128)
        m9 = rng.choice([CrcMasks.Rate12DataContinuation, CrcMasks.Rate34DataContinuation, CrcMasks.Rate1DataContinuation])
        mv9 = ETSI_MASKS[m9.name]
        plain9 = rem_int(bytes_bits(d) + [(sn >> (6 - i)) & 1 for i in range(7)], 9)
        for lab, arg in (("crc32-of-data-int", c32), ("crc32-of-data-bytes-be", c32.to_bytes(4, "big")), ("crc32-of-data-bytes-le", c32.to_bytes(4, "little")),
                         ("crc32-equals-first-4-data-octets", (d + bytes(4))[:4]), ("serial=low-7-bits-of-crc9", None)):
            s = sn if lab != "serial=low-7-bits-of-crc9" else ((plain9 ^ 0x1FF) ^ mv9) & 0x7F
            if isinstance(arg, int):
                tag, extra = f"i:{arg}", (bytes_bits(arg.to_bytes(4, "big")) if arg else [])
            elif arg is None:
                tag, extra = "none", []
            else:
                tag, extra = "b:" + arg.hex(), bytes_bits(arg)
            good = (rem_int(bytes_bits(d) + extra + [(s >> (6 - i)) & 1 for i in range(7)], 9) ^ 0x1FF) ^ mv9
            r = call(CRC9.calculate_from_parts, d, s, m9, arg)
            pairs9.append((f"crc9 {hex_str(d)} {s} {m9.value} {tag}", out_int(r)))
            ctx.case(("crc9-correlated", lab, d, s, m9.name, tag))
            ctx.count(f"correlated:crc9:{lab}")
            if r != good:
                ctx.fail("crc9-front", {"component": "crc9", "data": hex_str(d), "serial": s, "mask": m9.name, "crc32": tag, "class": lab}, f"CRC9.calculate_from_parts with correlated parts ({lab})", expected=good, actual=out_int(r))
        # a 9-bit constant straddling the boundary: last two data bits ‖ 7-bit serial number = 0, all-ones, the polynomial, a mask …
        for t9 in (0, 0x1FF, ETSI[9], 0x0F0, 0x10F, 0x1FF ^ 0x0F0, ((plain9 ^ 0x1FF) ^ mv9) & 0x1FF):
            dd = d[:-1] + bytes([(d[-1] & 0xFC) | (t9 >> 7)])
            s = t9 & 0x7F
            good = (rem_int(bytes_bits(dd) + [(s >> (6 - i)) & 1 for i in range(7)], 9) ^ 0x1FF) ^ mv9
            r = call(CRC9.calculate_from_parts, dd, s, m9)
            pairs9.append((f"crc9 {hex_str(dd)} {s} {m9.value} none", out_int(r)))
            ctx.case(("crc9-correlated", "straddle", dd, s, m9.name))
            ctx.count("correlated:crc9:constant-straddles-data-and-serial-number")
            if r != good:
                ctx.fail("crc9-front", {"component": "crc9", "data": hex_str(dd), "serial": s, "mask": m9.name, "crc32": "none", "class": "constant straddles data and serial number"},
                         f"CRC9.calculate_from_parts with the 9-bit constant {t9:#05x} across the data / serial number boundary", expected=good, actual=out_int(r))
        # CRC-8: 36-bit style message followed by its own CRC-8
        b8 = [rng.getrandbits(1) for _ in range(rng.choice([28, 36, rng.randint(1, 64)]))]
        c8 = poly_rem(b8, 8)
        for lab, msg in (("message+crc", b8 + c8), ("crc+message", c8 + b8), ("message+inverted-crc", b8 + [1 - x for x in c8])):
            r = call(CRC8.calculate, bitarray(msg))
            pairs8.append((f"crc8 0 {barg(bitarray(msg))}", out_int(r)))
            ctx.case(("crc8-correlated", lab, barg(bitarray(msg))))
            ctx.count(f"correlated:crc8:{lab}")
            if r != rem_int(msg, 8):
                ctx.fail("crc8-front", {"component": "crc8", "bits": barg(bitarray(msg)), "class": lab}, f"CRC8.calculate on a message that embeds its own check sum ({lab})", expected=rem_int(msg, 8), actual=out_int(r))
    if not ctx.search_only and ctx.driver_ok:
        ctx.correspond("engine.correlated", pairs_e)
        ctx.correspond("CRC16.correlated", pairs16)
        ctx.correspond("CRC32.correlated", pairs32)
        ctx.correspond("CRC9.correlated", pairs9)
        ctx.correspond("CRC8.correlated", pairs8)


def long_message_cases(ctx, crcmod, CRC16, CRC32, CrcMasks):
    """far beyond the dense range: one message of > 65536 bits per configuration in table mode, one of > 8192 bits
    bit by bit (oracle only: the reference division is linear, the model driver is not asked)"""
    rng = ctx.rng
    enums = {7: crcmod.Crc7, 8: crcmod.Crc8, 9: crcmod.Crc9, 16: crcmod.Crc16, 32: crcmod.Crc32}
    for w, en in enums.items():
        name = CFG_NAMES[w]
        fw = ref_feed_width(w)
        for tb, n in ((True, rng.choice([65536, 65537, 65536 + fw, fw * 7300 + rng.randint(0, fw)])), (False, rng.choice([8192, 8193, 8200 + rng.randint(0, 900)])), (True, 4096 + rng.randint(0, 9))):
            bits = [rng.getrandbits(1) for _ in range(n)]
            exp = "".join(str(x) for x in poly_rem(bits, w))
            r = out_bits(call(crcmod.BitCrcCalculator(en.ETSI_DMR, tb).calculate_checksum, bitarray(bits)))
            ctx.case((name, tb, "very-long", n, exp))
            ctx.count(f"long:{name}:{'table' if tb else 'bitwise'}:>{'65535' if n > 65535 else '8191' if n > 8191 else '4095'}-bits")
            if r != exp:
                ctx.fail("table-not-remainder" if tb else "bitwise-not-remainder", {"component": "engine", "config": name, "bits": barg(bitarray(bits)), "previous": None, "class": f"{n} bits"},
                         f"{name}: message of {n} bits", expected=exp, actual=r)
    for nb in (8192, 8193, 1500, 65535 // 8 + 3):
        d = bytes(rng.getrandbits(8) for _ in range(nb))
        r = call(CRC32.calculate, d)
        good = rem_int(bytes_bits(ref_byteswap(d)), 32)
        ctx.case(("crc32-long", nb, good))
        ctx.count("long:crc32-front")
        if r != good:
            ctx.fail("crc32-front", {"component": "crc32", "data": hex_str(d)}, f"CRC32.calculate on {nb} octets", expected=good, actual=out_int(r))
        r = call(CRC16.calculate, d, CrcMasks.CSBK)
        good = (rem_int(bytes_bits(d), 16) ^ 0xFFFF) ^ ETSI_MASKS["CSBK"]
        ctx.case(("crc16-long", nb, good))
        ctx.count("long:crc16-front")
        if r != good:
            ctx.fail("crc16-front", {"component": "crc16", "data": hex_str(d), "mask": "CSBK"}, f"CRC16.calculate on {nb} octets", expected=good, actual=out_int(r))


# ------------------------------------------------------------------------------------------------
# (4) ambient interpreter / process state: a fixed small sample of the oracle with the root logger at DEBUG, with a
#     sys.stdout that raises, with `random` reseeded between the calls, with warnings turned into errors, and in a
#     child `python -O` process (asserts stripped) whose FIRST library calls are failing ones and a non-default
#     7-bit configuration (forced thread interleavings: out of scope, the property does not speak of concurrency)
def mini_oracle(seed, n, first_calls_fail=False, between=None):
    """self-contained sample of the oracle; returns (cases, [failure dicts]).  `between()` is called between the
    library calls.  Under `python -O` the range asserts of check() are gone: an out-of-range value then has to be
    rejected with False (either way it must not be accepted)."""
    import random as _random

    rng = _random.Random(f"C05-mini:{seed}")
    fails, cases = [], 0
    between = between or (lambda: None)

    def bad(kind, inp, what, exp, act):
        if len(fails) < 20:
            fails.append({"kind": kind, "input": inp, "what": what, "expected": exp, "actual": act})

    try:
        crcmod, CRC8, CRC9, CRC16, CRC32, CrcMasks = lib()
    except BaseException as e:  # noqa
        return 0, [{"kind": "ambient-import", "input": {"component": "ambient"}, "what": "the CRC modules cannot be imported", "expected": "import", "actual": impl_error(e)}]
    enums = {7: crcmod.Crc7, 8: crcmod.Crc8, 9: crcmod.Crc9, 16: crcmod.Crc16, 32: crcmod.Crc32}
    if first_calls_fail:
        # the first call on every class is one that raises; a non-default 7-bit table register (same width and
        # polynomial as Crc7.ETSI_DMR, output reversed) is the first user of the 7-bit lookup table
        for fn, args in ((CRC16.calculate, (None, CrcMasks.CSBK)), (CRC16.check, (b"\x01\x02", 1 << 20, CrcMasks.CSBK)), (CRC32.calculate, (None,)), (CRC32.check, (b"\x01", -1)),
                         (CRC9.calculate_from_parts, (b"\x01", 300, CrcMasks.CSBK)), (CRC9.check, (b"\x01", 1, 4096, CrcMasks.CSBK)), (CRC8.calculate, (None,)), (CRC8.check, (bitarray("1"), 999))):
            call(fn, *args)
        # (no front end holds a 7-bit calculator: in this process the very first 7-bit lookup table is asked for by a
        #  register with ANOTHER polynomial, the second by a non-default one with the ETSI polynomial)
        for w, poly, flags in ((7, OTHER_POLY[7], {}), (7, ETSI[7], {"reverse_output_bytes": True}), (8, ETSI[8], {"reverse_output_bytes": True}),
                               (9, ETSI[9], {"reverse_output_bytes": True, "final_xor_value": 0x1FF}), (16, ETSI[16], {"final_xor_value": 0xFFFF, "init_value": 0xFFFF}),
                               (32, ETSI[32], {"reverse_output_bytes": True, "reverse_input_bytes": True, "final_xor_value": 0xFFFFFFFF, "init_value": 0xFFFFFFFF})):
            c = call(crcmod.BitCrcConfiguration, polynomial=poly, width_bits=w, **flags)
            reg = call(crcmod.TableBasedBitCrcRegister, c)
            if not is_err(reg):
                for _ in range(6):
                    call(reg.init)
                    call(reg.update, bitarray([rng.getrandbits(1) for _ in range(8 * w * rng.randint(1, 2) if w > 9 else w * rng.randint(1, 2))]))
                    call(reg.digest)
                    call(reg.reverse)
        call(lambda: crcmod.BitCrcCalculator(crcmod.Crc7.ETSI_DMR, True).calculate_checksum(None))
    calcs = {(w, tb): call(crcmod.BitCrcCalculator, en.ETSI_DMR, tb) for w, en in enums.items() for tb in (False, True)}
    masks = list(CrcMasks)
    for i in range(n):
        w = (7, 8, 9, 16, 32)[i % 5]
        name = CFG_NAMES[w]
        fw = ref_feed_width(w)
        nbits = rng.choice([0, fw, 2 * fw, rng.randint(0, 100), 8 * rng.randint(1, 12)])
        bits = [rng.getrandbits(1) for _ in range(nbits)]
        exp = "".join(str(x) for x in poly_rem(bits, w))
        good = int(exp, 2)
        for tb in (False, True):
            calc = calcs[(w, tb)]
            between()
            r = out_bits(call(calc.calculate_checksum, bitarray(bits))) if not is_err(calc) else calc
            cases += 1
            if r != exp:
                bad("table-not-remainder" if tb else "bitwise-not-remainder", {"component": "engine", "config": name, "bits": barg(bitarray(bits)), "previous": None}, f"{name} differs from the remainder", exp, r)
            for v in dict.fromkeys((good, _bitrev(good, w), good ^ ((1 << w) - 1), good + 1)):
                between()
                rv = call(calc.verify_checksum, bitarray(bits), v) if not is_err(calc) else calc
                cases += 1
                if rv is not (v == good):
                    bad("verify-not-exact", {"component": "verify", "config": name, "bits": barg(bitarray(bits)), "value": v, "table": tb}, f"{name}.verify_checksum does not accept exactly the remainder", v == good, str(rv))
        d = bytes(rng.getrandbits(8) for _ in range(rng.choice([0, 1, 2, 10, 12, rng.randint(0, 24)])))
        m = masks[i % len(masks)]
        mv = ETSI_MASKS.get(m.name, m.value)
        sn = rng.randrange(128)
        c32 = rng.choice([None, rng.getrandbits(32) | 1, (rng.getrandbits(32) | 1).to_bytes(4, "big")])
        if i % 4 == 3:
            # parts that repeat a check sum of each other: the data ends with the CRC-32 trailer of the octets before, crc32 = the same octets
            c32 = ref_crc32(d).to_bytes(4, "little")
            d = d + c32
        extra = [] if c32 is None else bytes_bits(c32 if isinstance(c32, bytes) else c32.to_bytes(4, "big"))
        tag = "none" if c32 is None else (f"i:{c32}" if isinstance(c32, int) else "b:" + c32.hex())
        b8 = [rng.getrandbits(1) for _ in range(rng.randint(0, 72))]
        fronts = [
            ("crc16", lambda: CRC16.calculate(d, m), lambda v: CRC16.check(d, v, m), (rem_int(bytes_bits(d), 16) ^ 0xFFFF) ^ mv, 16, 0xFFFF, {"data": hex_str(d), "mask": m.name}),
            ("crc32", lambda: CRC32.calculate(d), lambda v: CRC32.check(d, v), rem_int(bytes_bits(ref_byteswap(d)), 32), 32, 0xFFFFFFFF, {"data": hex_str(d)}),
            ("crc9", lambda: CRC9.calculate_from_parts(d, sn, m, c32), lambda v: CRC9.check(d, sn, v, m, c32), (rem_int(bytes_bits(d) + extra + [(sn >> (6 - k)) & 1 for k in range(7)], 9) ^ 0x1FF) ^ mv, 9, 511,
             {"data": hex_str(d), "serial": sn, "mask": m.name, "crc32": tag}),
            ("crc8", lambda: CRC8.calculate(bitarray(b8)), lambda v: CRC8.check(bitarray(b8), v), rem_int(b8, 8), 8, 255, {"bits": barg(bitarray(b8))}),
        ]
        for comp, calc_fn, check_fn, good, w_, top, inp in fronts:
            between()
            r = call(calc_fn)
            cases += 1
            if r != good:
                bad(f"{comp}-front", dict(inp, component="crc9" if comp == "crc9" else comp), f"{comp}: wrong check sum", good, out_int(r))
            nbo = (w_ + 7) // 8
            for lab, v in (("computed", good), ("octets-reversed", int.from_bytes((good & ((1 << 8 * nbo) - 1)).to_bytes(nbo, "big"), "little")), ("bits-reversed", _bitrev(good, w_)),
                           ("complement", good ^ ((1 << w_) - 1)), ("plus-1", good + 1), ("out-of-range", good + top + 1), ("negative", -1)):
                between()
                c = call(check_fn, v)
                cases += 1
                in_range = (v <= top) if comp == "crc9" else (0 <= v <= top)
                # out of range (also the computed value itself when the mask is wider than the CRC): refused by the
                # range assert, or — asserts stripped — answered like any other value
                ok = (c is (v == good)) if in_range else (c == "ERR AssertionError" or c is (v == good))
                if not ok:
                    bad(f"{comp}-check", dict(inp, component=f"{comp}.check", value=v, transform=lab), f"{comp}.check does not accept exactly the computed value ({lab})", str(v == good) if in_range else "rejected", str(c))
    return cases, fails


class _RaisingWriter:
    def write(self, *_a, **_k):
        raise OSError("stdout is closed")

    def flush(self):
        raise OSError("stdout is closed")


def run_ambient_mode(mode, seed, n):
    """(cases, failures) of the mini oracle under one ambient state; everything is restored afterwards"""
    import logging
    import random as _random
    import sys
    import warnings

    if mode == "logging-debug":
        root = logging.getLogger()
        old, handler = root.level, logging.NullHandler()
        names = [nm for nm in list(logging.root.manager.loggerDict) if nm.startswith("okdmr")]
        olds = {nm: logging.getLogger(nm).level for nm in names}
        root.addHandler(handler)
        root.setLevel(logging.DEBUG)
        for nm in names:
            logging.getLogger(nm).setLevel(logging.DEBUG)
        try:
            return mini_oracle(seed, n)
        finally:
            root.setLevel(old)
            root.removeHandler(handler)
            for nm, lv in olds.items():
                logging.getLogger(nm).setLevel(lv)
    if mode == "stdout-raises":
        old_out, old_err = sys.stdout, sys.stderr
        sys.stdout = sys.stderr = _RaisingWriter()
        try:
            return mini_oracle(seed, n)
        finally:
            sys.stdout, sys.stderr = old_out, old_err
    if mode == "random-reseeded":
        state = _random.getstate()
        k = [0]

        def between():
            k[0] += 1
            _random.seed(k[0] % 3)

        try:
            return mini_oracle(seed, n, between=between)
        finally:
            _random.setstate(state)
    if mode == "warnings-are-errors":
        with warnings.catch_warnings():
            warnings.simplefilter("error")
            return mini_oracle(seed, n)
    if mode == "python -O":
        return run_child(seed, n)
    return mini_oracle(seed, n)


def run_child(seed, n):
    """the mini oracle in a child `python -O` process that starts with failing calls; (cases, failures) or
    (None, note) when the child could not be run (never reported as a violation)"""
    import os
    import subprocess
    import sys

    here = os.path.abspath(__file__)
    harness = os.path.dirname(os.path.dirname(here))
    env = dict(os.environ)
    pp = [p for p in (os.environ.get("VERIF_REPO"), harness) if p]
    env["PYTHONPATH"] = os.pathsep.join(pp + ([env["PYTHONPATH"]] if env.get("PYTHONPATH") else []))
    try:
        r = subprocess.run([sys.executable, "-O", here, "--child", str(seed), str(n)], capture_output=True, text=True, timeout=300, env=env)
        obj = json.loads(r.stdout.strip().splitlines()[-1])
        if obj.get("debug") is not False:
            return None, "child did not run with -O"
        return obj["cases"], obj["failures"]
    except BaseException as e:  # noqa
        return None, f"child process unavailable: {impl_error(e)}"


AMBIENT_MODES = ["logging-debug", "stdout-raises", "random-reseeded", "warnings-are-errors", "python -O"]


def ambient_cases(ctx):
    for mode in AMBIENT_MODES:
        seed = ctx.rng.getrandbits(32)
        n = 60 if mode != "python -O" else 150
        cases, fails = run_ambient_mode(mode, seed, n)
        if cases is None:
            ctx.notes.append(f"ambient mode '{mode}': {fails}")
            ctx.count(f"ambient:{mode}:unavailable")
            continue
        ctx.evaluations += cases
        ctx.case(("ambient", mode, seed))
        ctx.count(f"ambient:{mode}:calls", cases)
        for f in fails[:5]:
            inp = dict(f["input"], ambient={"mode": mode, "seed": seed, "n": n})
            where = "fresh `python -O` process whose first calls raise / use non-default configurations" if mode == "python -O" else mode
            ctx.fail(f["kind"], inp, f"[{where}] {f['what']}", expected=f["expected"], actual=f["actual"])


def child_main(argv):
    import sys

    cases, fails = mini_oracle(int(argv[0]), int(argv[1]), first_calls_fail=True)
    sys.stdout.write(json.dumps({"debug": __debug__, "cases": cases, "failures": fails}, default=str) + "\n")


# ================================================================================================
# round 4: self-referential inputs ACROSS ARGUMENTS / PARTS
# ------------------------------------------------------------------------------------------------
# A front end with several parts / arguments (CRC9: data, crc32, dbsn, mask [, crc9 for check]; CRC16: data, crc16,
# mask; CRC32: data, crc32; CRC8: bits, crc8; a register object: the pieces) is fed inputs in which ONE PART IS A
# CHECK SUM OF (a prefix of) ANOTHER PART *and* THE SAME VALUE IS HANDED OVER AGAIN AS A SEPARATE ARGUMENT:
#   data = X ‖ T   with  T = check sum of X (every convention of this file, every octet notation)  and  crc32 = T,
#   data = X ‖ T,  check value = T;   dbsn = low / high bits of a check sum of the data;   piece k+1 = digest so far …
# The expectation is always the reference division of what the standard says is covered (for CRC-9: data ‖ crc32 ‖
# dbsn, each part exactly once), never anything computed by the library.
def ref_crc32(d: bytes) -> int:
    return rem_int(bytes_bits(ref_byteswap(d)), 32)


def ref_crc16(d: bytes, mv: int) -> int:
    return (rem_int(bytes_bits(d), 16) ^ 0xFFFF) ^ mv


def sn_bits(sn: int):
    return [(sn >> (6 - k)) & 1 for k in range(7)]


def ref_crc9(d: bytes, extra, sn: int, mv: int) -> int:
    return (rem_int(bytes_bits(d) + list(extra) + sn_bits(sn), 9) ^ 0x1FF) ^ mv


def convention_values(x: bytes, mv16: int, mv9: int, sn: int):
    """[(label, width, value)]: the check sums of the octets x in every convention this file knows — what this
    library, another layer of the same stack or a peer with another flavour of the same polynomial would append"""
    import binascii
    import zlib

    xb = bytes_bits(x)
    c32 = ref_crc32(x)
    p16 = rem_int(xb, 16)
    return [
        ("crc32", 32, c32), ("crc32-of-unswapped-octets", 32, rem_int(xb, 32)), ("zlib.crc32", 32, zlib.crc32(x)),
        ("crc32-bzip2-flavour", 32, _ref_variant(xb, 32, init_ones=True, xorout=0xFFFFFFFF)), ("crc32-complemented", 32, c32 ^ 0xFFFFFFFF),
        ("crc16", 16, ((p16 ^ 0xFFFF) ^ mv16) & 0xFFFF), ("crc16-plain-remainder", 16, p16), ("crc16-not-masked", 16, p16 ^ 0xFFFF), ("crc_hqx-init-ffff", 16, binascii.crc_hqx(x, 0xFFFF)),
        ("crc9", 9, ref_crc9(x, [], sn, mv9) & 0x1FF), ("crc9-plain-remainder", 9, rem_int(xb + sn_bits(sn), 9)),
        ("crc8", 8, rem_int(xb, 8)),
    ]


def value_octets(width: int, v: int, n: int):
    """[(notation, n octets)]: a width-bit check sum written into n octets — big-endian, little-endian (the library's
    CRC-32 trailer), octet pairs swapped; a narrower value left-padded with zeros or repeated, a wider one cut"""
    nbo = (width + 7) // 8
    be = v.to_bytes(nbo, "big")
    forms = [("be", be), ("le", be[::-1])]
    if nbo == 4:
        forms.append(("octet-pairs-swapped", ref_byteswap(be)))
    out, seen = [], set()
    for lab, o in forms:
        if len(o) == n:
            cands = [(lab, o)]
        elif len(o) < n:
            cands = [(lab + "-zero-padded", bytes(n - len(o)) + o)] + ([(lab + "-repeated", o * (n // len(o)))] if n % len(o) == 0 else [])
        else:
            cands = [(lab + "-low-octets", o[-n:]), (lab + "-high-octets", o[:n])]
        for l2, o2 in cands:
            if o2 not in seen:
                seen.add(o2)
                out.append((l2, o2))
    return out


def burst_in_octets(rng, o: bytes, maxlen: int) -> bytes:
    """o with a burst of 1..maxlen bits (first and last bit of the window inverted, random in between) inside it"""
    n = 8 * len(o)
    e, _, _ = burst_pattern(rng, n, min(maxlen, n))
    return (bitarray(bytes_bits(o)) ^ e).tobytes()


def cross_part_cases(ctx, crcmod, CRC8, CRC9, CRC16, CRC32, CrcMasks):
    rng = ctx.rng
    masks = list(CrcMasks)
    rate_masks = [CrcMasks.Rate12DataContinuation, CrcMasks.Rate34DataContinuation, CrcMasks.Rate1DataContinuation]
    pairs9, pairs16, pairs32, pairs8, pairs_r = [], [], [], [], []
    nfail = [0]

    def mval(m):
        return ETSI_MASKS.get(m.name, m.value)

    def fail(kind, inp, what, expected, actual):
        if nfail[0] < 40:
            nfail[0] += 1
            ctx.fail(kind, inp, what, expected=expected, actual=actual)

    def rnd(n):
        return bytes(rng.getrandbits(8) for _ in range(n))

    def prefix(n):
        """the octets the check sum is taken over: mostly random, sometimes all-zero / all-ones / one bit"""
        k = rng.randrange(8)
        if k == 0:
            return bytes(n)
        if k == 1:
            return b"\xff" * n
        if k == 2 and n:
            u = bytearray(n)
            u[rng.randrange(n)] = 1 << rng.randrange(8)
            return bytes(u)
        return rnd(n)

    # ---------------------------------------------------------------- CRC-9 from parts: data, crc32, dbsn (and the value of check())
    def crc9_args(t: bytes):
        """the octets t as a `crc32` argument in every accepted notation: (tag, argument, the 32 bits the standard covers)"""
        ib, il = int.from_bytes(t, "big"), int.from_bytes(t, "little")
        out = [("b:" + t.hex(), t, bytes_bits(t)), (f"i:{ib}", ib, bytes_bits(t) if ib else [])]
        if il != ib:
            out.append((f"i:{il}", il, bytes_bits(t[::-1]) if il else []))  # the trailer read as a little-endian integer: other octets
        return out

    def one9(d, sn, m, tag, arg, extra, klass, deep=True, bucket=None):
        mv = mval(m)
        good = ref_crc9(d, extra, sn, mv)
        r = call(CRC9.calculate_from_parts, d, sn, m, arg)
        pairs9.append((f"crc9 {hex_str(d)} {sn} {m.value} {tag}", out_int(r)))
        ctx.case(("crc9-cross", d, sn, m.name, tag))
        ctx.count(f"cross:crc9:{bucket or klass.split(';')[0]}")
        inp = {"component": "crc9", "data": hex_str(d), "serial": sn, "mask": m.name, "crc32": tag, "class": klass}
        if r != good:
            fail("crc9-front", inp, f"CRC9.calculate_from_parts is not (inverted remainder of data|crc32|dbsn) xor mask on parts that repeat a check sum of each other ({klass})", good, out_int(r))
        if not deep:
            return
        # check(): exactly the computed value — not the value without the crc32 part, not the one with the data tail dropped
        wrong = [good ^ (1 << rng.randrange(9)), ref_crc9(d, [], sn, mv), ref_crc9(d[:-4], extra, sn, mv), ref_crc9(d[:-4], [], sn, mv), ref_crc9(d, list(extra) + list(extra), sn, mv), sn, sn << 2]
        for v in dict.fromkeys([good] + wrong):
            c = call(CRC9.check, d, sn, v, m, arg)
            pairs9.append((f"crc9.check {hex_str(d)} {sn} {v} {m.value} {tag}", out_bool(c)))
            ctx.case(("crc9.check-cross", d, sn, v, m.name, tag))
            exp = "ERR AssertionError" if v > 511 else (v == good)
            if c != exp:
                fail("crc9-check", dict(inp, component="crc9.check", value=v), f"CRC9.check does not accept exactly the computed value on parts that repeat a check sum of each other ({klass})", str(exp), str(c))
        # corruption INSIDE the duplicated part: a burst of at most 9 bits in the crc32 argument / in the last four data octets
        for where in ("crc32-argument", "data-tail"):
            if where == "crc32-argument":
                if not isinstance(arg, bytes):
                    continue
                a2 = burst_in_octets(rng, arg, 9)
                d2, tag2, arg2, extra2 = d, "b:" + a2.hex(), a2, bytes_bits(a2)
            else:
                if len(d) < 4:
                    continue
                d2, tag2, arg2, extra2 = d[:-4] + burst_in_octets(rng, d[-4:], 9), tag, arg, extra
            good2 = ref_crc9(d2, extra2, sn, mv)
            r2 = call(CRC9.calculate_from_parts, d2, sn, m, arg2)
            pairs9.append((f"crc9 {hex_str(d2)} {sn} {m.value} {tag2}", out_int(r2)))
            ctx.case(("crc9-cross-burst", d2, sn, m.name, tag2))
            ctx.count(f"cross:crc9:burst-inside-{where}")
            if good2 == good:
                raise AssertionError("harness: a burst <= 9 bits does not change the reference CRC-9")
            if r2 != good2:
                fail("crc9-front", {"component": "crc9", "data": hex_str(d2), "serial": sn, "mask": m.name, "crc32": tag2, "class": klass + f", then a burst inside the {where}"},
                     f"CRC9.calculate_from_parts is not the reference value next to parts that repeat a check sum of each other ({klass}; burst inside the {where})", good2, out_int(r2))
            if not is_err(r) and r == r2:
                fail("burst-undetected", {"component": "burst-crc9-parts", "data": hex_str(d), "serial": sn, "mask": m.name, "crc32": tag, "data2": hex_str(d2), "crc32_2": tag2, "class": klass},
                     f"CRC-9 parts differing by a burst of at most 9 bits inside the {where} get the same CRC-9 ({klass})", "different", out_int(r))

    # block sizes: 6 / 12 / 18 octets = a confirmed LAST block of rate 1/2, 3/4, 1 (the crc32 part is supplied there), 10 / 16 / 22 = the
    # other confirmed blocks; each with the mask of its rate; then other sizes with any mask
    rate_of = {6: 0, 10: 0, 12: 1, 16: 1, 18: 2, 22: 2}
    combos = []
    for nb in (6, 12, 18, 10, 16, 22, 4, 5, 8, rng.randint(7, 30)):
        x = prefix(max(0, nb - 4))
        m = rate_masks[rate_of[nb]] if nb in rate_of else rng.choice(masks)
        sns = [rng.choice([0, 127, rng.randrange(128)])] + ([0, 127, rng.randrange(128)] if nb in rate_of else [])
        for si, sn in enumerate(dict.fromkeys(sns)):
            for lab, width, v in convention_values(x, mval(rng.choice(masks)) & 0xFFFF, mval(m) & 0x1FF, sn):
                if si and lab != "crc32":
                    continue  # further serial numbers: the library's own CRC-32 only
                for nota, t in value_octets(width, v, 4):
                    layouts = [("data = X|T, crc32 = T", x + t), ("data = T|X, crc32 = T", t + x), ("data = X|T|T, crc32 = T", x + t + t), ("data = X|T|pad, crc32 = T", x + t + bytes(rng.randint(1, 4))),
                               ("data = X|T, crc32 = T octet-reversed", None), ("data = T, crc32 = T", t)]
                    for lay, d in (layouts if not si else layouts[:1]):
                        targ = t
                        if d is None:
                            d, targ = x + t, t[::-1]
                        for tag, arg, extra in crc9_args(targ):
                            # always: the 32-bit conventions at the tail (the layouts of a complete last block) for the block sizes, and the
                            # library's own CRC-32 (little- / big-endian) in EVERY layout; the rest is sampled
                            prio = (width == 32 and lay.startswith(("data = X|T, crc32 = T", "data = T, ")) and (nb in rate_of or nb == 4)) or (lab == "crc32" and nota in ("le", "be") and not si)
                            combos.append((prio, d, sn, m, tag, arg, extra, f"{lay}; T = {lab} of X, {nota}"))
    first = [c for c in combos if c[0]]
    rest = [c for c in combos if not c[0]]
    chosen = first + rng.sample(rest, min(len(rest), budget2(ctx, 260, 2400)))
    for k, (prio, d, sn, m, tag, arg, extra, klass) in enumerate(chosen):
        one9(d, sn, m, tag, arg, extra, klass, deep=(prio and "T = crc32 of X" in klass) or k % 4 == 0)
    ctx.count("cross:crc9:combinations-constructed", len(combos))
    # provenance of the duplicated part: the very same bytes OBJECT as data tail source and crc32, a bytearray / memoryview of it
    for _ in range(budget2(ctx, 6, 40)):
        x = rnd(rng.choice([6, 12, 18]))
        t = ref_crc32(x).to_bytes(4, "little")
        d = x + t
        sn, m = rng.randrange(128), rng.choice(rate_masks)
        good = ref_crc9(d, bytes_bits(t), sn, mval(m))
        for lab, arg in (("slice of the data object", d[-4:]), ("bytearray", bytearray(t)), ("memoryview", memoryview(t)), ("memoryview of the data", memoryview(d)[-4:])):
            r = call(CRC9.calculate_from_parts, d, sn, m, arg)
            ctx.case(("crc9-cross-provenance", d, sn, m.name, lab))
            ctx.count(f"cross:crc9:crc32-argument-is-{lab.split(' ')[0]}")
            # an argument type the front end refuses on the unchanged tree is not part of the property: only wrong VALUES count
            if not is_err(r) and r != good:
                fail("crc9-front", {"component": "crc9", "data": hex_str(d), "serial": sn, "mask": m.name, "crc32": "b:" + t.hex(), "class": f"data = X|T, crc32 = T handed over as {lab}; T = crc32 of X, le"},
                     f"CRC9.calculate_from_parts with the crc32 part handed over as {lab}", good, out_int(r))
    # the serial number repeats bits of a check sum of the other parts; the data tail repeats the CRC-9 that check() is asked about
    for _ in range(budget2(ctx, 24, 200)):
        nb = rng.choice([10, 16, 22, 6, 12, 18, rng.randint(2, 24)])
        d = prefix(nb)
        m = rng.choice(rate_masks + [rng.choice(masks)])
        mv = mval(m)
        c32 = ref_crc32(d)
        tagarg = rng.choice([("none", None, []), (f"i:{c32}", c32, bytes_bits(c32.to_bytes(4, "big")) if c32 else []), ("b:" + c32.to_bytes(4, "little").hex(), c32.to_bytes(4, "little"), bytes_bits(c32.to_bytes(4, "little")))])
        tag, arg, extra = tagarg
        srcs = [("crc32", 32, c32), ("crc16", 16, ref_crc16(d, ETSI_MASKS["DataHeader"]) & 0xFFFF), ("crc9-with-serial-0", 9, ref_crc9(d, extra, 0, mv) & 0x1FF), ("crc8", 8, rem_int(bytes_bits(d), 8))]
        for lab, width, v in srcs:
            for part, s in (("low", v & 0x7F), ("high", v >> (width - 7)), ("low-reversed", _bitrev(v & 0x7F, 7))):
                one9(d, s, m, tag, arg, extra, f"dbsn = {part} 7 bits of {lab} of the data, crc32 = {tag.split(':')[0]}", deep=False, bucket=f"dbsn = 7 bits of the {lab.split('-')[0]} of the data")
        # fixed point: the serial number equals the low 7 bits of the CRC-9 it is part of (searched over the 128 candidates)
        for s in range(128):
            if (ref_crc9(d, extra, s, mv) & 0x7F) == s:
                one9(d, s, m, tag, arg, extra, "dbsn = low 7 bits of the CRC-9 itself", deep=False)
                break
        # check(): the last two data octets are the value asked about, which is the CRC-9 of the octets before them
        x = d[:-2] if len(d) > 2 else d
        sn = rng.randrange(128)
        for lab, c9 in (("crc9 of X", ref_crc9(x, extra, sn, mv) & 0x1FF), ("crc9 of X without the crc32 part", ref_crc9(x, [], sn, mv) & 0x1FF)):
            for nota, t in value_octets(9, c9, 2):
                dd = x + t
                good = ref_crc9(dd, extra, sn, mv)
                for v in dict.fromkeys((c9, good, good ^ 1)):
                    c = call(CRC9.check, dd, sn, v, m, arg)
                    pairs9.append((f"crc9.check {hex_str(dd)} {sn} {v} {m.value} {tag}", out_bool(c)))
                    ctx.case(("crc9.check-cross-tail", dd, sn, v, m.name, tag))
                    ctx.count("cross:crc9:data-tail=check-value=crc9-of-head")
                    exp = "ERR AssertionError" if v > 511 else (v == good)
                    if c != exp:
                        fail("crc9-check", {"component": "crc9.check", "data": hex_str(dd), "serial": sn, "value": v, "mask": m.name, "crc32": tag, "class": f"data = X|T, value = T; T = {lab}, {nota}"},
                             "CRC9.check does not accept exactly the computed value when the data ends with the value asked about", str(exp), str(c))
    # ---------------------------------------------------------------- CRC16.check: data, crc16, mask
    for k in range(budget2(ctx, 15, 160)):
        # every mask once on 8 octets (X|T is then the 10-octet body of a 96-bit PDU), then other lengths
        nbo = 8 if k < len(masks) else rng.choice([8, 10, 2, 4, 1, rng.randint(1, 30)])
        x = prefix(nbo)
        m = masks[k % len(masks)]
        mv = mval(m)
        other = rng.choice([o for o in masks if o is not m])
        convs = convention_values(x, mv & 0xFFFF, mval(rng.choice(rate_masks)), rng.randrange(128))
        convs += [("crc16-under-mask-" + other.name, 16, ref_crc16(x, mval(other)) & 0xFFFF), ("the-mask", 16, mv & 0xFFFF), ("crc16-xor-mask", 16, (ref_crc16(x, mv) ^ mv) & 0xFFFF)]
        for lab, width, cv in convs:
            if width == 32 and k % 4:
                continue
            for nota, t in value_octets(width, cv, 2):
                for lay, dd in (("data = X|T", x + t), ("data = T|X", t + x), ("data = X|T|T", x + t + t), ("data = X|T|pad", x + t + bytes(rng.randint(1, 3))), ("data = T", t)):
                    good = ref_crc16(dd, mv)
                    klass = f"{lay}, crc16 = T; T = {lab} of X, {nota}"
                    r = call(CRC16.calculate, dd, m)
                    pairs16.append((f"crc16 {hex_str(dd)} {m.value}", out_int(r)))
                    ctx.case(("crc16-cross", dd, m.name))
                    if r != good:
                        fail("crc16-front", {"component": "crc16", "data": hex_str(dd), "mask": m.name, "class": klass}, f"CRC16.calculate on data that ends with a check sum of its head ({klass})", good, out_int(r))
                    tb, tl = int.from_bytes(t, "big"), int.from_bytes(t, "little")
                    # corruption inside the duplicated part: the data tail hit by a burst <= 16, the value still T
                    hit = (dd[:-2] + burst_in_octets(rng, dd[-2:], 16)) if len(dd) >= 2 else dd
                    for data_, vals in ((dd, (tb, tl, good & 0xFFFF, (good & 0xFFFF) ^ (1 << rng.randrange(16)))), (hit, (tb, ref_crc16(hit, mv) & 0xFFFF))):
                        g_ = ref_crc16(data_, mv)
                        for v in dict.fromkeys(vals):
                            c = call(CRC16.check, data_, v, m)
                            pairs16.append((f"crc16.check {hex_str(data_)} {v} {m.value}", out_bool(c)))
                            ctx.case(("crc16.check-cross", data_, v, m.name))
                            ctx.count(f"cross:crc16:{lay.replace(' ', '')}" + (":tail-corrupted" if data_ is hit and hit != dd else ""))
                            if c != (v == g_):
                                fail("crc16-check", {"component": "crc16.check", "data": hex_str(data_), "value": v, "mask": m.name, "class": klass + ("; then a burst inside the data tail" if data_ is not dd else "")},
                                     f"CRC16.check does not accept exactly the computed value when the data carries the value asked about ({klass})", str(v == g_), str(c))
    # ---------------------------------------------------------------- CRC32.check: data, crc32
    for k in range(budget2(ctx, 8, 120)):
        x = prefix(rng.choice([2, 6, 8, 12, 18, 1, 3, rng.randint(0, 40)]))
        for lab, width, cv in convention_values(x, mval(rng.choice(masks)) & 0xFFFF, mval(rng.choice(rate_masks)), rng.randrange(128)):
            if width < 16 and k % 3:
                continue
            for nota, t in value_octets(width, cv, 4):
                for lay, dd in (("data = X|T", x + t), ("data = T|X", t + x), ("data = X|T|T", x + t + t), ("data = X|T|pad", x + t + bytes(rng.randint(1, 3)))):
                    good = ref_crc32(dd)
                    klass = f"{lay}, crc32 = T; T = {lab} of X, {nota}"
                    r = call(CRC32.calculate, dd)
                    pairs32.append((f"crc32 {hex_str(dd)}", out_int(r)))
                    ctx.case(("crc32-cross", dd))
                    if r != good:
                        fail("crc32-front", {"component": "crc32", "data": hex_str(dd), "class": klass}, f"CRC32.calculate on data that ends with a check sum of its head ({klass})", good, out_int(r))
                    hit = dd[:-4] + burst_in_octets(rng, dd[-4:], 32)
                    tb, tl = int.from_bytes(t, "big"), int.from_bytes(t, "little")
                    for data_, vals in ((dd, (tb, tl, good, good ^ (1 << rng.randrange(32)))), (hit, (tb, tl))):
                        g_ = ref_crc32(data_)
                        for v in dict.fromkeys(vals):
                            c = call(CRC32.check, data_, v)
                            pairs32.append((f"crc32.check {hex_str(data_)} {v}", out_bool(c)))
                            ctx.case(("crc32.check-cross", data_, v))
                            ctx.count(f"cross:crc32:{lay.replace(' ', '')}" + (":tail-corrupted" if data_ is hit else ""))
                            if c != (v == g_):
                                fail("crc32-check", {"component": "crc32.check", "data": hex_str(data_), "value": v, "class": klass + ("; then a burst inside the data tail" if data_ is hit else "")},
                                     f"CRC32.check does not accept exactly the computed value when the data carries the value asked about ({klass})", str(v == g_), str(c))
    # ---------------------------------------------------------------- CRC8.check: bits, crc8 (the check bits as sent: most / least significant first)
    for k in range(budget2(ctx, 30, 300)):
        xb = [rng.getrandbits(1) for _ in range(rng.choice([20, 28, 28, 36, rng.randint(1, 80)]))] if k % 5 else [0] * 28
        c8 = rem_int(xb, 8)
        for lab, cv in (("crc8 of X", c8), ("crc8 of X complemented", c8 ^ 0xFF), ("low octet of the crc16 of X", rem_int(xb, 16) & 0xFF)):
            tbits = [(cv >> (7 - i)) & 1 for i in range(8)]
            for nota, tb_ in (("msb-first", tbits), ("lsb-first", tbits[::-1])):
                for lay, msg in (("bits = X|T", xb + tb_), ("bits = T|X", tb_ + xb), ("bits = X|T|T", xb + tb_ + tb_)):
                    good = rem_int(msg, 8)
                    arg = barg(bitarray(msg))
                    klass = f"{lay}, crc8 = T; T = {lab}, {nota}"
                    r = call(CRC8.calculate, bitarray(msg))
                    pairs8.append((f"crc8 0 {arg}", out_int(r)))
                    ctx.case(("crc8-cross", arg))
                    if r != good:
                        fail("crc8-front", {"component": "crc8", "bits": arg, "class": klass}, f"CRC8.calculate on bits that end with a check sum of their head ({klass})", good, out_int(r))
                    for v in dict.fromkeys((cv, _bitrev(cv, 8), good, good ^ (1 << rng.randrange(8)))):
                        c = call(CRC8.check, bitarray(msg), v)
                        pairs8.append((f"crc8.check 0 {arg} {v}", out_bool(c)))
                        ctx.case(("crc8.check-cross", arg, v))
                        ctx.count(f"cross:crc8:{lay.replace(' ', '')}")
                        if c != (v == good):
                            fail("crc8-check", {"component": "crc8.check", "bits": arg, "value": v, "class": klass}, f"CRC8.check does not accept exactly the computed value when the bits carry the value asked about ({klass})", str(v == good), str(c))
    # ---------------------------------------------------------------- register objects: the next piece is the check sum so far
    enums = {7: crcmod.Crc7, 8: crcmod.Crc8, 9: crcmod.Crc9, 16: crcmod.Crc16, 32: crcmod.Crc32}
    classes = {False: getattr(crcmod, "BitCrcRegister", None), True: getattr(crcmod, "TableBasedBitCrcRegister", None)}
    for w, en in enums.items():
        name = CFG_NAMES[w]
        for table, cls in classes.items():
            if cls is None:
                continue
            mt = "t" if table else "b"
            calc = call(crcmod.BitCrcCalculator, en.ETSI_DMR, table)
            for i in range(budget2(ctx, 8, 40)):
                reg = call(cls, en.ETSI_DMR)
                if is_err(reg) or is_err(calc):
                    break
                msg = [rng.getrandbits(1) for _ in range(rng.choice([ref_feed_width(w) * rng.randint(1, 5), rng.randint(1, 70)]))]
                how = ["the-returned-object-itself", "copy-of-the-returned-value", "one-shot-value-of-the-message", "returned-value-twice"][i % 4]
                call(reg.init)
                r1 = call(reg.update, bitarray(msg))
                if not isinstance(r1, bitarray):
                    continue
                c1 = [int(b) for b in r1.tolist()]
                if how == "the-returned-object-itself":
                    pieces, args = [msg, c1], [r1]
                elif how == "copy-of-the-returned-value":
                    pieces, args = [msg, c1], [bitarray(r1)]
                elif how == "one-shot-value-of-the-message":
                    o = call(calc.calculate_checksum, bitarray(msg))
                    if not isinstance(o, bitarray):
                        continue
                    pieces, args = [msg, [int(b) for b in o.tolist()]], [o]
                else:
                    pieces, args = [msg, c1, c1], [bitarray(r1), bitarray(r1)]
                outs = [out_bits(r1)] + [out_bits(call(reg.update, a)) for a in args]
                outs.append(out_bits(call(reg.digest)))
                exp, acc = [], []
                for p in pieces:
                    acc = acc + p
                    exp.append("".join(str(b) for b in poly_rem(acc, w)))
                exp.append(exp[-1])
                pstr = [barg(bitarray(p)) for p in pieces]
                pairs_r.append((f"crc.reg {name} {mt} i " + " ".join("u:" + s for s in pstr) + " d", ",".join(outs)))
                ctx.case((name, mt, "cross-stream", tuple(pstr), how))
                ctx.count(f"cross:register:next-piece-is-{how}")
                if outs != exp:
                    fail("stream-not-remainder", {"component": "stream", "config": name, "table": table, "pieces": pstr, "object": "fresh", "previous": None, "mutate_returned": False, "class": "next piece = " + how},
                         f"{name} {'table' if table else 'bit-by-bit'} register: the check sum so far fed back as the next piece ({how})", ",".join(exp), ",".join(outs))
    if not ctx.search_only and ctx.driver_ok:
        ctx.correspond("CRC9.cross-part", pairs9)
        ctx.correspond("CRC16.cross-part", pairs16)
        ctx.correspond("CRC32.cross-part", pairs32)
        ctx.correspond("CRC8.cross-part", pairs8)
        ctx.correspond("register.cross-part", pairs_r)


CORPUS = [
    # (config width, bits): lengths around the feed widths and the CRC-9 block sizes
    (9, "1" * 87), (9, "1" * 135), (9, "1" * 183), (9, "0" * 8 + "1"), (7, "1" * 8), (16, "1" * 9), (32, "1" * 33), (8, "1"),
]


def corpus_cases(ctx, crcmod):
    enums = {7: crcmod.Crc7, 8: crcmod.Crc8, 9: crcmod.Crc9, 16: crcmod.Crc16, 32: crcmod.Crc32}
    pairs = []
    for w, s in CORPUS:
        name = CFG_NAMES[w]
        bits = bitarray(s)
        exp = "".join(str(x) for x in poly_rem(bits, w))
        for tb in (False, True):
            r = call(lambda: crcmod.BitCrcCalculator(enums[w].ETSI_DMR, tb).calculate_checksum(bitarray(bits)))
            pairs.append(((f"crc.tab {name} 0 {s}" if tb else f"crc.bit {name} {s}"), out_bits(r)))
            ctx.case(("corpus", w, s, tb))
            if out_bits(r) != exp:
                ctx.fail("table-not-remainder" if tb else "bitwise-not-remainder", {"component": "engine", "config": name, "bits": s}, f"{name} differs from the remainder on a corpus input", expected=exp, actual=out_bits(r))
    if not ctx.search_only and ctx.driver_ok:
        ctx.correspond("corpus", pairs)


# ------------------------------------------------------------------------------------------------
# history / object-identity probes (harness/histories.py): the five calculators + their front ends, described once
def ENTRY_POINTS():
    import histories as H

    crcmod, CRC8, CRC9, CRC16, CRC32, CrcMasks = lib()
    masks9 = [CrcMasks.Rate12DataContinuation, CrcMasks.Rate34DataContinuation, CrcMasks.Rate1DataContinuation]
    masks16 = [CrcMasks.CSBK, CrcMasks.DataHeader, CrcMasks.PiHeader]

    def bits(rng, n=None):
        n = n if n is not None else rng.choice([28, 28, 16, 80, 87, 135, 183, 96])
        kind = rng.choice(["random", "random", "zero", "ones"])
        b = bitarray(n)
        b.setall(kind == "ones")
        if kind == "random":
            b = int2ba(rng.getrandbits(n), length=n)
        return b

    def octets(rng, n=None):
        n = n if n is not None else rng.choice([10, 10, 12, 2, 24, 36])
        return bytes(n) if rng.random() < 0.15 else bytes(rng.getrandbits(8) for _ in range(n))

    # (no observe(): the shared calculators keep a scratch register that every calculation re-initialises first)
    eps = [
        H.EP("crc8.calculate", CRC8.calculate, lambda rng: (bits(rng),), domain="bits", draws=2),
        H.EP("crc8.check", CRC8.check, lambda rng: (bits(rng), rng.getrandbits(8)), kind="check", domain="bits+int"),
        H.EP("crc9.calculate", CRC9.calculate, lambda rng: (bits(rng), rng.choice(masks9)), domain="bits+mask", draws=2),
        H.EP("crc9.check", CRC9.check, lambda rng: (bits(rng), rng.getrandbits(9), rng.choice(masks9)), kind="check"),
        H.EP("crc16.calculate", CRC16.calculate, lambda rng: (octets(rng), rng.choice(masks16)), domain="octets+mask", draws=2),
        H.EP("crc16.check", CRC16.check, lambda rng: (octets(rng), rng.getrandbits(16), rng.choice(masks16)), kind="check"),
        H.EP("crc32.calculate", CRC32.calculate, lambda rng: (octets(rng),), domain="octets", draws=2),
        H.EP("crc32.check", CRC32.check, lambda rng: (octets(rng), rng.getrandbits(32)), kind="check"),
    ]
    # the engine itself under every configuration of the module (same message through calculators of other width / polynomial),
    # plain and table based; one long-lived calculator object per configuration AND a calculator built per call
    for fam in ("Crc7", "Crc8", "Crc9", "Crc16", "Crc32"):
        E = getattr(crcmod, fam, None)
        if E is None:
            continue
        for member in list(E)[:3]:
            for table in (False, True):
                tag = f"engine.{fam}.{member.name}{'.table' if table else ''}"
                shared = crcmod.BitCrcCalculator(member, table)
                eps.append(H.EP(f"{tag}.shared", shared.calculate_checksum, lambda rng: (bits(rng),), domain="bits", group="engine"))
                eps.append(H.EP(f"{tag}.new", (lambda b, member=member, table=table: crcmod.BitCrcCalculator(member, table).calculate_checksum(b)),
                                lambda rng: (bits(rng),), domain="bits", group="engine"))
    return eps


def run_transl(ctx):
    """Differential validation of the source translator (tools/py2lean.py + tools/py2lean_arr.py) and its preludes, trusted base of
    Props/C05t: the byte-order helpers TRANSLATED from the source of utils/bits_bytes.py (`Gen/TranslBitsBytes.lean`, driver
    operations `t.bb.*`) against the real byteswap_bytes / byteswap_bytearray / half_byte_to_bytes: every length 0..40 and some
    longer ones, odd and even, half-byte values -3..20 and out of range, repetition counts -1..7 and the default.  A difference
    is a translator or prelude bug, never a finding about /repo."""
    if ctx.search_only or not ctx.driver_ok:
        return
    from okdmr.dmrlib.utils.bits_bytes import byteswap_bytes as _sw, byteswap_bytearray as _swa, half_byte_to_bytes as _hb
    rng = ctx.rng

    def hx(b):
        return bytes(b).hex() if len(b) else "-"

    def res(fn, *a):
        try:
            return hx(fn(*a))
        except Exception as e:  # noqa
            return impl_error(e)

    pairs = []
    for n in list(range(0, 41)) + [63, 64, 255, 256, 1001]:
        for _ in range(ctx.budget(2, 10)):
            d = bytes(rng.randrange(256) for _ in range(n))
            pairs.append(("t.bb.swap " + hx(d), res(_sw, d)))
            pairs.append(("t.bb.swapba " + hx(d), res(_swa, bytearray(d))))
            ctx.count("transl:byteswap_bytes")
            ctx.count("transl:byteswap_bytearray")
    for h in list(range(-3, 21)) + [255, 256, 4095, -16]:
        for n in (-1, 0, 1, 2, 3, 7):
            pairs.append((f"t.bb.half {h} {n}", res(_hb, h, n)))
            ctx.count("transl:half_byte_to_bytes")
        pairs.append((f"t.bb.half1 {h}", res(_hb, h)))
        ctx.count("transl:half_byte_to_bytes")
    ctx.correspond("transl", pairs)


def run(ctx):
    ctx.trusted_base += [
        "tools/py2lean.py + tools/py2lean_arr.py + tools/extract_transl.py (source translator: Gen/TranslBitsBytes.lean from inspect.getsource of byteswap_bytes / "
        "byteswap_bytearray / half_byte_to_bytes) and lean/DmrVerif/Model/Py.lean, PyArr.lean (semantics of the Python subset); validated on every run by t.bb.* "
        "(run_transl); Props/C05t proves the translated definitions equal to the models' byteswap / halfByte",
    ]
    run_transl(ctx)
    ctx.rule = (
        "engine: for each of the five ETSI configurations every length 0..120 (thorough 0..400) with 2-3 random contents "
        "(+ all-ones/alternating/all-zero at some lengths), all unit vectors of many lengths, in bit-by-bit and table mode, "
        "compared with an independent GF(2) long division by the hard-coded ETSI polynomial; linearity on random pairs; random bursts "
        "<= width; verify_checksum on the computed / a flipped / an out-of-range value; all lookup table entries; feed widths of "
        "widths 1..129. Front ends: random byte/bit strings (CRC-16 with all 11 masks; CRC-9 with no / int / bytes / zero CRC-32 and "
        "all 128 serial numbers; CRC-32 even and odd lengths) against (inverted) remainder xor mask; check() on right / wrong / "
        "out-of-range values; CCITT: all 1- and 2-bit and sampled (thorough all) 3-bit differences on 80-bit messages and on 96-bit "
        "code words. Structured algebraic inputs (the CRC is affine in the message: >= w free bits — the last / first w, a random window, "
        "scattered positions — are solved for over GF(2) and the result re-checked by the reference division): messages whose remainder, "
        "and front-end data / parts whose RESULT after inversion, mask and byte order, is a chosen value (0, all-ones, every single bit, "
        "the mask, its complement, low-byte-only values …) for every engine, front end and mask, with calculate, verify_checksum and check() "
        "on the computed / a flipped / 0 / all-ones value; multiples of the generator; prefixes that bring the register to a chosen state "
        "(0, all-ones, table index 0 / last) followed by zero / one / random bits; all-zero, all-ones and one-bit data for every front end. "
        "Register objects through init() -> update() 1..n -> digest(): messages (random, unit, sparse, payload + zero pad octets, lone "
        "trailing 0 bit, zero fields, leading zeros, a prefix with remainder 0) cut into 1..6+ pieces (random cuts, at / next to multiples "
        "of the feed width, around runs of zeros, bit by bit, empty pieces) on fresh, re-used and calculator-owned registers of both kinds "
        "and all five configurations: every update() return value and the digest against the reference division and the one-shot value; "
        "returned bit strings held, scribbled over by the caller and re-verified. "
        "Round 3: (a) every check()/verify entry point (verify_checksum of the 5 engines in both modes, CRC8/16/32/9.check) on the computed value "
        "and ~50-80 wrong values that are systematic transforms of it — octets / bits reversed (whole, per octet, in the octet container), halves, "
        "octet pairs and nibbles swapped, complements, rotations, shifts, xor every data-type mask, the value under every other mask / without "
        "inversion / without mask, neighbours, truncations, sign and width confusions, xor the proper factors of the generator, the values other "
        "flavours of the same polynomial give (all-ones initial value, reflected, zlib.crc32, crc_hqx), the values of neighbouring inputs (octet "
        "dropped / added / reversed / not swapped, serial number +-1, CRC-32 part absent / octet-reversed) — verdict True exactly for the computed value; "
        "(b) histories: register objects and calculators of NON-DEFAULT configurations that share the lookup-table cache key or part of it with "
        "the standard ones (every flag of BitCrcConfiguration toggled alone and combined on each ETSI polynomial, explicit feed widths 1 / small / "
        "derived / = width / > width, another polynomial at the same width, the same polynomial at another width, a dataclass equal to the standard "
        "one) under every public call (init, update, digest, reverse, reading and assigning .register, calculate_checksum, verify_checksum, calls "
        "that raise, the caller changing returned objects in place, arguments that are frozen / read-only / little-endian), interleaved with "
        "standard registers, calculators and front-end calls; after every history the process-wide lookup tables are compared entry by entry with the "
        "reference division, standard objects inside the history are checked against the reference at every step, and — always when a table differs, "
        "else every 16th history — all standard engines (held and new, both kinds) and the four front ends are probed as black boxes on every "
        "one-chunk message; more (width, polynomial) keys than the cache holds; (c) argument provenance (frozenbitarray, read-only / writable / "
        "memoryview buffer imports, slices, the library's own bytes_to_bits, the calculator's own result fed back; bytearray / memoryview / tobytes "
        "for the byte front ends); (d) inputs correlated through the check sum (message ‖ crc in every order / notation, crc ‖ message, CRC-9 whose "
        "crc32 part is the CRC-32 of the data, mask / polynomial octets as data); (e) messages of > 8192 bits bit by bit and > 65536 bits table-driven; "
        "(f) a fixed sample of the oracle with the root logger at DEBUG, sys.stdout / stderr raising, `random` reseeded between calls, warnings as "
        "errors, and in a fresh `python -O` child process whose first library calls raise and whose first lookup tables are asked for by non-default "
        "configurations. "
        "Round 4: self-referential inputs ACROSS ARGUMENTS / PARTS — one part is a check sum of (a prefix of) another part AND is handed over again as a "
        "separate argument: CRC-9 parts with data = X|T (also T|X, X|T|T, X|T|pad, T alone) and crc32 = T (bytes, big-endian int, the trailer read as a "
        "little-endian int, octet-reversed, the same bytes object / bytearray / memoryview), T = the check sum of X in every convention of this file (library "
        "CRC-32 as little-endian trailer / big-endian / octet pairs swapped, remainder over unswapped octets, zlib / bzip2 flavour, complemented, CRC-CCITT under "
        "a mask / plain / not masked / crc_hqx, CRC-9, CRC-8 — narrower values zero-padded or repeated), against the reference division of data|crc32|dbsn with "
        "every part covered exactly once; check() on the computed value and on the values with a part left out / counted twice; a burst <= 9 bits inside the "
        "crc32 argument and inside the data tail must change the CRC-9; dbsn = low / high 7 bits of the CRC-32 / CRC-CCITT / CRC-9 / CRC-8 of the data, dbsn = "
        "low bits of the CRC-9 it is part of (fixed point); CRC9.check with data tail = the value asked about = CRC-9 of the data head; CRC16.check / "
        "CRC32.check / CRC8.check with data = X|T (T|X, X|T|T, X|T|pad, T) and the value asked about = T (both octet orders; bits most / least significant "
        "first) for T = every convention incl. the CRC under another mask and the mask itself, also with the data tail then hit by a burst; register objects "
        "whose next piece is the check sum returned so far (the returned object itself, a copy, the one-shot value, twice). "
        "A case is non-trivial unless the message is empty or all-zero; distinct = distinct (component, input)."
    )
    ctx.trusted_base += [
        "Lean 4.33 kernel; Mathlib (Polynomial, ZMod 2) for the statement of 'remainder'",
        "tools/extract_crc.py (the five BitCrcConfiguration values after __post_init__, the configuration/register kind of the four CALC singletons, all CrcMasks)",
        "hand-written model of crc.py / crc8.py / crc9.py / crc16.py / crc32.py (Model/Crc.lean, Model/CrcFront.lean; register objects fed in pieces: Model/CrcStream.lean) tied to the code by this run's correspondence",
        "bitarray (ba2int/int2ba/shift/xor/lexicographic >=) trusted as the substrate; the oracle's reference is an independent list-based long division in this file",
        "Model/CrcConfigs.lean (any configuration, every public call; driver op crc.cfg) is a pure function of one object's configuration and calls: that no call on "
        "one object changes what another object or a cached lookup table holds is not a theorem but what the history probes of this run check on the real code",
    ]
    ctx.assumptions += [
        "engine theorems are for big-endian containers (the library's representation of a bit string); on a little-endian container the table register reads full chunks as integers and differs from the bit-by-bit one — the CRC-32 front end depends on exactly that and is proved through it (DESIGN §8)",
        "reverse_input_bytes is off in all five configurations (theorem configs_etsi); it is modelled (Model/CrcConfigs.lean) for buffers of whole octets only — "
        "bitarray.bytereverse on a partial last octet depends on the buffer's pad bits; such calls are made in the histories but not compared with the model",
        "forced thread interleavings are not exercised (the property does not speak of concurrency; the calculators are documented single-threaded singletons)",
    ]
    crcmod, CRC8, CRC9, CRC16, CRC32, CrcMasks = lib()
    corpus_cases(ctx, crcmod)
    feed_width_cases(ctx, crcmod)
    mask_cases(ctx, CrcMasks)
    engine_cases(ctx, crcmod)
    front_cases(ctx, CRC8, CRC9, CRC16, CRC32, CrcMasks)
    detection_cases(ctx, CRC8, CRC9, CRC16, CRC32, CrcMasks)
    singleton_state_cases(ctx, CRC8, CRC9, CRC16, CRC32, CrcMasks)
    structured_engine_cases(ctx, crcmod)
    structured_front_cases(ctx, CRC8, CRC9, CRC16, CRC32, CrcMasks)
    stream_cases(ctx, crcmod)
    transform_cases(ctx, crcmod, CRC8, CRC9, CRC16, CRC32, CrcMasks)
    correlated_cases(ctx, crcmod, CRC8, CRC9, CRC16, CRC32, CrcMasks)
    cross_part_cases(ctx, crcmod, CRC8, CRC9, CRC16, CRC32, CrcMasks)
    provenance_cases(ctx, crcmod, CRC8, CRC9, CRC16, CRC32, CrcMasks)
    long_message_cases(ctx, crcmod, CRC16, CRC32, CrcMasks)
    ambient_cases(ctx)
    returned_object_cases(ctx, crcmod, CRC16, CRC9, CRC32, CrcMasks)
    history_cases(ctx, (crcmod, CRC8, CRC9, CRC16, CRC32, CrcMasks))
    import histories

    histories.run(ctx, ENTRY_POINTS, max_eps=20)


# ------------------------------------------------------------------------------------------------
def replay(obj):
    f = obj.get("failure") or {}
    inp = f.get("input", {}) or {}
    print(json.dumps(obj.get("type")), f.get("kind"), "-", f.get("what"))
    if not inp:
        print(json.dumps(obj.get("no_longer_checks") or obj.get("correspondence_differences"), indent=1)[:4000])
        return 1
    if str(f.get("kind", "")).startswith("history:"):
        import histories

        return histories.replay(inp, ENTRY_POINTS)
    if inp.get("ambient"):
        # found under an ambient interpreter / process state: the whole fixed sample is run again under that state
        a = inp["ambient"]
        cases, fails = run_ambient_mode(a["mode"], a["seed"], a["n"])
        print(f"ambient state '{a['mode']}': {cases} library calls, {len(fails) if cases is not None else fails} wrong")
        for x in (fails if cases is not None else [])[:5]:
            print(" ", x["kind"], json.dumps(x["input"]), "expected", x["expected"], "actual", x["actual"])
        print("expected:", f.get("expected"), "actual:", f.get("actual"))
        return 1 if cases is not None and fails else 0
    crcmod, CRC8, CRC9, CRC16, CRC32, CrcMasks = lib()
    enums = {"crc7": crcmod.Crc7, "crc8": crcmod.Crc8, "crc9": crcmod.Crc9, "crc16": crcmod.Crc16, "crc32": crcmod.Crc32}
    widths = {v: k for k, v in CFG_NAMES.items()}
    comp = inp.get("component")
    still = 0
    lines = []

    def bits_of(s):
        return bitarray() if s == "-" else bitarray(s)

    if comp in ("engine", "verify") and "bits" in inp:
        name = inp["config"]
        w = widths[name]
        bits = bits_of(inp["bits"])
        exp = "".join(str(x) for x in poly_rem(bits, w))
        cb = crcmod.BitCrcCalculator(enums[name].ETSI_DMR, False)
        ct = crcmod.BitCrcCalculator(enums[name].ETSI_DMR, True)
        if inp.get("previous") is not None:
            # same calculator objects, the message they processed before first
            call(cb.calculate_checksum, bits_of(inp["previous"]))
            call(ct.calculate_checksum, bits_of(inp["previous"]))
            print(f"(after a calculation of {inp['previous']} on the same calculator objects)")
        rb = out_bits(call(cb.calculate_checksum, bitarray(bits)))
        rt = out_bits(call(ct.calculate_checksum, bitarray(bits)))
        print(f"implementation bit-by-bit: {rb}\nimplementation table:      {rt}\nremainder (reference):     {exp}")
        lines = [f"crc.bit {name} {inp['bits']}", f"crc.tab {name} 0 {inp['bits']}"]
        still = int(rb != exp or rt != exp)
        if "value" in inp:
            v = inp["value"]
            r = call(lambda: crcmod.BitCrcCalculator(enums[name].ETSI_DMR, bool(inp.get("table"))).verify_checksum(bitarray(bits), v))
            print(f"implementation verify_checksum(…, {v}) = {r}; expected {v == rem_int(bits, w)}")
            still = int(r is not (v == rem_int(bits, w)))
    elif comp == "engine" and "a" in inp:
        name = inp["config"]
        a, b = bits_of(inp["a"]), bits_of(inp["b"])
        calc = crcmod.BitCrcCalculator(enums[name].ETSI_DMR, bool(inp.get("table")))
        ra, rb = out_bits(call(calc.calculate_checksum, bitarray(a))), out_bits(call(calc.calculate_checksum, bitarray(b)))
        rx = out_bits(call(calc.calculate_checksum, a ^ b))
        print(f"implementation crc(a) = {ra}\nimplementation crc(b) = {rb}\nimplementation crc(a^b) = {rx}")
        still = int(ra == rb) if f.get("kind") == "burst-undetected" else 1
        lines = [f"crc.bit {name} {barg(a)}", f"crc.bit {name} {barg(b)}"]
    elif comp == "crc16":
        d = bytes.fromhex(inp["data"]) if inp["data"] != "-" else b""
        m = CrcMasks[inp["mask"]]
        r = call(CRC16.calculate, d, m)
        good = (rem_int(bytes_bits(d), 16) ^ 0xFFFF) ^ ETSI_MASKS.get(m.name, m.value)
        print(f"implementation CRC16.calculate = {r}; (inverted remainder) xor mask = {good}")
        lines = [f"crc16 {hex_str(d)} {m.value}"]
        still = int(r != good)
    elif comp == "crc32":
        d = bytes.fromhex(inp["data"]) if inp["data"] != "-" else b""
        r = call(CRC32.calculate, d)
        good = rem_int(bytes_bits(ref_byteswap(d)), 32)
        print(f"implementation CRC32.calculate = {r}; remainder over swapped octets = {good}")
        lines = [f"crc32 {hex_str(d)}"]
        still = int(r != good)
    elif comp == "crc8":
        bits = bits_of(inp["bits"])
        r = call(CRC8.calculate, bitarray(bits))
        print(f"implementation CRC8.calculate = {r}; remainder = {rem_int(bits, 8)}")
        lines = [f"crc8 0 {barg(bits)}"]
        still = int(r != rem_int(bits, 8))
    elif comp == "crc9":
        d = bytes.fromhex(inp["data"]) if inp["data"] != "-" else b""
        m = CrcMasks[inp["mask"]]
        tag = inp["crc32"]
        arg = None if tag == "none" else (int(tag[2:]) if tag.startswith("i:") else bytes.fromhex(tag[2:]))
        r = call(CRC9.calculate_from_parts, d, inp["serial"], m, arg)
        extra = [] if arg in (None, 0) else bytes_bits(arg if isinstance(arg, bytes) else arg.to_bytes(4, "big"))
        src = bytes_bits(d) + extra + [(inp["serial"] >> (6 - k)) & 1 for k in range(7)]
        good = (rem_int(src, 9) ^ 0x1FF) ^ ETSI_MASKS.get(m.name, m.value)
        print(f"implementation CRC9.calculate_from_parts = {r}; expected {good}")
        lines = [f"crc9 {hex_str(d)} {inp['serial']} {m.value} {tag}"]
        still = int(r != good)
    elif comp == "burst-crc9-parts":
        m = CrcMasks[inp["mask"]]
        res = []
        for dk, ck in (("data", "crc32"), ("data2", "crc32_2")):
            d = bytes.fromhex(inp[dk]) if inp[dk] != "-" else b""
            tag = inp[ck]
            arg = None if tag == "none" else (int(tag[2:]) if tag.startswith("i:") else bytes.fromhex(tag[2:]))
            res.append(call(CRC9.calculate_from_parts, d, inp["serial"], m, arg))
            lines.append(f"crc9 {hex_str(d)} {inp['serial']} {m.value} {tag}")
        print(f"implementation CRC9.calculate_from_parts of the two part sets (differing by a burst <= 9 bits) = {res[0]} / {res[1]}")
        still = int(res[0] == res[1])
    elif comp == "crc16.check":
        d = bytes.fromhex(inp["data"]) if inp["data"] != "-" else b""
        m = CrcMasks[inp["mask"]]
        v = inp["value"]
        good = (rem_int(bytes_bits(d), 16) ^ 0xFFFF) ^ ETSI_MASKS.get(m.name, m.value)
        exp = "ERR AssertionError" if not (0 <= v <= 0xFFFF) else (v == good)
        c = call(CRC16.check, d, v, m)
        print(f"(inverted remainder) xor mask = {good}; implementation CRC16.calculate = {call(CRC16.calculate, d, m)}; CRC16.check(…, {v}, {m.name}) = {c}; expected {exp}")
        lines = [f"crc16 {hex_str(d)} {m.value}", f"crc16.check {hex_str(d)} {v} {m.value}"]
        still = int(c != exp)
    elif comp == "crc8.check":
        bits = bits_of(inp["bits"])
        v = inp["value"]
        good = rem_int(bits, 8)
        exp = "ERR AssertionError" if not (0 <= v <= 255) else (v == good)
        c = call(CRC8.check, bitarray(bits), v)
        print(f"remainder = {good}; implementation CRC8.check(…, {v}) = {c}; expected {exp}")
        lines = [f"crc8 0 {barg(bits)}", f"crc8.check 0 {barg(bits)} {v}"]
        still = int(c != exp)
    elif comp == "crc32.check":
        d = bytes.fromhex(inp["data"]) if inp["data"] != "-" else b""
        v = inp["value"]
        good = rem_int(bytes_bits(ref_byteswap(d)), 32)
        exp = "ERR AssertionError" if not (0 <= v <= 0xFFFFFFFF) else (v == good)
        c = call(CRC32.check, d, v)
        print(f"remainder over swapped octets = {good}; implementation CRC32.check(…, {v}) = {c}; expected {exp}")
        lines = [f"crc32 {hex_str(d)}", f"crc32.check {hex_str(d)} {v}"]
        still = int(c != exp)
    elif comp == "crc9.check":
        d = bytes.fromhex(inp["data"]) if inp["data"] != "-" else b""
        m = CrcMasks[inp["mask"]]
        tag, v, sn = inp["crc32"], inp["value"], inp["serial"]
        arg = None if tag == "none" else (int(tag[2:]) if tag.startswith("i:") else bytes.fromhex(tag[2:]))
        extra = [] if arg in (None, 0) else bytes_bits(arg if isinstance(arg, bytes) else arg.to_bytes(4, "big"))
        good = (rem_int(bytes_bits(d) + extra + [(sn >> (6 - k)) & 1 for k in range(7)], 9) ^ 0x1FF) ^ ETSI_MASKS.get(m.name, m.value)
        exp = "ERR AssertionError" if v > 511 else (v == good)
        c = call(CRC9.check, d, sn, v, m, arg)
        print(f"(inverted remainder) xor mask = {good}; implementation CRC9.check(…, {v}, …) = {c}; expected {exp}")
        lines = [f"crc9 {hex_str(d)} {sn} {m.value} {tag}", f"crc9.check {hex_str(d)} {sn} {v} {m.value} {tag}"]
        still = int(c != exp)
    elif comp == "crc9.bits":
        bits = bits_of(inp["bits"])
        m = CrcMasks[inp["mask"]]
        good = (rem_int(bits, 9) ^ 0x1FF) ^ ETSI_MASKS.get(m.name, m.value)
        r = call(CRC9.calculate, bitarray(bits), m)
        print(f"implementation CRC9.calculate = {r}; (inverted remainder) xor mask = {good}")
        lines = [f"crc9.bits 0 {barg(bits)} {m.value}"]
        still = int(r != good)
    elif comp == "history":
        libs = (crcmod, CRC8, CRC9, CRC16, CRC32, CrcMasks)
        probe = StdProbe(libs)  # standard calculators that exist before the history
        h = Hist(libs)
        for st, o in zip(inp["history"], h.run(inp["history"])):
            print(f"  {json.dumps(st)}  ->  {o}")
        for kind, what, exp, act, at in h.problems:
            print(f"step {at}: {what}: expected {exp}, got {act}")
            still = 1
        ch = h.held_changed()
        if ch:
            print(f"the bit string returned at step {ch[0]} was {ch[1]} and is now {ch[2]}")
            still = 1
        bad = check_tables(crcmod, (CRC8, CRC9, CRC16, CRC32), heal=False)
        for where, w, i, exp, act in bad[:8]:
            print(f"lookup table {where} of {CFG_NAMES[w]}: entry {i} is {act}, the remainder of its index is {exp}")
        still = still or int(bool(bad))
        pr = inp.get("probe")
        if pr:
            e = pr.get("engine", "")
            if "bits" in pr and pr.get("config"):
                name = pr["config"]
                bits = bits_of(pr["bits"])
                exp = "".join(str(x) for x in poly_rem(bits, widths[name]))
                calc = probe.held[(widths[name], True)] if e == "held-table" else probe.held[(widths[name], False)] if e == "held-bitwise" else crcmod.BitCrcCalculator(enums[name].ETSI_DMR, e != "new-bitwise")
                r = out_bits(call(calc.calculate_checksum, bitarray(bits)))
                print(f"after the history: standard {name} calculator ({e}) on {pr['bits']} -> {r}; remainder (reference) {exp}")
                lines = [f"crc.tab {name} 0 {pr['bits']}"]
                still = still or int(r != exp)
            else:
                got = probe.probe(__import__("random").Random(0), None, full=True)
                print(f"after the history: first wrong standard answer: {got}")
                still = still or int(got is not None)
        lines += [l for l, _ in h.model_pairs()]
    elif comp == "stream":
        name = inp["config"]
        w = widths[name]
        table = bool(inp.get("table"))
        cls = crcmod.TableBasedBitCrcRegister if table else crcmod.BitCrcRegister
        reg = cls(enums[name].ETSI_DMR)
        if inp.get("object") != "fresh" and inp.get("previous"):
            call(reg.init)
            for p in inp["previous"]:
                call(reg.update, bits_of(p))
            call(reg.digest)
            print("(same register object, after the message it was fed before)")
        pieces = [bits_of(p) for p in inp["pieces"]]
        outs, exp, acc = [], [], bitarray()
        call(reg.init)
        for p in pieces:
            r = call(reg.update, bitarray(p))
            outs.append(out_bits(r))
            if inp.get("mutate_returned") and isinstance(r, bitarray):
                r.invert()
            acc += p
            exp.append("".join(str(x) for x in poly_rem(acc, w)))
            if is_err(r):
                break
        outs.append(out_bits(call(reg.digest)))
        exp.append("".join(str(x) for x in poly_rem(acc, w)))
        one = out_bits(call(crcmod.BitCrcCalculator(enums[name].ETSI_DMR, table).calculate_checksum, bitarray(acc)))
        print(f"init(); update(p) for the {len(pieces)} pieces; digest()\nimplementation returns: {','.join(outs)}\nremainders (reference): {','.join(exp)}\none-shot calculate_checksum of the concatenation: {one}")
        lines = [f"crc.reg {name} {'t' if table else 'b'} i " + " ".join("u:" + barg(p) for p in pieces) + " d"]
        still = int(outs != exp)
    elif comp == "scribble":
        name = inp["config"]
        w = widths[name]
        bits = bits_of(inp["bits"])
        calc = crcmod.BitCrcCalculator(enums[name].ETSI_DMR, bool(inp.get("table")))
        exp = "".join(str(x) for x in poly_rem(bits, w))
        r1 = call(calc.calculate_checksum, bitarray(bits))
        first = out_bits(r1)
        if isinstance(r1, bitarray):
            r1.invert()
            r1 <<= 1
        r2 = out_bits(call(calc.calculate_checksum, bitarray(bits)))
        other = out_bits(call(crcmod.BitCrcCalculator(enums[name].ETSI_DMR, bool(inp.get("table"))).calculate_checksum, bitarray(bits)))
        print(f"first call: {first}; after changing the returned bit string, same calculator: {r2}; new calculator: {other}; remainder: {exp}")
        still = int(r2 != exp or other != exp)
    elif comp in ("ccitt-message", "ccitt-codeword"):
        m = CrcMasks[inp["mask"]]
        a = bits_of(inp["a"])
        c0 = call(CRC16.calculate, a.tobytes(), m)
        if comp == "ccitt-message":
            b = bitarray(a)
            for p in inp["positions"]:
                b.invert(p)
            c1 = call(CRC16.calculate, b.tobytes(), m)
            print(f"implementation CRC16 of a = {c0}, of a with bits {inp['positions']} inverted = {c1}")
            still = int(c0 == c1)
        else:
            word = a + int2ba(c0 & 0xFFFF, length=16)
            for p in inp.get("positions", []):
                word.invert(p)
            ok = call(CRC16.check, word[:80].tobytes(), ba2int(word[80:]), m)
            print(f"implementation CRC16.check on the corrupted code word = {ok}")
            still = int(ok is not False)
    else:
        print("input:", json.dumps(inp))
        still = 1
    if lines:
        try:
            import common

            ctx = common.Ctx(PROP, "quick", 0)
            for l, o in zip(lines, ctx.drive(lines)):
                print(f"model  {l}  ->  {o}")
        except Exception as e:  # noqa
            print("model driver not available:", e)
    print("expected:", f.get("expected"), "actual:", f.get("actual"))
    return 1 if still else 0


if __name__ == "__main__":
    import sys as _sys

    if len(_sys.argv) >= 4 and _sys.argv[1] == "--child":
        child_main(_sys.argv[2:])
