"""C05 — DMR CRCs equal the polynomial remainder, bitwise = table mode, front ends (DESIGN §5 C05)."""
import itertools
import json

from bitarray import bitarray
from bitarray.util import ba2int, int2ba

from common import bits_str, hex_str, impl_error

PROP = "C05"
MODULES = ["C05", "C05a"]
GEN = ["Crc"]
MATCHERS = {}
# extra files for the drift detector (the front ends' byte/bit plumbing lives here)
ANCHORS = ["okdmr/dmrlib/utils/bits_bytes.py"]

# the ETSI TS 102 361-1 generator polynomials (without the leading term), hard-coded on purpose:
# the oracle must not read them from the code under test
ETSI = {7: 0x27, 8: 0x07, 9: 0x59, 16: 0x1021, 32: 0x04C11DB7}
CFG_NAMES = {7: "crc7", 8: "crc8", 9: "crc9", 16: "crc16", 32: "crc32"}
# ETSI TS 102 361-1 B.3.12 data type CRC masks
ETSI_MASKS = {
    "PiHeader": 0x6969,
    "VoiceLCHeader": 0x969696,
    "TerminatorWithLC": 0x999999,
    "CSBK": 0xA5A5,
    "MBCHeader": 0xAAAA,
    "DataHeader": 0xCCCC,
    "UnifiedSingleBlockData": 0x3333,
    "Rate12DataContinuation": 0x0F0,
    "Rate34DataContinuation": 0x1FF,
    "Rate1DataContinuation": 0x10F,
    "ReverseChannel": 0x7A,
}


# ------------------------------------------------------------------------------------------------
# independent reference: GF(2) long division of message(x) * x^w by G(x), on Python lists
def poly_rem(bits, w):
    g = [1] + [(ETSI[w] >> (w - 1 - i)) & 1 for i in range(w)]
    d = [int(b) for b in bits] + [0] * w
    for i in range(len(bits)):
        if d[i]:
            for j in range(w + 1):
                d[i + j] ^= g[j]
    return d[len(bits):]


def rem_int(bits, w):
    v = 0
    for b in poly_rem(bits, w):
        v = (v << 1) | b
    return v


def bytes_bits(data: bytes):
    return [(b >> (7 - i)) & 1 for b in data for i in range(8)]


def ref_feed_width(w):
    if w % 8 == 0:
        return 8
    ds = [c for c in range(2, 16) if w % c == 0]
    return max(ds) if ds else 1


def ref_byteswap(data: bytes) -> bytes:
    out = bytearray(data)
    for i in range(0, len(data) - 1, 2):
        out[i], out[i + 1] = data[i + 1], data[i]
    return bytes(out)


def barg(bits) -> str:
    s = bits_str(bits)
    return s if s else "-"


def call(fn, *a, **kw):
    try:
        return fn(*a, **kw)
    except BaseException as e:  # noqa
        return impl_error(e)


def is_err(x):
    return isinstance(x, str) and x.startswith("ERR")


def out_bits(x):
    return x if is_err(x) else barg(x)


def out_int(x):
    return x if is_err(x) else str(int(x))


def out_bool(x):
    return x if is_err(x) else ("1" if x else "0")


def lib():
    from okdmr.dmrlib.etsi.crc import crc as crcmod
    from okdmr.dmrlib.etsi.crc.crc8 import CRC8
    from okdmr.dmrlib.etsi.crc.crc9 import CRC9
    from okdmr.dmrlib.etsi.crc.crc16 import CRC16
    from okdmr.dmrlib.etsi.crc.crc32 import CRC32
    from okdmr.dmrlib.etsi.layer2.elements.crc_masks import CrcMasks

    return crcmod, CRC8, CRC9, CRC16, CRC32, CrcMasks


def rand_bits(rng, n, kind="random"):
    if kind == "zeros":
        return bitarray([0] * n)
    if kind == "ones":
        return bitarray([1] * n)
    if kind == "alt":
        return bitarray([i & 1 for i in range(n)])
    v = rng.getrandbits(n) if n else 0
    return int2ba(v, length=n) if n else bitarray()


def burst_pattern(rng, n, maxlen):
    """a burst: first and last bit of a window of length 1..maxlen set, random in between"""
    ln = rng.randint(1, min(maxlen, n))
    pos = rng.randint(0, n - ln)
    e = [0] * n
    e[pos] = 1
    e[pos + ln - 1] = 1
    for i in range(pos + 1, pos + ln - 1):
        e[i] = rng.getrandbits(1)
    return bitarray(e), pos, ln


# ------------------------------------------------------------------------------------------------
def engine_cases(ctx, crcmod):
    enums = {7: crcmod.Crc7, 8: crcmod.Crc8, 9: crcmod.Crc9, 16: crcmod.Crc16, 32: crcmod.Crc32}
    maxlen = ctx.budget(120, 400)
    maxlen = min(maxlen, 1600)
    per_len = 2 if not ctx.thorough() else 3
    for w, en in enums.items():
        name = CFG_NAMES[w]
        cfg = call(lambda: en.ETSI_DMR)
        bit_calc = call(crcmod.BitCrcCalculator, cfg, False)
        tab_calc = call(crcmod.BitCrcCalculator, cfg, True)
        if is_err(cfg) or is_err(bit_calc) or is_err(tab_calc):
            ctx.fail("engine-construct", {"config": name}, f"cannot construct the {name} calculators: {cfg} {bit_calc} {tab_calc}")
            continue
        pairs_b, pairs_t, pairs_le = [], [], []
        # ---- the feed width the configuration really has
        fw = getattr(cfg.value, "feed_width_bits", None)
        if fw != ref_feed_width(w):
            ctx.fail("feed-width", {"config": name}, f"{name}: feed width is not the documented derivation", expected=ref_feed_width(w), actual=fw)

        prev = [None]

        def one(bits, tag, sample=False):
            in_b, in_t = bitarray(bits), bitarray(bits)
            rb = call(bit_calc.calculate_checksum, in_b)
            rt = call(tab_calc.calculate_checksum, in_t)
            sb, st = out_bits(rb), out_bits(rt)
            arg = barg(bits)
            if in_b != bits or in_t != bits:
                ctx.fail("input-mutated", {"component": "engine", "config": name, "bits": arg}, f"{name}.calculate_checksum altered the caller's bit buffer", expected=arg, actual=f"{barg(in_b)} / {barg(in_t)}")
            pairs_b.append((f"crc.bit {name} {arg}", sb))
            pairs_t.append((f"crc.tab {name} 0 {arg}", st))
            exp = "".join(str(x) for x in poly_rem(bits, w))
            ctx.case((name, tag, arg), nontrivial=bits.any() if len(bits) else False,
                     sample={"config": name, "bits": arg, "bitwise": sb, "table": st, "remainder": exp} if sample else None)
            ctx.count(f"engine:{name}:len%fw={'0' if len(bits) % fw == 0 else 'short-last-chunk'}")
            # the calculators are re-used objects: the message they saw before is part of the input
            inp = {"component": "engine", "config": name, "bits": arg, "previous": prev[0]}
            prev[0] = arg
            if sb != exp:
                ctx.fail("bitwise-not-remainder", inp, f"{name} bit-by-bit register differs from message(x)*x^{w} mod G", expected=exp, actual=sb)
            if st != exp:
                ctx.fail("table-not-remainder", inp, f"{name} table register differs from message(x)*x^{w} mod G (length {len(bits)}, feed width {fw})", expected=exp, actual=st)
            return rb

        for n in range(0, maxlen + 1):
            kinds = ["random"] * per_len
            if n % 7 == 0:
                kinds += ["ones", "alt"]
            if n % 16 == 0:
                kinds += ["zeros"]
            for kind in kinds:
                one(rand_bits(ctx.rng, n, kind), "len", sample=(n == 23 and kind == "random" and w == 9))
            # history: the calculators are re-used objects; the empty and a short message again after longer ones
            if n % 8 == 5:
                one(bitarray(), "empty-again")
                one(rand_bits(ctx.rng, ctx.rng.randint(1, fw if isinstance(fw, int) and fw > 0 else 8)), "short-again")
                ctx.count(f"engine:{name}:history-rechecks", 2)
            # little-endian container: correspondence of the table register only (see DESIGN §8)
            if n % 3 == ctx.seed % 3 or n < 40:
                b = rand_bits(ctx.rng, n)
                le = bitarray(b.tolist(), endian="little")
                rt = call(tab_calc.calculate_checksum, le)
                pairs_le.append((f"crc.tab {name} 1 {barg(b)}", out_bits(rt)))
                ctx.case((name, "le", barg(b)))
        # ---- a few long messages (beyond the dense range), lengths around multiples of the feed width
        for _ in range(ctx.budget(12, 60)):
            n = ctx.rng.choice([ctx.rng.randint(maxlen + 1, 2100), 8 * ctx.rng.randint(50, 260) + ctx.rng.choice([-1, 0, 1]), 9 * ctx.rng.randint(45, 230) + ctx.rng.choice([-1, 0, 1])])
            one(rand_bits(ctx.rng, n), "long")
            ctx.count(f"engine:{name}:long")
        # ---- unit vectors (with linearity they determine every CRC of that length)
        unit_lengths = list(range(1, 41)) + [48, 64, 72, 77, 80, 96, 120]
        if ctx.thorough():
            unit_lengths = list(range(1, 81)) + [87, 96, 103, 128, 144, 151, 183, 192, 196, 199, 400]
        for n in unit_lengths:
            for i in range(n):
                u = bitarray([0] * n)
                u[i] = 1
                one(u, "unit")
        ctx.count(f"engine:{name}:unit-vectors", sum(unit_lengths))
        # ---- linearity on random pairs, bursts, verify_checksum
        for _ in range(ctx.budget(150, 1500)):
            n = ctx.rng.randint(1, maxlen)
            a, b = rand_bits(ctx.rng, n), rand_bits(ctx.rng, n)
            ra = call(tab_calc.calculate_checksum, bitarray(a))
            rb = call(tab_calc.calculate_checksum, bitarray(b))
            rx = call(bit_calc.calculate_checksum, a ^ b)
            ctx.case((name, "lin", barg(a), barg(b)))
            if is_err(ra) or is_err(rb) or is_err(rx) or (ra ^ rb) != rx:
                ctx.fail("not-linear", {"component": "engine", "config": name, "a": barg(a), "b": barg(b)}, f"{name}: crc(a^b) != crc(a)^crc(b)", expected=out_bits(rx), actual=f"{out_bits(ra)} ^ {out_bits(rb)}")
        for _ in range(ctx.budget(400, 6000)):
            n = ctx.rng.randint(1, maxlen)
            a = rand_bits(ctx.rng, n, ctx.rng.choice(["random", "random", "zeros", "ones"]))
            e, pos, ln = burst_pattern(ctx.rng, n, w)
            b = a ^ e
            mode = ctx.rng.choice([bit_calc, tab_calc])
            ra, rb = call(mode.calculate_checksum, bitarray(a)), call(mode.calculate_checksum, bitarray(b))
            ctx.case((name, "burst", barg(a), pos, ln))
            ctx.count(f"engine:{name}:bursts")
            if is_err(ra) or is_err(rb) or ra == rb:
                ctx.fail("burst-undetected", {"component": "engine", "config": name, "a": barg(a), "b": barg(b), "table": mode is tab_calc},
                         f"{name}: two messages differing by a burst of length {ln} <= {w} at {pos} get the same CRC", expected="different", actual=out_bits(ra))
        pairs_v = []
        for _ in range(ctx.budget(120, 1200)):
            n = ctx.rng.randint(0, 96)
            a = rand_bits(ctx.rng, n)
            good = rem_int(a, w)
            cands = [good, good ^ (1 << ctx.rng.randrange(w)), ctx.rng.getrandbits(w), good + (1 << w), 0, -1]
            for v in cands:
                for mode, tag in ((bit_calc, "b"), (tab_calc, "t")):
                    r = call(mode.verify_checksum, bitarray(a), v)
                    pairs_v.append((f"crc.verify {name} {tag} {barg(a)} {v}", out_bool(r)))
                    ctx.case((name, "verify", tag, barg(a), v))
                    if r is not (v == good):
                        ctx.fail("verify-not-exact", {"component": "verify", "config": name, "bits": barg(a), "value": v, "table": tag == "t"},
                                 f"{name}.verify_checksum does not accept exactly the remainder", expected=(v == good), actual=str(r))
        # ---- lookup table of the table register
        tbl = call(crcmod.bits_create_lookup_table, w, ETSI[w])
        pairs_tbl = []
        if is_err(tbl):
            ctx.fail("lookup-table", {"config": name}, f"bits_create_lookup_table raised {tbl}")
        else:
            pairs_tbl.append((f"crc.tbllen {name}", str(len(tbl))))
            for idx, e in enumerate(tbl):
                pairs_tbl.append((f"crc.tbl {name} {idx}", barg(e)))
                ctx.case((name, "tbl", idx), nontrivial=idx != 0)
                exp = "".join(str(x) for x in poly_rem(int2ba(idx, length=ref_feed_width(w)), w))
                if barg(e) != exp:
                    ctx.fail("lookup-table", {"config": name, "index": idx}, f"{name}: lookup table entry is not the remainder of its index", expected=exp, actual=barg(e))
        # the table the table calculator really holds (white box, skipped if the attribute is gone)
        own = getattr(getattr(tab_calc, "_crc_register", None), "_lookup_table", None)
        if isinstance(own, list):
            pairs_tbl.append((f"crc.tbllen {name}", str(len(own))))
            for idx, e in enumerate(own):
                pairs_tbl.append((f"crc.tbl {name} {idx}", barg(e) if isinstance(e, bitarray) else repr(type(e))))
                ctx.case((name, "own-tbl", idx), nontrivial=idx != 0)
        if not ctx.search_only and ctx.driver_ok:
            ctx.correspond(f"{name}.bitwise", pairs_b)
            ctx.correspond(f"{name}.table", pairs_t)
            ctx.correspond(f"{name}.table-little-endian-container", pairs_le)
            ctx.correspond(f"{name}.verify", pairs_v)
            ctx.correspond(f"{name}.lookup-table", pairs_tbl)


def feed_width_cases(ctx, crcmod):
    pairs = []
    for w in range(1, 130):
        c = call(crcmod.BitCrcConfiguration, polynomial=1, width_bits=w)
        fw = c if is_err(c) else str(c.feed_width_bits)
        pairs.append((f"crc.fw {w}", fw))
        ctx.case(("fw", w))
        if fw != str(ref_feed_width(w)):
            ctx.fail("feed-width", {"component": "feed-width", "width": w}, "calc_feed_width_bits is not '8 for whole octets, else the largest divisor 2..15, else 1'", expected=ref_feed_width(w), actual=fw)
    got = [int(p[1]) if not is_err(p[1]) else p[1] for p in pairs if int(p[0].split()[1]) in (7, 8, 9, 16, 32)]
    if got != [7, 8, 9, 8, 8]:
        ctx.fail("feed-width", {"component": "feed-width"}, "feed widths of the five ETSI widths", expected=[7, 8, 9, 8, 8], actual=got)
    if not ctx.search_only and ctx.driver_ok:
        ctx.correspond("feed-width", pairs)


def mask_cases(ctx, CrcMasks):
    got = {m.name: m.value for m in CrcMasks}
    ctx.case(("masks",))
    if got != ETSI_MASKS:
        diff = {k: (ETSI_MASKS.get(k), got.get(k)) for k in set(got) | set(ETSI_MASKS) if got.get(k) != ETSI_MASKS.get(k)}
        ctx.fail("mask-table", {"component": "masks", "difference": {k: list(v) for k, v in diff.items()}}, "CrcMasks differs from ETSI TS 102 361-1 B.3.12", expected=ETSI_MASKS, actual=got)


def front_cases(ctx, CRC8, CRC9, CRC16, CRC32, CrcMasks):
    masks = list(CrcMasks)
    rng = ctx.rng
    # ------------------------------------------------------------------ CRC-8
    pairs = []
    for i in range(ctx.budget(300, 3000)):
        n = i % 81 if i < 162 else rng.randint(0, 140)
        a = rand_bits(rng, n)
        le = i % 5 == 4
        data = bitarray(a.tolist(), endian="little") if le else bitarray(a)
        r = call(CRC8.calculate, data)
        if data.tolist() != a.tolist():
            ctx.fail("input-mutated", {"component": "crc8", "bits": barg(a)}, "CRC8.calculate altered the caller's bit buffer", expected=barg(a), actual=barg(data))
        pairs.append((f"crc8 {int(le)} {barg(a)}", out_int(r)))
        ctx.case(("crc8", le, barg(a)))
        ctx.count("front:crc8")
        good = rem_int(a, 8)
        if not le and r != good:
            ctx.fail("crc8-front", {"component": "crc8", "bits": barg(a)}, "CRC8.calculate is not the plain remainder modulo x^8+x^2+x+1", expected=good, actual=out_int(r))
        if not le:
            for v in (good, good ^ (1 << rng.randrange(8)), 256 + good, -1, rng.randrange(256), 0, 255, 256):
                c = call(CRC8.check, bitarray(a), v)
                pairs.append((f"crc8.check 0 {barg(a)} {v}", out_bool(c)))
                ctx.case(("crc8.check", barg(a), v))
                exp = "ERR AssertionError" if not (0 <= v <= 255) else (v == good)
                if c != exp:
                    ctx.fail("crc8-check", {"component": "crc8.check", "bits": barg(a), "value": v}, "CRC8.check does not accept exactly the computed value", expected=str(exp), actual=str(c))
    if not ctx.search_only and ctx.driver_ok:
        ctx.correspond("CRC8", pairs)
    # ------------------------------------------------------------------ CRC-CCITT
    pairs = []
    for i in range(ctx.budget(330, 4000)):
        n = i % 33 if i < 99 else rng.choice([0, 1, 2, 9, 10, 10, 10, 12, rng.randint(0, 48)])
        d = bytes(rng.getrandbits(8) for _ in range(n))
        for m in (masks if i % 4 == 0 else [masks[i % len(masks)]]):
            r = call(CRC16.calculate, d, m)
            pairs.append((f"crc16 {hex_str(d)} {m.value}", out_int(r)))
            ctx.case(("crc16", d, m.name), sample={"front": "CRC16", "data": hex_str(d), "mask": m.name, "out": out_int(r)} if i == 10 else None)
            ctx.count("front:crc16")
            good = (rem_int(bytes_bits(d), 16) ^ 0xFFFF) ^ ETSI_MASKS.get(m.name, m.value)
            if r != good:
                ctx.fail("crc16-front", {"component": "crc16", "data": hex_str(d), "mask": m.name}, "CRC16.calculate is not (inverted remainder) xor mask", expected=good, actual=out_int(r))
            if good <= 0xFFFF:
                for v in (good, good ^ (1 << rng.randrange(16)), 0x10000 | good, -1, 0, 0xFFFF, 0x10000):
                    c = call(CRC16.check, d, v, m)
                    pairs.append((f"crc16.check {hex_str(d)} {v} {m.value}", out_bool(c)))
                    ctx.case(("crc16.check", d, v, m.name))
                    exp = "ERR AssertionError" if not (0 <= v <= 0xFFFF) else (v == good)
                    if c != exp:
                        ctx.fail("crc16-check", {"component": "crc16.check", "data": hex_str(d), "value": v, "mask": m.name}, "CRC16.check does not accept exactly the computed value", expected=str(exp), actual=str(c))
    if not ctx.search_only and ctx.driver_ok:
        ctx.correspond("CRC16", pairs)
    # ------------------------------------------------------------------ CRC-9
    pairs = []
    sns = list(range(128))
    for i in range(ctx.budget(40, 400)):
        n = rng.choice([10, 16, 22, 10, 16, 22, 0, 1, rng.randint(0, 30)])
        d = bytes(rng.getrandbits(8) for _ in range(n))
        m = masks[i % len(masks)] if i % 3 else rng.choice([CrcMasks.Rate12DataContinuation, CrcMasks.Rate34DataContinuation, CrcMasks.Rate1DataContinuation])
        c32v = rng.choice([rng.getrandbits(32), rng.getrandbits(32), 1, 255, 256, rng.getrandbits(24), (1 << 24) - 1, 1 << 31, (1 << 32) - 1, rng.getrandbits(8) << 24]) or 1
        variants = [
            ("none", None, []),
            ("i:0", 0, []),
            (f"i:{c32v}", c32v, bytes_bits(c32v.to_bytes(4, "big"))),
            ("b:" + c32v.to_bytes(4, "big").hex(), c32v.to_bytes(4, "big"), bytes_bits(c32v.to_bytes(4, "big"))),
            ("b:00000000", bytes(4), [0] * 32),
        ]
        # every serial number for one variant, a few for the others
        full = i % len(variants)
        for vi, (tag, arg, extra) in enumerate(variants):
            for sn in (sns if vi == full else rng.sample(sns, 6) + [0, 127]):
                r = call(CRC9.calculate_from_parts, d, sn, m, arg)
                pairs.append((f"crc9 {hex_str(d)} {sn} {m.value} {tag}", out_int(r)))
                ctx.case(("crc9", d, sn, m.name, tag), sample={"front": "CRC9", "data": hex_str(d), "serial": sn, "mask": m.name, "crc32": tag, "out": out_int(r)} if (i, sn, vi) == (1, 5, 2) else None)
                ctx.count(f"front:crc9:{'with' if extra else 'without'}-crc32")
                src = bytes_bits(d) + extra + [(sn >> (6 - k)) & 1 for k in range(7)]
                good = (rem_int(src, 9) ^ 0x1FF) ^ ETSI_MASKS.get(m.name, m.value)
                if r != good:
                    ctx.fail("crc9-front", {"component": "crc9", "data": hex_str(d), "serial": sn, "mask": m.name, "crc32": tag},
                             "CRC9.calculate_from_parts is not (inverted remainder of data|crc32|dbsn) xor mask", expected=good, actual=out_int(r))
                if sn % 16 == 3:
                    for v in (good, good ^ (1 << rng.randrange(9)), 512 + (good & 511), -1, 0, 511, 512):
                        c = call(CRC9.check, d, sn, v, m, arg)
                        pairs.append((f"crc9.check {hex_str(d)} {sn} {v} {m.value} {tag}", out_bool(c)))
                        ctx.case(("crc9.check", d, sn, v, m.name, tag))
                        exp = "ERR AssertionError" if v > 511 else (v == good)
                        if c != exp:
                            ctx.fail("crc9-check", {"component": "crc9.check", "data": hex_str(d), "serial": sn, "value": v, "mask": m.name, "crc32": tag}, "CRC9.check does not accept exactly the computed value", expected=str(exp), actual=str(c))
        # malformed arguments: the model must reject what the code rejects
        for sn, tag, arg in ((128, "none", None), (-1, "none", None), (3, "i:-5", -5), (3, f"i:{2**32}", 2**32), (3, "b:010203", b"\1\2\3"), (3, "b:0102030405", b"\1\2\3\4\5")):
            r = call(CRC9.calculate_from_parts, d, sn, m, arg)
            pairs.append((f"crc9 {hex_str(d)} {sn} {m.value} {tag}", out_int(r)))
            ctx.case(("crc9-bad", d, sn, tag))
    # CRC9.calculate on raw bit strings (lengths that are not multiples of the 9-bit feed)
    for i in range(ctx.budget(200, 2000)):
        n = i % 100 if i < 200 else rng.randint(0, 260)
        a = rand_bits(rng, n)
        m = masks[i % len(masks)]
        r = call(CRC9.calculate, bitarray(a), m)
        pairs.append((f"crc9.bits 0 {barg(a)} {m.value}", out_int(r)))
        ctx.case(("crc9.bits", barg(a), m.name))
        good = (rem_int(a, 9) ^ 0x1FF) ^ ETSI_MASKS.get(m.name, m.value)
        if r != good:
            ctx.fail("crc9-front", {"component": "crc9.bits", "bits": barg(a), "mask": m.name}, "CRC9.calculate is not (inverted remainder) xor mask", expected=good, actual=out_int(r))
    if not ctx.search_only and ctx.driver_ok:
        ctx.correspond("CRC9", pairs)
    # ------------------------------------------------------------------ CRC-32
    pairs = []
    for i in range(ctx.budget(300, 4000)):
        n = i % 66 if i < 132 else rng.randint(0, 200)
        d = bytes(rng.getrandbits(8) for _ in range(n))
        r = call(CRC32.calculate, d)
        pairs.append((f"crc32 {hex_str(d)}", out_int(r)))
        ctx.case(("crc32", d), sample={"front": "CRC32", "data": hex_str(d), "out": out_int(r)} if i == 7 else None)
        ctx.count(f"front:crc32:{'odd' if n % 2 else 'even'}-length")
        good = rem_int(bytes_bits(ref_byteswap(d)), 32)
        if r != good:
            ctx.fail("crc32-front", {"component": "crc32", "data": hex_str(d)}, "CRC32.calculate is not the remainder over the pairwise swapped octets, MSB first", expected=good, actual=out_int(r))
        if i % 3 == 0:
            for v in (good, good ^ (1 << rng.randrange(32)), (1 << 32) | good, -1, 0, 0xFFFFFFFF, 1 << 32):
                c = call(CRC32.check, d, v)
                pairs.append((f"crc32.check {hex_str(d)} {v}", out_bool(c)))
                ctx.case(("crc32.check", d, v))
                exp = "ERR AssertionError" if not (0 <= v <= 0xFFFFFFFF) else (v == good)
                if c != exp:
                    ctx.fail("crc32-check", {"component": "crc32.check", "data": hex_str(d), "value": v}, "CRC32.check does not accept exactly the computed value", expected=str(exp), actual=str(c))
    if not ctx.search_only and ctx.driver_ok:
        ctx.correspond("CRC32", pairs)


def detection_cases(ctx, CRC8, CRC9, CRC16, CRC32, CrcMasks):
    """consequences on the front ends: bursts <= width, and 1..3 bit differences for CRC-CCITT on the
    80 data bits of a 96-bit PDU (message level) and on the whole 96-bit code word"""
    rng = ctx.rng
    masks16 = [CrcMasks.CSBK, CrcMasks.DataHeader, CrcMasks.PiHeader, CrcMasks.MBCHeader, CrcMasks.UnifiedSingleBlockData]

    def crc16_of(bits80, m):
        return call(CRC16.calculate, bitarray(bits80).tobytes(), m)

    # --- message level: all singles and doubles, triples sampled (thorough: all) on a random message
    base = rand_bits(rng, 80)
    positions = list(range(80))
    patterns = [(i,) for i in positions] + list(itertools.combinations(positions, 2))
    triples = list(itertools.combinations(positions, 3))
    if ctx.thorough():
        patterns += triples
    else:
        patterns += rng.sample(triples, ctx.budget(3000, 3000))
    m = rng.choice(masks16)
    c0 = crc16_of(base, m)
    for pat in patterns:
        b = bitarray(base)
        for p in pat:
            b.invert(p)
        c1 = crc16_of(b, m)
        ctx.case(("ccitt-msg", pat))
        ctx.count(f"detect:ccitt-message-weight-{len(pat)}")
        if is_err(c0) or is_err(c1) or c0 == c1:
            ctx.fail("ccitt-le3-undetected", {"component": "ccitt-message", "a": barg(base), "positions": list(pat), "mask": m.name},
                     f"80-bit messages differing in {len(pat)} bits get the same CRC-CCITT", expected="different", actual=out_int(c0))
    # --- code word level (what C04 needs): data|crc of a library-made check sum, error over all 96 bits
    for _ in range(ctx.budget(3, 12)):
        base = rand_bits(rng, 80)
        m = rng.choice(masks16)
        c0 = crc16_of(base, m)
        if is_err(c0):
            ctx.fail("ccitt-le3-undetected", {"component": "ccitt-codeword", "a": barg(base), "mask": m.name}, f"CRC16.calculate raised {c0}")
            continue
        word = base + int2ba(c0 & 0xFFFF, length=16)
        pos96 = list(range(96))
        pats = [(i,) for i in pos96] + list(itertools.combinations(pos96, 2)) + rng.sample(list(itertools.combinations(pos96, 3)), ctx.budget(2500, 30000))
        for pat in pats:
            wv = bitarray(word)
            for p in pat:
                wv.invert(p)
            ok = call(CRC16.check, wv[:80].tobytes(), ba2int(wv[80:]), m)
            ctx.case(("ccitt-cw", barg(base), pat))
            ctx.count(f"detect:ccitt-codeword-weight-{len(pat)}")
            if ok is not False:
                ctx.fail("ccitt-le3-undetected", {"component": "ccitt-codeword", "a": barg(base), "positions": list(pat), "mask": m.name},
                         f"a 96-bit CCITT code word with {len(pat)} inverted bits is accepted", expected=False, actual=str(ok))
    # --- bursts on the front ends
    for _ in range(ctx.budget(300, 5000)):
        which = rng.choice(["crc8", "crc16", "crc9", "crc32"])
        if which == "crc8":
            n = rng.randint(1, 72)
            a = rand_bits(rng, n)
            e, pos, ln = burst_pattern(rng, n, 8)
            r0, r1 = call(CRC8.calculate, bitarray(a)), call(CRC8.calculate, a ^ e)
            inp = {"component": "burst-crc8", "a": barg(a), "b": barg(a ^ e)}
        elif which == "crc16":
            nb = rng.randint(1, 24)
            a = rand_bits(rng, 8 * nb)
            e, pos, ln = burst_pattern(rng, 8 * nb, 16)
            m = rng.choice(masks16)
            r0, r1 = call(CRC16.calculate, a.tobytes(), m), call(CRC16.calculate, (a ^ e).tobytes(), m)
            inp = {"component": "burst-crc16", "a": a.tobytes().hex(), "b": (a ^ e).tobytes().hex(), "mask": m.name}
        elif which == "crc9":
            nb = rng.choice([10, 16, 22])
            a = rand_bits(rng, 8 * nb + 7)
            e, pos, ln = burst_pattern(rng, 8 * nb + 7, 9)
            b = a ^ e
            m = rng.choice([CrcMasks.Rate12DataContinuation, CrcMasks.Rate34DataContinuation, CrcMasks.Rate1DataContinuation])
            r0 = call(CRC9.calculate_from_parts, a[: 8 * nb].tobytes(), ba2int(a[8 * nb:]), m)
            r1 = call(CRC9.calculate_from_parts, b[: 8 * nb].tobytes(), ba2int(b[8 * nb:]), m)
            inp = {"component": "burst-crc9", "a": barg(a), "b": barg(b), "mask": m.name}
        else:
            nb = rng.randint(1, 40)
            a = rand_bits(rng, 8 * nb)
            # a burst in the order in which the octets are fed to the register (after the pairwise swap)
            e, pos, ln = burst_pattern(rng, 8 * nb, 32)
            da, db = ref_byteswap(a.tobytes()), ref_byteswap((a ^ e).tobytes())
            r0, r1 = call(CRC32.calculate, da), call(CRC32.calculate, db)
            inp = {"component": "burst-crc32", "a": da.hex(), "b": db.hex()}
        ctx.case(("burst", which, json.dumps(inp, sort_keys=True)))
        ctx.count(f"detect:burst-{which}")
        if is_err(r0) or is_err(r1) or r0 == r1:
            ctx.fail("burst-undetected", inp, f"{which}: inputs differing by a burst of length {ln} get the same check sum", expected="different", actual=out_int(r0))


def singleton_state_cases(ctx, CRC8, CRC9, CRC16, CRC32, CrcMasks):
    """the calculators are class-level singletons with a mutable register: interleaved calls (and calls
    that raise in between) must not influence each other"""
    rng = ctx.rng
    for _ in range(ctx.budget(60, 600)):
        d1 = bytes(rng.getrandbits(8) for _ in range(rng.randint(0, 20)))
        d2 = bytes(rng.getrandbits(8) for _ in range(rng.randint(0, 20)))
        first = call(CRC16.calculate, d1, CrcMasks.CSBK)
        call(CRC16.calculate, d2, CrcMasks.DataHeader)
        call(CRC9.calculate_from_parts, d2, 300, CrcMasks.CSBK)  # raises OverflowError before the calculation
        call(CRC32.calculate, d2)
        call(CRC8.calculate, bitarray([1] * rng.randint(0, 30)))
        again = call(CRC16.calculate, d1, CrcMasks.CSBK)
        ctx.case(("state", d1, d2))
        ctx.count("state:interleaved-calls")
        if first != again:
            ctx.fail("singleton-state", {"component": "state", "d1": hex_str(d1), "d2": hex_str(d2)}, "CRC16.calculate depends on earlier calls", expected=out_int(first), actual=out_int(again))


# ------------------------------------------------------------------------------------------------
# structured algebraic inputs: the CRC is affine in the message, so for any choice of >= w "free" bit
# positions (a contiguous window always works, x^k being invertible modulo G) the remaining bits can be
# completed to a message whose remainder is a CHOSEN value.  The solver below works on Python ints; every
# message it constructs is re-checked with the list-based long division `poly_rem` before it is used, and
# the oracle's expectation is always computed by `poly_rem` / `rem_int`, never taken from the solver.
_POW = {}


def _pow_table(w, upto):
    """x^(k+w) mod G for k = 0..upto, as ints"""
    t = _POW.setdefault(w, [ETSI[w]])
    g = ETSI[w] | (1 << w)
    while len(t) <= upto:
        v = t[-1] << 1
        if v >> w:
            v ^= g
        t.append(v)
    return t


def _fast_rem(bits, w):
    t = _pow_table(w, max(len(bits), 1))
    n = len(bits)
    r = 0
    for i, b in enumerate(bits):
        if b:
            r ^= t[n - 1 - i]
    return r


def gf2_solve(cols, target):
    """a 0/1 list x with xor of cols[i] over x[i] = 1 equal to target, or None"""
    basis = {}
    for i, c in enumerate(cols):
        v, m = c, 1 << i
        while v:
            hb = v.bit_length() - 1
            if hb in basis:
                v ^= basis[hb][0]
                m ^= basis[hb][1]
            else:
                basis[hb] = (v, m)
                break
    v, m = target, 0
    while v:
        hb = v.bit_length() - 1
        if hb not in basis:
            return None
        v ^= basis[hb][0]
        m ^= basis[hb][1]
    return [(m >> i) & 1 for i in range(len(cols))]


def force_rem(bits, free, w, target):
    """bits (0/1 list) with the positions in `free` re-chosen such that message(x)*x^w mod G == target;
    None if the free positions do not span the difference.  Verified with the reference division."""
    n = len(bits)
    t = _pow_table(w, n)
    delta = _fast_rem(bits, w) ^ target
    x = gf2_solve([t[n - 1 - p] for p in free], delta)
    if x is None:
        return None
    out = list(bits)
    for p, xi in zip(free, x):
        out[p] ^= xi
    if rem_int(out, w) != target:  # the construction itself went wrong: never use such an input
        raise AssertionError("harness: force_rem produced a message with another remainder")
    return out


def free_positions(rng, n, w, where=None):
    """>= w positions out of 0..n-1 (n >= w): the last w, the first w, a random window, or w + 6 scattered"""
    where = where or rng.choice(["tail", "tail", "head", "window", "window", "scattered"])
    if where == "tail":
        return list(range(n - w, n)), where
    if where == "head":
        return list(range(w)), where
    if where == "window" or n < w + 6:
        s = rng.randint(0, n - w)
        return list(range(s, s + w)), "window"
    return sorted(rng.sample(range(n), min(n, w + 6))), where


def special_values(w, rng, extra=()):
    """the check-sum values a careless special case is most likely to single out"""
    full = (1 << w) - 1
    vals = [0, full, 1, 1 << (w - 1), full >> 1, full ^ 1, 0x55555555 & full, 0xAAAAAAAA & full]
    vals += [1 << k for k in range(w)]
    vals += [full ^ (1 << k) for k in rng.sample(range(w), min(w, 4))]
    if w > 8:
        vals += [rng.randrange(1, 256), rng.randrange(1, 256) << (w - 8), 0xFF, full ^ 0xFF]
    if w > 16:
        vals += [rng.randrange(1, 1 << 16), rng.randrange(1, 1 << 24), 0x7FFFFFFF & full, 0xFFFF, 0xFFFF0000 & full]
    vals += [v & full for v in extra]
    seen, out = set(), []
    for v in vals:
        if v not in seen:
            seen.add(v)
            out.append(v)
    return out


def base_bits(rng, n):
    kind = rng.choice(["random", "random", "random", "zeros", "ones", "sparse"])
    if kind == "zeros":
        return [0] * n
    if kind == "ones":
        return [1] * n
    if kind == "sparse":
        b = [0] * n
        for _ in range(rng.randint(1, 3)):
            if n:
                b[rng.randrange(n)] = 1
        return b
    return [rng.getrandbits(1) for _ in range(n)]


def bits_bytes(bits) -> bytes:
    assert len(bits) % 8 == 0
    return bytes(int("".join(str(b) for b in bits[i:i + 8]), 2) for i in range(0, len(bits), 8))


def wbits(v, w):
    return "".join(str((v >> (w - 1 - i)) & 1) for i in range(w))


def pick(rng, vals, k, must=()):
    """the first four (0, all-ones, 1, top bit) and `must` always, the rest sampled"""
    head = vals[:4] + [v for v in dict.fromkeys(must) if v not in vals[:4]]
    rest = [v for v in vals[4:] if v not in head]
    return head + rng.sample(rest, min(len(rest), max(0, k - len(head))))


def structured_engine_cases(ctx, crcmod):
    """raw engines on messages constructed to have a chosen remainder / to drive the register through
    chosen states in mid-message / that are multiples of the generator"""
    rng = ctx.rng
    enums = {7: crcmod.Crc7, 8: crcmod.Crc8, 9: crcmod.Crc9, 16: crcmod.Crc16, 32: crcmod.Crc32}
    for w, en in enums.items():
        name = CFG_NAMES[w]
        fw = ref_feed_width(w)
        full = (1 << w) - 1
        bit_calc = call(crcmod.BitCrcCalculator, en.ETSI_DMR, False)
        tab_calc = call(crcmod.BitCrcCalculator, en.ETSI_DMR, True)
        if is_err(bit_calc) or is_err(tab_calc):
            continue  # reported by engine_cases
        pairs_b, pairs_t, pairs_v = [], [], []

        def one(bits, tag, target=None):
            ba_ = bitarray(bits)
            arg = barg(ba_)
            exp = "".join(str(x) for x in poly_rem(bits, w))
            rb, rt = call(bit_calc.calculate_checksum, bitarray(ba_)), call(tab_calc.calculate_checksum, bitarray(ba_))
            sb, st = out_bits(rb), out_bits(rt)
            pairs_b.append((f"crc.bit {name} {arg}", sb))
            pairs_t.append((f"crc.tab {name} 0 {arg}", st))
            ctx.case((name, "structured", tag, arg))
            inp = {"component": "engine", "config": name, "bits": arg, "previous": None, "class": tag}
            if sb != exp:
                ctx.fail("bitwise-not-remainder", inp, f"{name} bit-by-bit register differs from message(x)*x^{w} mod G ({tag})", expected=exp, actual=sb)
            if st != exp:
                ctx.fail("table-not-remainder", inp, f"{name} table register differs from message(x)*x^{w} mod G ({tag})", expected=exp, actual=st)
            good = int(exp, 2) if exp else 0
            if target is not None:
                ctx.count(f"structured:engine:{name}:target-hit" if good == target else f"structured:engine:{name}:target-missed")
            for v in dict.fromkeys((good, good ^ (1 << rng.randrange(w)), 0, full)):
                for mode, mt in ((bit_calc, "b"), (tab_calc, "t")):
                    r = call(mode.verify_checksum, bitarray(ba_), v)
                    pairs_v.append((f"crc.verify {name} {mt} {arg} {v}", out_bool(r)))
                    ctx.case((name, "structured-verify", mt, arg, v))
                    if r is not (v == good):
                        ctx.fail("verify-not-exact", {"component": "verify", "config": name, "bits": arg, "value": v, "table": mt == "t", "class": tag},
                                 f"{name}.verify_checksum does not accept exactly the remainder ({tag})", expected=(v == good), actual=str(r))

        # ---- chosen remainder
        targets = special_values(w, rng)
        for tv in pick(rng, targets, ctx.budget(14, 60)):
            for _ in range(ctx.budget(2, 4)):
                n = rng.choice([w, w + 1, 2 * w, fw * rng.randint(2, 6), fw * rng.randint(2, 6) + rng.choice([-1, 1]), rng.randint(w, 4 * w + 24)])
                n = max(n, w)
                free, where = free_positions(rng, n, w)
                m = force_rem(base_bits(rng, n), free, w, tv)
                if m is None:
                    free, where = free_positions(rng, n, w, "window")
                    m = force_rem(base_bits(rng, n), free, w, tv)
                one(m, f"remainder={wbits(tv, w)} free={where}", tv)
                ctx.count(f"structured:engine:{name}:chosen-remainder")
        # ---- multiples of the generator (remainder 0 without being zero), and generator +/- one bit
        g = [1] + [(ETSI[w] >> (w - 1 - i)) & 1 for i in range(w)]
        for _ in range(ctx.budget(6, 30)):
            q = [1] + [rng.getrandbits(1) for _ in range(rng.randint(0, 20))]
            prod = [0] * (len(q) + w)
            for i, qi in enumerate(q):
                if qi:
                    for j, gj in enumerate(g):
                        prod[i + j] ^= gj
            lead, trail = rng.choice([0, 0, 1, fw, rng.randint(0, 12)]), rng.choice([0, 0, 1, fw, rng.randint(0, 12)])
            one([0] * lead + prod + [0] * trail, "generator-multiple", 0)
            ctx.count(f"structured:engine:{name}:generator-multiple")
        one(list(g), "generator", 0)
        one(g[1:], "generator-without-top-bit")
        # ---- the register passes through a chosen state after a prefix (whole chunks or not), then more bits;
        #      in particular the table index of the next chunk is 0 or the last entry
        for _ in range(ctx.budget(28, 140)):
            npre = rng.choice([fw * rng.randint(2, 5), fw * rng.randint(2, 5), w + rng.randint(0, 20)])
            npre = max(npre, w)
            state = rng.choice([0, 0, full, 1, 1 << (w - 1), rng.choice(targets)])
            free, where = free_positions(rng, npre, w, rng.choice(["tail", "window", "head"]))
            pre = force_rem(base_bits(rng, npre), free, w, state)
            top = [(state >> (w - 1 - i)) & 1 for i in range(fw)]
            kind = ["zeros", "ones", "random", "index0", "indexmax", "empty", "onezero"][_ % 7]
            ns = rng.randint(1, 3 * fw)
            suf = {"zeros": [0] * ns, "ones": [1] * ns, "random": [rng.getrandbits(1) for _ in range(ns)],
                   "index0": top + [rng.getrandbits(1) for _ in range(ns - 1)],
                   "indexmax": [1 - b for b in top] + [rng.getrandbits(1) for _ in range(ns - 1)],
                   "empty": [], "onezero": [0]}[kind]
            one(pre + suf, f"state={wbits(state, w)}@{npre} then {kind}")
            ctx.count(f"structured:engine:{name}:mid-state:{kind}")
        if not ctx.search_only and ctx.driver_ok:
            ctx.correspond(f"{name}.structured.bitwise", pairs_b)
            ctx.correspond(f"{name}.structured.table", pairs_t)
            ctx.correspond(f"{name}.structured.verify", pairs_v)


def structured_front_cases(ctx, CRC8, CRC9, CRC16, CRC32, CrcMasks):
    """front ends on data constructed such that the RESULT (after inversion / mask / byte order) is a chosen
    value — 0, all-ones, the mask, single bits, low-byte-only values … — and check() on it"""
    rng = ctx.rng
    masks = list(CrcMasks)

    def mval(m):
        return ETSI_MASKS.get(m.name, m.value)

    # ------------------------------------------------------------------ special data (all front ends)
    pairs8, pairs16, pairs9, pairs32 = [], [], [], []
    shapes = []
    for n in list(range(0, 13)) + [16, 22, 24]:
        shapes += [bytes(n), b"\xff" * n]
        if n:
            k = rng.randrange(8 * n)
            u = bytearray(n)
            u[k // 8] = 0x80 >> (k % 8)
            shapes += [bytes(u), bytes(n - 1) + b"\x01", b"\x80" + bytes(n - 1)]
    for d in shapes:
        for m in masks:
            r = call(CRC16.calculate, d, m)
            pairs16.append((f"crc16 {hex_str(d)} {m.value}", out_int(r)))
            ctx.case(("crc16-special", d, m.name))
            good = (rem_int(bytes_bits(d), 16) ^ 0xFFFF) ^ mval(m)
            if r != good:
                ctx.fail("crc16-front", {"component": "crc16", "data": hex_str(d), "mask": m.name}, "CRC16.calculate is not (inverted remainder) xor mask on all-zero / all-ones / one-bit data", expected=good, actual=out_int(r))
        r = call(CRC32.calculate, d)
        pairs32.append((f"crc32 {hex_str(d)}", out_int(r)))
        ctx.case(("crc32-special", d))
        good = rem_int(bytes_bits(ref_byteswap(d)), 32)
        if r != good:
            ctx.fail("crc32-front", {"component": "crc32", "data": hex_str(d)}, "CRC32.calculate is not the remainder over the swapped octets on all-zero / all-ones / one-bit data", expected=good, actual=out_int(r))
        a = bitarray(bytes_bits(d))
        r = call(CRC8.calculate, bitarray(a))
        pairs8.append((f"crc8 0 {barg(a)}", out_int(r)))
        ctx.case(("crc8-special", d))
        if r != rem_int(a, 8):
            ctx.fail("crc8-front", {"component": "crc8", "bits": barg(a)}, "CRC8.calculate is not the plain remainder on all-zero / all-ones / one-bit data", expected=rem_int(a, 8), actual=out_int(r))
        m = masks[len(d) % len(masks)]
        for sn in (0, 1, 64, 127):
            for tag, arg, extra in (("none", None, []), ("b:00000000", bytes(4), [0] * 32), ("i:1", 1, [0] * 31 + [1])):
                r = call(CRC9.calculate_from_parts, d, sn, m, arg)
                pairs9.append((f"crc9 {hex_str(d)} {sn} {m.value} {tag}", out_int(r)))
                ctx.case(("crc9-special", d, sn, m.name, tag))
                src = bytes_bits(d) + extra + [(sn >> (6 - k)) & 1 for k in range(7)]
                good = (rem_int(src, 9) ^ 0x1FF) ^ mval(m)
                if r != good:
                    ctx.fail("crc9-front", {"component": "crc9", "data": hex_str(d), "serial": sn, "mask": m.name, "crc32": tag},
                             "CRC9.calculate_from_parts is not (inverted remainder) xor mask on all-zero / all-ones / one-bit data", expected=good, actual=out_int(r))
        ctx.count("structured:front:special-data")

    # ------------------------------------------------------------------ CRC-8: chosen result
    for tv in pick(rng, special_values(8, rng), ctx.budget(16, 24)):
        for _ in range(ctx.budget(2, 6)):
            n = rng.choice([8, 9, 36, 36, 72, rng.randint(8, 90)])
            free, where = free_positions(rng, n, 8)
            m_ = force_rem(base_bits(rng, n), free, 8, tv) or force_rem(base_bits(rng, n), list(range(n - 8, n)), 8, tv)
            a = bitarray(m_)
            good = rem_int(m_, 8)
            r = call(CRC8.calculate, bitarray(a))
            pairs8.append((f"crc8 0 {barg(a)}", out_int(r)))
            ctx.case(("crc8-target", barg(a)))
            ctx.count("structured:front:crc8:target-hit" if good == tv else "structured:front:crc8:target-missed")
            if r != good:
                ctx.fail("crc8-front", {"component": "crc8", "bits": barg(a)}, f"CRC8.calculate is not the plain remainder (data constructed for the result {tv:#04x})", expected=good, actual=out_int(r))
            for v in dict.fromkeys((good, good ^ (1 << rng.randrange(8)), 0, 255)):
                c = call(CRC8.check, bitarray(a), v)
                pairs8.append((f"crc8.check 0 {barg(a)} {v}", out_bool(c)))
                ctx.case(("crc8.check-target", barg(a), v))
                if c != (v == good):
                    ctx.fail("crc8-check", {"component": "crc8.check", "bits": barg(a), "value": v}, f"CRC8.check does not accept exactly the computed value (data constructed for the result {tv:#04x})", expected=str(v == good), actual=str(c))
    # ------------------------------------------------------------------ CRC-CCITT: chosen result, every mask
    for m in masks:
        mv = mval(m)
        tvs = pick(rng, special_values(16, rng, extra=(mv >> 8, mv << 8)), ctx.budget(12, 40), must=(mv & 0xFFFF, (mv ^ 0xFFFF) & 0xFFFF))
        for tv in tvs:
            nb = rng.choice([2, 2, 3, 10, 10, 10, 12, rng.randint(2, 30)])
            free, where = free_positions(rng, 8 * nb, 16)
            want_rem = (tv ^ 0xFFFF ^ mv) & 0xFFFF
            bits = force_rem(base_bits(rng, 8 * nb), free, 16, want_rem) or force_rem(base_bits(rng, 8 * nb), list(range(8 * nb - 16, 8 * nb)), 16, want_rem)
            d = bits_bytes(bits)
            good = (rem_int(bytes_bits(d), 16) ^ 0xFFFF) ^ mv
            r = call(CRC16.calculate, d, m)
            pairs16.append((f"crc16 {hex_str(d)} {m.value}", out_int(r)))
            ctx.case(("crc16-target", d, m.name))
            ctx.count("structured:front:crc16:target-hit" if (good & 0xFFFF) == tv else "structured:front:crc16:target-missed")
            if tv == 0 and good == 0:
                ctx.count("structured:front:crc16:result-zero")
            if r != good:
                ctx.fail("crc16-front", {"component": "crc16", "data": hex_str(d), "mask": m.name}, f"CRC16.calculate is not (inverted remainder) xor mask (data constructed for the result {tv:#06x})", expected=good, actual=out_int(r))
            for v in dict.fromkeys((good & 0xFFFF, (good & 0xFFFF) ^ (1 << rng.randrange(16)), 0, 0xFFFF, mv & 0xFFFF)):
                c = call(CRC16.check, d, v, m)
                pairs16.append((f"crc16.check {hex_str(d)} {v} {m.value}", out_bool(c)))
                ctx.case(("crc16.check-target", d, v, m.name))
                if c != (v == good):
                    ctx.fail("crc16-check", {"component": "crc16.check", "data": hex_str(d), "value": v, "mask": m.name},
                             f"CRC16.check does not accept exactly the computed value (data constructed for the result {tv:#06x})", expected=str(v == good), actual=str(c))
    # ------------------------------------------------------------------ CRC-9: chosen result, every mask
    for m in masks:
        mv = mval(m)
        tvs = pick(rng, special_values(9, rng), ctx.budget(9, 24), must=(mv & 0x1FF, (mv ^ 0x1FF) & 0x1FF))
        for tv in tvs:
            nb = rng.choice([10, 16, 22, 2, rng.randint(2, 24)])
            c32kind = rng.choice(["none", "none", "int", "bytes"])
            sn0 = rng.randrange(128)
            c32bits = [rng.getrandbits(1) for _ in range(32)] if c32kind != "none" else []
            src = base_bits(rng, 8 * nb) + c32bits + [(sn0 >> (6 - k)) & 1 for k in range(7)]
            n = len(src)
            field = rng.choice(["data", "data", "tail", "crc32" if c32bits else "data", "window"])
            if field == "data":
                s0 = rng.randint(0, 8 * nb - 9)
                free = list(range(s0, s0 + 9))
            elif field == "tail":  # the serial number and the two bits before it
                free = list(range(n - 9, n))
            elif field == "crc32":
                s0 = 8 * nb + rng.randint(0, 32 - 9)
                free = list(range(s0, s0 + 9))
            else:
                free = free_positions(rng, n, 9, "window")[0]
            want_rem = (tv ^ 0x1FF ^ mv) & 0x1FF
            bits = force_rem(src, free, 9, want_rem)
            d = bits_bytes(bits[: 8 * nb])
            sn = int("".join(map(str, bits[-7:])), 2)
            if c32kind == "none":
                tag, arg, extra = "none", None, []
            else:
                cb = bits_bytes(bits[8 * nb: 8 * nb + 32])
                if c32kind == "int":
                    arg = int.from_bytes(cb, "big")
                    tag, extra = f"i:{arg}", (bytes_bits(cb) if arg else [])  # the integer 0 means "no CRC-32"
                else:
                    tag, arg, extra = "b:" + cb.hex(), cb, bytes_bits(cb)
            good = (rem_int(bytes_bits(d) + extra + [(sn >> (6 - k)) & 1 for k in range(7)], 9) ^ 0x1FF) ^ mv
            r = call(CRC9.calculate_from_parts, d, sn, m, arg)
            pairs9.append((f"crc9 {hex_str(d)} {sn} {m.value} {tag}", out_int(r)))
            ctx.case(("crc9-target", d, sn, m.name, tag))
            ctx.count("structured:front:crc9:target-hit" if (good & 0x1FF) == tv else "structured:front:crc9:target-missed")
            if r != good:
                ctx.fail("crc9-front", {"component": "crc9", "data": hex_str(d), "serial": sn, "mask": m.name, "crc32": tag},
                         f"CRC9.calculate_from_parts is not (inverted remainder of data|crc32|dbsn) xor mask (parts constructed for the result {tv:#05x}, free bits in {field})", expected=good, actual=out_int(r))
            for v in dict.fromkeys((good, good ^ (1 << rng.randrange(9)), 0, 511, mv)):
                c = call(CRC9.check, d, sn, v, m, arg)
                pairs9.append((f"crc9.check {hex_str(d)} {sn} {v} {m.value} {tag}", out_bool(c)))
                ctx.case(("crc9.check-target", d, sn, v, m.name, tag))
                exp = "ERR AssertionError" if v > 511 else (v == good)
                if c != exp:
                    ctx.fail("crc9-check", {"component": "crc9.check", "data": hex_str(d), "serial": sn, "value": v, "mask": m.name, "crc32": tag},
                             f"CRC9.check does not accept exactly the computed value (parts constructed for the result {tv:#05x})", expected=str(exp), actual=str(c))
            # the same target on a raw bit string of a length that is not a multiple of the 9-bit feed
            nbits = rng.randint(9, 120)
            raw = force_rem(base_bits(rng, nbits), free_positions(rng, nbits, 9, "window")[0], 9, want_rem)
            a = bitarray(raw)
            r = call(CRC9.calculate, bitarray(a), m)
            pairs9.append((f"crc9.bits 0 {barg(a)} {m.value}", out_int(r)))
            ctx.case(("crc9.bits-target", barg(a), m.name))
            good = (rem_int(raw, 9) ^ 0x1FF) ^ mv
            if r != good:
                ctx.fail("crc9-front", {"component": "crc9.bits", "bits": barg(a), "mask": m.name}, f"CRC9.calculate is not (inverted remainder) xor mask (bits constructed for the result {tv:#05x})", expected=good, actual=out_int(r))
    # ------------------------------------------------------------------ CRC-32: chosen result, even and odd lengths
    for tv in pick(rng, special_values(32, rng), ctx.budget(30, 70)):
        nb = rng.choice([4, 5, 6, 7, 12, 13, rng.randint(4, 60)])
        free, where = free_positions(rng, 8 * nb, 32)
        fed = force_rem(base_bits(rng, 8 * nb), free, 32, tv) or force_rem(base_bits(rng, 8 * nb), list(range(8 * nb - 32, 8 * nb)), 32, tv)
        d = ref_byteswap(bits_bytes(fed))  # the swap is an involution: these octets are fed in the order `fed`
        good = rem_int(bytes_bits(ref_byteswap(d)), 32)
        r = call(CRC32.calculate, d)
        pairs32.append((f"crc32 {hex_str(d)}", out_int(r)))
        ctx.case(("crc32-target", d))
        ctx.count("structured:front:crc32:target-hit" if good == tv else "structured:front:crc32:target-missed")
        if r != good:
            ctx.fail("crc32-front", {"component": "crc32", "data": hex_str(d)}, f"CRC32.calculate is not the remainder over the pairwise swapped octets (data constructed for the result {tv:#010x})", expected=good, actual=out_int(r))
        for v in dict.fromkeys((good, good ^ (1 << rng.randrange(32)), 0, 0xFFFFFFFF)):
            c = call(CRC32.check, d, v)
            pairs32.append((f"crc32.check {hex_str(d)} {v}", out_bool(c)))
            ctx.case(("crc32.check-target", d, v))
            if c != (v == good):
                ctx.fail("crc32-check", {"component": "crc32.check", "data": hex_str(d), "value": v}, f"CRC32.check does not accept exactly the computed value (data constructed for the result {tv:#010x})", expected=str(v == good), actual=str(c))
    if not ctx.search_only and ctx.driver_ok:
        ctx.correspond("CRC8.structured", pairs8)
        ctx.correspond("CRC16.structured", pairs16)
        ctx.correspond("CRC9.structured", pairs9)
        ctx.correspond("CRC32.structured", pairs32)


# ------------------------------------------------------------------------------------------------
# the register objects used through their documented workflow  init() -> update() 1..n times -> digest()
def split_message(rng, bits, fw):
    """cut a message into 1..6 pieces (empty ones allowed); returns (pieces, how)"""
    n = len(bits)
    how = rng.choice(["random", "random", "random", "feed-multiples", "feed-off-by-one", "zero-runs", "bitwise", "whole"])
    if how == "whole" or n == 0:
        cuts = [] if how == "whole" else sorted(rng.choice([0, 0, n]) for _ in range(rng.randint(0, 3)))
    elif how == "random":
        cuts = sorted(rng.randint(0, n) for _ in range(rng.randint(1, 5)))
    elif how == "feed-multiples":
        cuts = sorted(min(n, fw * rng.randint(0, n // fw + 1)) for _ in range(rng.randint(1, 5)))
    elif how == "feed-off-by-one":
        cuts = sorted(min(n, max(0, fw * rng.randint(0, n // fw + 1) + rng.choice([-1, 1]))) for _ in range(rng.randint(1, 5)))
    elif how == "bitwise" and n <= 24:
        cuts = list(range(1, n))
    else:  # cut exactly around runs of zeros, so that whole pieces are all-zero
        how = "zero-runs"
        runs, i = [], 0
        while i < n:
            if bits[i] == 0:
                j = i
                while j < n and bits[j] == 0:
                    j += 1
                runs.append((i, j))
                i = j
            else:
                i += 1
        cuts = []
        for a, b in rng.sample(runs, min(len(runs), 2)):
            cuts += [a, b]
        cuts = sorted(cuts) or [rng.randint(0, n)]
    pieces, prev = [], 0
    for c in cuts:
        pieces.append(bits[prev:c])
        prev = c
    pieces.append(bits[prev:])
    return pieces, how


STREAM_KINDS = ["random", "zero-padding", "trailing-zero-bit", "zero-field", "leading-zeros", "unit", "sparse", "random",
                "all-zero", "all-ones", "register-zero-then-more", "empty-pieces"]


def stream_message(rng, w, fw, kind):
    """(pieces, class) — messages whose pieces exercise the register in states other than the initial one"""
    rb = lambda k: [rng.getrandbits(1) for _ in range(k)]  # noqa
    if kind == "zero-padding":  # payload, then zero pad octets handed over on their own (then perhaps a serial number)
        pieces = [rb(8 * rng.randint(1, 12)), [0] * (8 * rng.randint(1, 8))]
        if rng.getrandbits(1):
            pieces.append(rb(7))
        return pieces, kind
    if kind == "trailing-zero-bit":
        return [rb(rng.randint(1, 40)) + [1], [0]], kind
    if kind == "zero-field":  # an all-zero field of any width between / after non-zero pieces
        pieces = [rb(rng.randint(1, 30)) + [1], [0] * rng.choice([1, 2, fw - 1, fw, fw + 1, 2 * fw, w, rng.randint(1, 48)])]
        for _ in range(rng.randint(0, 3)):
            pieces.append(rng.choice([rb(rng.randint(1, 20)), [0] * rng.randint(1, 20), []]))
        return pieces, kind
    if kind == "leading-zeros":
        return [[0] * rng.randint(1, 30), rb(rng.randint(1, 40)), [0] * rng.randint(0, 9)], kind
    if kind == "empty-pieces":
        pieces = [[], rb(rng.randint(0, 30)), [], [], rb(rng.randint(0, 30)), []]
        return pieces[rng.randint(0, 2):], kind
    if kind == "register-zero-then-more":  # a prefix with remainder 0 (register back at its initial content), then more
        n = max(w, rng.choice([fw * rng.randint(2, 5), w + rng.randint(0, 20)]))
        pre = force_rem(rb(n), list(range(n - w, n)), w, 0)
        return [pre, rng.choice([[0] * rng.randint(1, 20), rb(rng.randint(1, 20)), []]), rb(rng.randint(0, 12))], kind
    n = rng.choice([rng.randint(0, 80), rng.randint(0, 80), fw * rng.randint(1, 12), rng.randint(80, 260)])
    if kind == "unit":
        bits = [0] * max(n, 1)
        bits[rng.randrange(len(bits))] = 1
    elif kind == "sparse":
        bits = [0] * max(n, 1)
        for _ in range(rng.randint(1, 3)):
            bits[rng.randrange(len(bits))] = 1
    elif kind == "all-zero":
        bits = [0] * n
    elif kind == "all-ones":
        bits = [1] * n
    else:
        bits = rb(n)
    pieces, how = split_message(rng, bits, fw)
    return pieces, f"{kind}/{how}"


def stream_cases(ctx, crcmod):
    rng = ctx.rng
    enums = {7: crcmod.Crc7, 8: crcmod.Crc8, 9: crcmod.Crc9, 16: crcmod.Crc16, 32: crcmod.Crc32}
    classes = {False: getattr(crcmod, "BitCrcRegister", None), True: getattr(crcmod, "TableBasedBitCrcRegister", None)}
    for w, en in enums.items():
        name = CFG_NAMES[w]
        fw = ref_feed_width(w)
        for table, cls in classes.items():
            mt = "t" if table else "b"
            shared = call(cls, en.ETSI_DMR) if cls is not None else "ERR AttributeError"
            oneshot = call(crcmod.BitCrcCalculator, en.ETSI_DMR, table)
            if is_err(shared) or is_err(oneshot):
                ctx.fail("engine-construct", {"config": name, "table": table}, f"cannot construct the {name} register object: {shared} {oneshot}")
                continue
            pairs = []
            previous = None
            for i in range(ctx.budget(60, 360)):
                # every class in turn; 12 classes and 4 x 5 object / scribble variants: all combinations come up
                pieces, klass = stream_message(rng, w, fw, STREAM_KINDS[i % len(STREAM_KINDS)])
                whole = [b for p in pieces for b in p]
                # a quarter on the register inside a calculator, a quarter on a fresh object, the rest on one re-used object
                sel = (i + i // 12) % 4
                if sel == 0:
                    reg, where = call(cls, en.ETSI_DMR), "fresh"
                elif sel == 1:
                    reg, where = getattr(oneshot, "_crc_register", None), "calculator"
                    if reg is None:
                        reg, where = shared, "shared"
                else:
                    reg, where = shared, "shared"
                mutate = (i + i // 12) % 5 == 3  # the caller scribbles over every object update() hands back and over its own buffer
                held, outs, err = [], [], None
                r = call(reg.init)
                if is_err(r):
                    err = r
                fed = []
                for p in pieces:
                    if err:
                        break
                    arg = bitarray(p)
                    r = call(reg.update, arg)
                    if is_err(r):
                        err = r
                        break
                    if arg.tolist() != p:
                        ctx.fail("input-mutated", {"component": "stream", "config": name, "table": table, "pieces": [barg(bitarray(x)) for x in pieces]},
                                 f"{name} register.update altered the caller's bit buffer", expected=barg(bitarray(p)), actual=barg(arg))
                    fed += p
                    outs.append(out_bits(r))
                    held.append((r, out_bits(r)))
                    if mutate and isinstance(r, bitarray):
                        r.invert()
                        held[-1] = (r, out_bits(r))
                        arg.setall(1)  # … and re-uses the buffer it passed in
                if not err:
                    r = call(reg.digest)
                    if is_err(r):
                        err = r
                    else:
                        outs.append(out_bits(r))
                        held.append((r, out_bits(r)))
                if err:
                    outs.append(err)
                impl = ",".join(outs)
                pstr = [barg(bitarray(p)) for p in pieces]
                pairs.append((f"crc.reg {name} {mt} i " + " ".join("u:" + x for x in pstr) + " d", impl))
                ctx.case((name, mt, "stream", tuple(pstr), where, mutate), nontrivial=any(whole))
                ctx.count(f"stream:{name}:{mt}:{klass.split('/')[0]}")
                later_zero = any(not any(p) and len(p) and any(b for q in pieces[:k] for b in q) for k, p in enumerate(pieces))
                if later_zero:
                    ctx.count(f"stream:{name}:{mt}:all-zero-piece-on-non-zero-register")
                if any(len(p) == 0 for p in pieces):
                    ctx.count(f"stream:{name}:{mt}:empty-piece")
                if mutate:
                    ctx.count(f"stream:{name}:{mt}:returned-objects-mutated")
                # ---- oracle: every update returns the remainder of what was fed so far, digest the remainder of
                #      everything, which is also what the one-shot calculator returns for the concatenation
                exp, acc = [], []
                for p in pieces:
                    acc += p
                    exp.append("".join(str(x) for x in poly_rem(acc, w)))
                exp.append("".join(str(x) for x in poly_rem(whole, w)))
                inp = {"component": "stream", "config": name, "table": table, "pieces": pstr, "object": where,
                       "previous": previous, "mutate_returned": mutate, "class": klass}
                previous = pstr
                if impl != ",".join(exp):
                    k = next((j for j, (a, b) in enumerate(zip(outs, exp)) if a != b), min(len(outs), len(exp)))
                    what = ("digest()" if k == len(pieces) else f"update() of piece {k + 1}")
                    ctx.fail("stream-not-remainder", inp,
                             f"{name} {'table' if table else 'bit-by-bit'} register fed in {len(pieces)} pieces ({klass}): {what} is not (what was fed so far)(x)*x^{w} mod G",
                             expected=",".join(exp), actual=impl)
                one = out_bits(call(oneshot.calculate_checksum, bitarray(whole)))
                if one != exp[-1]:
                    ctx.fail("table-not-remainder" if table else "bitwise-not-remainder", {"component": "engine", "config": name, "bits": barg(bitarray(whole)), "previous": None},
                             f"{name}: one-shot value of the concatenated pieces differs from the remainder", expected=exp[-1], actual=one)
                # ---- the objects handed back earlier still hold what they held
                for obj, was in held:
                    if out_bits(obj) != was:
                        ctx.fail("result-aliased", inp, f"{name}: a bit string returned by update()/digest() changed while the register was used further", expected=was, actual=out_bits(obj))
                        break
            # ---- call sequences outside the plain workflow: correspondence only (no init on a fresh object, digest in
            #      the middle, re-init, little-endian pieces)
            for _ in range(ctx.budget(10, 60)):
                reg = call(cls, en.ETSI_DMR)
                acts, outs = [], []
                for _ in range(rng.randint(1, 7)):
                    a = rng.choice(["i", "d", "u", "u", "u", "v"])
                    if a == "i":
                        call(reg.init)
                        acts.append("i")
                    elif a == "d":
                        outs.append(out_bits(call(reg.digest)))
                        acts.append("d")
                    else:
                        k = rng.choice([0, 1, fw - 1, fw, fw + 1, 2 * fw, rng.randint(0, 40)])
                        p = [0] * k if rng.random() < 0.25 else [rng.getrandbits(1) for _ in range(k)]
                        ba_ = bitarray(p, endian="little" if a == "v" else "big")
                        outs.append(out_bits(call(reg.update, ba_)))
                        acts.append(f"{a}:{barg(bitarray(p))}")
                    if outs and is_err(outs[-1]):
                        break
                pairs.append((f"crc.reg {name} {mt} " + " ".join(acts), ",".join(outs) if outs else "="))
                ctx.case((name, mt, "calls", tuple(acts)))
                ctx.count(f"stream:{name}:{mt}:free-call-sequences")
            if not ctx.search_only and ctx.driver_ok:
                ctx.correspond(f"{name}.register-in-pieces.{'table' if table else 'bitwise'}", pairs)


def returned_object_cases(ctx, crcmod, CRC16, CRC9, CRC32, CrcMasks):
    """hold and scribble over the bit strings the calculators return, then calculate again: the check sums
    (and the shared lookup tables) must not be reachable through them.  Also: a front end is not disturbed
    by its singleton's register having been left in mid-message.  Run last (a violation here may leave the
    process-wide tables corrupted)."""
    rng = ctx.rng
    enums = {7: crcmod.Crc7, 8: crcmod.Crc8, 9: crcmod.Crc9, 16: crcmod.Crc16, 32: crcmod.Crc32}
    for w, en in enums.items():
        name = CFG_NAMES[w]
        fw = ref_feed_width(w)
        for table in (False, True):
            calc = call(crcmod.BitCrcCalculator, en.ETSI_DMR, table)
            if is_err(calc):
                continue
            for _ in range(ctx.budget(6, 40)):
                # one full chunk on the zero register: the result is a lookup table entry
                n = rng.choice([fw, fw, 2 * fw, rng.randint(1, 60)])
                bits = [rng.getrandbits(1) for _ in range(n)]
                exp = "".join(str(x) for x in poly_rem(bits, w))
                r1 = call(calc.calculate_checksum, bitarray(bits))
                if isinstance(r1, bitarray):
                    r1.invert()
                    r1 <<= 1
                r2 = out_bits(call(calc.calculate_checksum, bitarray(bits)))
                other = out_bits(call(crcmod.BitCrcCalculator(en.ETSI_DMR, table).calculate_checksum, bitarray(bits)))
                ctx.case((name, table, "scribble", barg(bitarray(bits))))
                ctx.count(f"alias:{name}:returned-check-sum-mutated")
                if r2 != exp or other != exp:
                    ctx.fail("result-aliased", {"component": "scribble", "config": name, "table": table, "bits": barg(bitarray(bits))},
                             f"{name}: after the caller changed the bit string calculate_checksum returned, the same message gets another check sum", expected=exp, actual=f"{r2} / new calculator: {other}")
    for front, fn, good_of in (
        (CRC16, lambda d: CRC16.calculate(d, CrcMasks.CSBK), lambda d: (rem_int(bytes_bits(d), 16) ^ 0xFFFF) ^ ETSI_MASKS["CSBK"]),
        (CRC32, lambda d: CRC32.calculate(d), lambda d: rem_int(bytes_bits(ref_byteswap(d)), 32)),
        (CRC9, lambda d: CRC9.calculate_from_parts(d, 5, CrcMasks.Rate12DataContinuation), lambda d: (rem_int(bytes_bits(d) + [0, 0, 0, 0, 1, 0, 1], 9) ^ 0x1FF) ^ ETSI_MASKS["Rate12DataContinuation"]),
    ):
        reg = getattr(getattr(front, "CALC", None), "_crc_register", None)
        if reg is None:
            continue
        for _ in range(ctx.budget(8, 40)):
            d = bytes(rng.getrandbits(8) for _ in range(rng.randint(0, 14)))
            call(reg.update, bitarray([rng.getrandbits(1) for _ in range(rng.randint(1, 30))]))  # left in mid-message
            r = call(fn, d)
            ctx.case((front.__name__, "dirty-singleton", d))
            ctx.count("state:front-end-after-partial-feed")
            if r != good_of(d):
                ctx.fail("singleton-state", {"component": "dirty-singleton", "front": front.__name__, "data": hex_str(d)},
                         f"{front.__name__}: result depends on what the singleton's register was fed before", expected=good_of(d), actual=out_int(r))


CORPUS = [
    # (config width, bits): lengths around the feed widths and the CRC-9 block sizes
    (9, "1" * 87), (9, "1" * 135), (9, "1" * 183), (9, "0" * 8 + "1"), (7, "1" * 8), (16, "1" * 9), (32, "1" * 33), (8, "1"),
]


def corpus_cases(ctx, crcmod):
    enums = {7: crcmod.Crc7, 8: crcmod.Crc8, 9: crcmod.Crc9, 16: crcmod.Crc16, 32: crcmod.Crc32}
    pairs = []
    for w, s in CORPUS:
        name = CFG_NAMES[w]
        bits = bitarray(s)
        exp = "".join(str(x) for x in poly_rem(bits, w))
        for tb in (False, True):
            r = call(lambda: crcmod.BitCrcCalculator(enums[w].ETSI_DMR, tb).calculate_checksum(bitarray(bits)))
            pairs.append(((f"crc.tab {name} 0 {s}" if tb else f"crc.bit {name} {s}"), out_bits(r)))
            ctx.case(("corpus", w, s, tb))
            if out_bits(r) != exp:
                ctx.fail("table-not-remainder" if tb else "bitwise-not-remainder", {"component": "engine", "config": name, "bits": s}, f"{name} differs from the remainder on a corpus input", expected=exp, actual=out_bits(r))
    if not ctx.search_only and ctx.driver_ok:
        ctx.correspond("corpus", pairs)


def run(ctx):
    ctx.rule = (
        "engine: for each of the five ETSI configurations every length 0..120 (thorough 0..400) with 2-3 random contents "
        "(+ all-ones/alternating/all-zero at some lengths), all unit vectors of many lengths, in bit-by-bit and table mode, "
        "compared with an independent GF(2) long division by the hard-coded ETSI polynomial; linearity on random pairs; random bursts "
        "<= width; verify_checksum on the computed / a flipped / an out-of-range value; all lookup table entries; feed widths of "
        "widths 1..129. Front ends: random byte/bit strings (CRC-16 with all 11 masks; CRC-9 with no / int / bytes / zero CRC-32 and "
        "all 128 serial numbers; CRC-32 even and odd lengths) against (inverted) remainder xor mask; check() on right / wrong / "
        "out-of-range values; CCITT: all 1- and 2-bit and sampled (thorough all) 3-bit differences on 80-bit messages and on 96-bit "
        "code words. Structured algebraic inputs (the CRC is affine in the message: >= w free bits — the last / first w, a random window, "
        "scattered positions — are solved for over GF(2) and the result re-checked by the reference division): messages whose remainder, "
        "and front-end data / parts whose RESULT after inversion, mask and byte order, is a chosen value (0, all-ones, every single bit, "
        "the mask, its complement, low-byte-only values …) for every engine, front end and mask, with calculate, verify_checksum and check() "
        "on the computed / a flipped / 0 / all-ones value; multiples of the generator; prefixes that bring the register to a chosen state "
        "(0, all-ones, table index 0 / last) followed by zero / one / random bits; all-zero, all-ones and one-bit data for every front end. "
        "Register objects through init() -> update() 1..n -> digest(): messages (random, unit, sparse, payload + zero pad octets, lone "
        "trailing 0 bit, zero fields, leading zeros, a prefix with remainder 0) cut into 1..6+ pieces (random cuts, at / next to multiples "
        "of the feed width, around runs of zeros, bit by bit, empty pieces) on fresh, re-used and calculator-owned registers of both kinds "
        "and all five configurations: every update() return value and the digest against the reference division and the one-shot value; "
        "returned bit strings held, scribbled over by the caller and re-verified. "
        "A case is non-trivial unless the message is empty or all-zero; distinct = distinct (component, input)."
    )
    ctx.trusted_base += [
        "Lean 4.33 kernel; Mathlib (Polynomial, ZMod 2) for the statement of 'remainder'",
        "tools/extract_crc.py (the five BitCrcConfiguration values after __post_init__, the configuration/register kind of the four CALC singletons, all CrcMasks)",
        "hand-written model of crc.py / crc8.py / crc9.py / crc16.py / crc32.py (Model/Crc.lean, Model/CrcFront.lean; register objects fed in pieces: Model/CrcStream.lean) tied to the code by this run's correspondence",
        "bitarray (ba2int/int2ba/shift/xor/lexicographic >=) trusted as the substrate; the oracle's reference is an independent list-based long division in this file",
    ]
    ctx.assumptions += [
        "engine theorems are for big-endian containers (the library's representation of a bit string); on a little-endian container the table register reads full chunks as integers and differs from the bit-by-bit one — the CRC-32 front end depends on exactly that and is proved through it (DESIGN §8)",
        "reverse_input_bytes is not modelled (off in all five configurations; theorem configs_etsi)",
    ]
    crcmod, CRC8, CRC9, CRC16, CRC32, CrcMasks = lib()
    corpus_cases(ctx, crcmod)
    feed_width_cases(ctx, crcmod)
    mask_cases(ctx, CrcMasks)
    engine_cases(ctx, crcmod)
    front_cases(ctx, CRC8, CRC9, CRC16, CRC32, CrcMasks)
    detection_cases(ctx, CRC8, CRC9, CRC16, CRC32, CrcMasks)
    singleton_state_cases(ctx, CRC8, CRC9, CRC16, CRC32, CrcMasks)
    structured_engine_cases(ctx, crcmod)
    structured_front_cases(ctx, CRC8, CRC9, CRC16, CRC32, CrcMasks)
    stream_cases(ctx, crcmod)
    returned_object_cases(ctx, crcmod, CRC16, CRC9, CRC32, CrcMasks)


# ------------------------------------------------------------------------------------------------
def replay(obj):
    f = obj.get("failure") or {}
    inp = f.get("input", {}) or {}
    print(json.dumps(obj.get("type")), f.get("kind"), "-", f.get("what"))
    if not inp:
        print(json.dumps(obj.get("no_longer_checks") or obj.get("correspondence_differences"), indent=1)[:4000])
        return 1
    crcmod, CRC8, CRC9, CRC16, CRC32, CrcMasks = lib()
    enums = {"crc7": crcmod.Crc7, "crc8": crcmod.Crc8, "crc9": crcmod.Crc9, "crc16": crcmod.Crc16, "crc32": crcmod.Crc32}
    widths = {v: k for k, v in CFG_NAMES.items()}
    comp = inp.get("component")
    still = 0
    lines = []

    def bits_of(s):
        return bitarray() if s == "-" else bitarray(s)

    if comp in ("engine", "verify") and "bits" in inp:
        name = inp["config"]
        w = widths[name]
        bits = bits_of(inp["bits"])
        exp = "".join(str(x) for x in poly_rem(bits, w))
        cb = crcmod.BitCrcCalculator(enums[name].ETSI_DMR, False)
        ct = crcmod.BitCrcCalculator(enums[name].ETSI_DMR, True)
        if inp.get("previous") is not None:
            # same calculator objects, the message they processed before first
            call(cb.calculate_checksum, bits_of(inp["previous"]))
            call(ct.calculate_checksum, bits_of(inp["previous"]))
            print(f"(after a calculation of {inp['previous']} on the same calculator objects)")
        rb = out_bits(call(cb.calculate_checksum, bitarray(bits)))
        rt = out_bits(call(ct.calculate_checksum, bitarray(bits)))
        print(f"implementation bit-by-bit: {rb}\nimplementation table:      {rt}\nremainder (reference):     {exp}")
        lines = [f"crc.bit {name} {inp['bits']}", f"crc.tab {name} 0 {inp['bits']}"]
        still = int(rb != exp or rt != exp)
        if "value" in inp:
            v = inp["value"]
            r = call(lambda: crcmod.BitCrcCalculator(enums[name].ETSI_DMR, bool(inp.get("table"))).verify_checksum(bitarray(bits), v))
            print(f"implementation verify_checksum(…, {v}) = {r}; expected {v == rem_int(bits, w)}")
            still = int(r is not (v == rem_int(bits, w)))
    elif comp == "engine" and "a" in inp:
        name = inp["config"]
        a, b = bits_of(inp["a"]), bits_of(inp["b"])
        calc = crcmod.BitCrcCalculator(enums[name].ETSI_DMR, bool(inp.get("table")))
        ra, rb = out_bits(call(calc.calculate_checksum, bitarray(a))), out_bits(call(calc.calculate_checksum, bitarray(b)))
        rx = out_bits(call(calc.calculate_checksum, a ^ b))
        print(f"implementation crc(a) = {ra}\nimplementation crc(b) = {rb}\nimplementation crc(a^b) = {rx}")
        still = int(ra == rb) if f.get("kind") == "burst-undetected" else 1
        lines = [f"crc.bit {name} {barg(a)}", f"crc.bit {name} {barg(b)}"]
    elif comp == "crc16":
        d = bytes.fromhex(inp["data"]) if inp["data"] != "-" else b""
        m = CrcMasks[inp["mask"]]
        r = call(CRC16.calculate, d, m)
        good = (rem_int(bytes_bits(d), 16) ^ 0xFFFF) ^ ETSI_MASKS.get(m.name, m.value)
        print(f"implementation CRC16.calculate = {r}; (inverted remainder) xor mask = {good}")
        lines = [f"crc16 {hex_str(d)} {m.value}"]
        still = int(r != good)
    elif comp == "crc32":
        d = bytes.fromhex(inp["data"]) if inp["data"] != "-" else b""
        r = call(CRC32.calculate, d)
        good = rem_int(bytes_bits(ref_byteswap(d)), 32)
        print(f"implementation CRC32.calculate = {r}; remainder over swapped octets = {good}")
        lines = [f"crc32 {hex_str(d)}"]
        still = int(r != good)
    elif comp == "crc8":
        bits = bits_of(inp["bits"])
        r = call(CRC8.calculate, bitarray(bits))
        print(f"implementation CRC8.calculate = {r}; remainder = {rem_int(bits, 8)}")
        lines = [f"crc8 0 {barg(bits)}"]
        still = int(r != rem_int(bits, 8))
    elif comp == "crc9":
        d = bytes.fromhex(inp["data"]) if inp["data"] != "-" else b""
        m = CrcMasks[inp["mask"]]
        tag = inp["crc32"]
        arg = None if tag == "none" else (int(tag[2:]) if tag.startswith("i:") else bytes.fromhex(tag[2:]))
        r = call(CRC9.calculate_from_parts, d, inp["serial"], m, arg)
        extra = [] if arg in (None, 0) else bytes_bits(arg if isinstance(arg, bytes) else arg.to_bytes(4, "big"))
        src = bytes_bits(d) + extra + [(inp["serial"] >> (6 - k)) & 1 for k in range(7)]
        good = (rem_int(src, 9) ^ 0x1FF) ^ ETSI_MASKS.get(m.name, m.value)
        print(f"implementation CRC9.calculate_from_parts = {r}; expected {good}")
        lines = [f"crc9 {hex_str(d)} {inp['serial']} {m.value} {tag}"]
        still = int(r != good)
    elif comp == "crc16.check":
        d = bytes.fromhex(inp["data"]) if inp["data"] != "-" else b""
        m = CrcMasks[inp["mask"]]
        v = inp["value"]
        good = (rem_int(bytes_bits(d), 16) ^ 0xFFFF) ^ ETSI_MASKS.get(m.name, m.value)
        exp = "ERR AssertionError" if not (0 <= v <= 0xFFFF) else (v == good)
        c = call(CRC16.check, d, v, m)
        print(f"(inverted remainder) xor mask = {good}; implementation CRC16.calculate = {call(CRC16.calculate, d, m)}; CRC16.check(…, {v}, {m.name}) = {c}; expected {exp}")
        lines = [f"crc16 {hex_str(d)} {m.value}", f"crc16.check {hex_str(d)} {v} {m.value}"]
        still = int(c != exp)
    elif comp == "crc8.check":
        bits = bits_of(inp["bits"])
        v = inp["value"]
        good = rem_int(bits, 8)
        exp = "ERR AssertionError" if not (0 <= v <= 255) else (v == good)
        c = call(CRC8.check, bitarray(bits), v)
        print(f"remainder = {good}; implementation CRC8.check(…, {v}) = {c}; expected {exp}")
        lines = [f"crc8 0 {barg(bits)}", f"crc8.check 0 {barg(bits)} {v}"]
        still = int(c != exp)
    elif comp == "crc32.check":
        d = bytes.fromhex(inp["data"]) if inp["data"] != "-" else b""
        v = inp["value"]
        good = rem_int(bytes_bits(ref_byteswap(d)), 32)
        exp = "ERR AssertionError" if not (0 <= v <= 0xFFFFFFFF) else (v == good)
        c = call(CRC32.check, d, v)
        print(f"remainder over swapped octets = {good}; implementation CRC32.check(…, {v}) = {c}; expected {exp}")
        lines = [f"crc32 {hex_str(d)}", f"crc32.check {hex_str(d)} {v}"]
        still = int(c != exp)
    elif comp == "crc9.check":
        d = bytes.fromhex(inp["data"]) if inp["data"] != "-" else b""
        m = CrcMasks[inp["mask"]]
        tag, v, sn = inp["crc32"], inp["value"], inp["serial"]
        arg = None if tag == "none" else (int(tag[2:]) if tag.startswith("i:") else bytes.fromhex(tag[2:]))
        extra = [] if arg in (None, 0) else bytes_bits(arg if isinstance(arg, bytes) else arg.to_bytes(4, "big"))
        good = (rem_int(bytes_bits(d) + extra + [(sn >> (6 - k)) & 1 for k in range(7)], 9) ^ 0x1FF) ^ ETSI_MASKS.get(m.name, m.value)
        exp = "ERR AssertionError" if v > 511 else (v == good)
        c = call(CRC9.check, d, sn, v, m, arg)
        print(f"(inverted remainder) xor mask = {good}; implementation CRC9.check(…, {v}, …) = {c}; expected {exp}")
        lines = [f"crc9 {hex_str(d)} {sn} {m.value} {tag}", f"crc9.check {hex_str(d)} {sn} {v} {m.value} {tag}"]
        still = int(c != exp)
    elif comp == "crc9.bits":
        bits = bits_of(inp["bits"])
        m = CrcMasks[inp["mask"]]
        good = (rem_int(bits, 9) ^ 0x1FF) ^ ETSI_MASKS.get(m.name, m.value)
        r = call(CRC9.calculate, bitarray(bits), m)
        print(f"implementation CRC9.calculate = {r}; (inverted remainder) xor mask = {good}")
        lines = [f"crc9.bits 0 {barg(bits)} {m.value}"]
        still = int(r != good)
    elif comp == "stream":
        name = inp["config"]
        w = widths[name]
        table = bool(inp.get("table"))
        cls = crcmod.TableBasedBitCrcRegister if table else crcmod.BitCrcRegister
        reg = cls(enums[name].ETSI_DMR)
        if inp.get("object") != "fresh" and inp.get("previous"):
            call(reg.init)
            for p in inp["previous"]:
                call(reg.update, bits_of(p))
            call(reg.digest)
            print("(same register object, after the message it was fed before)")
        pieces = [bits_of(p) for p in inp["pieces"]]
        outs, exp, acc = [], [], bitarray()
        call(reg.init)
        for p in pieces:
            r = call(reg.update, bitarray(p))
            outs.append(out_bits(r))
            if inp.get("mutate_returned") and isinstance(r, bitarray):
                r.invert()
            acc += p
            exp.append("".join(str(x) for x in poly_rem(acc, w)))
            if is_err(r):
                break
        outs.append(out_bits(call(reg.digest)))
        exp.append("".join(str(x) for x in poly_rem(acc, w)))
        one = out_bits(call(crcmod.BitCrcCalculator(enums[name].ETSI_DMR, table).calculate_checksum, bitarray(acc)))
        print(f"init(); update(p) for the {len(pieces)} pieces; digest()\nimplementation returns: {','.join(outs)}\nremainders (reference): {','.join(exp)}\none-shot calculate_checksum of the concatenation: {one}")
        lines = [f"crc.reg {name} {'t' if table else 'b'} i " + " ".join("u:" + barg(p) for p in pieces) + " d"]
        still = int(outs != exp)
    elif comp == "scribble":
        name = inp["config"]
        w = widths[name]
        bits = bits_of(inp["bits"])
        calc = crcmod.BitCrcCalculator(enums[name].ETSI_DMR, bool(inp.get("table")))
        exp = "".join(str(x) for x in poly_rem(bits, w))
        r1 = call(calc.calculate_checksum, bitarray(bits))
        first = out_bits(r1)
        if isinstance(r1, bitarray):
            r1.invert()
            r1 <<= 1
        r2 = out_bits(call(calc.calculate_checksum, bitarray(bits)))
        other = out_bits(call(crcmod.BitCrcCalculator(enums[name].ETSI_DMR, bool(inp.get("table"))).calculate_checksum, bitarray(bits)))
        print(f"first call: {first}; after changing the returned bit string, same calculator: {r2}; new calculator: {other}; remainder: {exp}")
        still = int(r2 != exp or other != exp)
    elif comp in ("ccitt-message", "ccitt-codeword"):
        m = CrcMasks[inp["mask"]]
        a = bits_of(inp["a"])
        c0 = call(CRC16.calculate, a.tobytes(), m)
        if comp == "ccitt-message":
            b = bitarray(a)
            for p in inp["positions"]:
                b.invert(p)
            c1 = call(CRC16.calculate, b.tobytes(), m)
            print(f"implementation CRC16 of a = {c0}, of a with bits {inp['positions']} inverted = {c1}")
            still = int(c0 == c1)
        else:
            word = a + int2ba(c0 & 0xFFFF, length=16)
            for p in inp.get("positions", []):
                word.invert(p)
            ok = call(CRC16.check, word[:80].tobytes(), ba2int(word[80:]), m)
            print(f"implementation CRC16.check on the corrupted code word = {ok}")
            still = int(ok is not False)
    else:
        print("input:", json.dumps(inp))
        still = 1
    if lines:
        try:
            import common

            ctx = common.Ctx(PROP, "quick", 0)
            for l, o in zip(lines, ctx.drive(lines)):
                print(f"model  {l}  ->  {o}")
        except Exception as e:  # noqa
            print("model driver not available:", e)
    print("expected:", f.get("expected"), "actual:", f.get("actual"))
    return 1 if still else 0
