"""C01 — a burst the library assembles is parsed back identically, and re-assembles (DESIGN §5 C01).

Oracle (real code):
  data   payload p built from fields (every PDU kind / variant of C03's generator), colour code cc, data sync s:
         b = Burst(DataAndControl); b.has_emb=False; b.sync…=s; b.slot_type=SlotType(cc, dt); b.data=p   (as TransmissionGenerator does)
         x = b.as_bytes(): 33 octets;  q = Burst.from_bytes(x, any burst type):  q.data_type, q.colour_code, q.sync… as given,
         every attribute of q.data equals p's (rate-coded blocks: q.data.convert(type of p), and equal bits), q.as_bytes() == x
  voice  any 216 vocoder bits around a voice sync (any burst type) / around valid EMB (cc, PI, LCSS, QR parity) with any 32 embedded
         bits (burst type vocoder / undefined):  Burst.from_bytes(x).as_bytes() == x
Correspondence (model vs code): burst.build -> bits; burst.parse -> sync, flags, EMB, slot type, payload fields, as_bits or error
kind, also for random and corrupted 264-bit strings; slot.dec / emb.dec.
"""
import json

from bitarray import bitarray
from bitarray.util import int2ba, ba2int

from common import impl_error
from props import c03

PROP = "C01"
MODULES = ["C01"]
GEN = ["Burst", "Elements", "Codes", "Bptc", "Trellis"]
MATCHERS = {}
# drift detector (auxiliary): besides the anchor files of the property, the payload codecs and the assembly code
ANCHORS = [
    "okdmr/dmrlib/etsi/layer2/pdu",
    "okdmr/dmrlib/etsi/layer2/elements",
    "okdmr/dmrlib/etsi/layer3/elements",
    "okdmr/dmrlib/transmission/transmission_generator.py",
]

MODEL_ERRORS = {"ValueError", "AssertionError", "NotImplementedError", "KeyError", "IndexError"}


def err_kind(e: BaseException) -> str:
    n = type(e).__name__
    return "ERR " + n if n in MODEL_ERRORS else "ERR other"


def call(fn, *a, **k):
    try:
        return fn(*a, **k), None
    except BaseException as e:  # noqa
        return None, err_kind(e)


def lib():
    from okdmr.dmrlib.etsi.layer2.burst import Burst
    from okdmr.dmrlib.etsi.layer2.elements.burst_types import BurstTypes
    from okdmr.dmrlib.etsi.layer2.elements.data_types import DataTypes
    from okdmr.dmrlib.etsi.layer2.elements.sync_patterns import SyncPatterns
    from okdmr.dmrlib.etsi.layer2.pdu.slot_type import SlotType
    from okdmr.dmrlib.etsi.layer2.pdu.embedded_signalling import EmbeddedSignalling

    return Burst, BurstTypes, DataTypes, SyncPatterns, SlotType, EmbeddedSignalling


def sync_sets():
    Burst, BT, DT, SP, ST, EMB = lib()
    voice = [SP.BsSourcedVoice, SP.MsSourcedVoice, SP.Tdma1Voice, SP.Tdma2Voice]
    data = [SP.BsSourcedData, SP.MsSourcedData, SP.Tdma1Data, SP.Tdma2Data]
    other = [m for m in SP if m.value >= 0 and m not in voice and m not in data]
    return voice, data, other


# ------------------------------------------------------------------------------------------------
# payload kinds: (driver kind name, data type, c03 kind, variant filter, field text)
def payload_sources():
    Burst, BT, DT, SP, ST, EMB = lib()
    ks = {k.name: k for k in c03.kinds()}
    out = []
    out.append(("csbk", DT.CSBK, ks["csbk"], None))
    out.append(("dh", DT.DataHeader, ks["dh"], None))
    out.append(("vlc", DT.VoiceLCHeader, ks["flc"], None))
    out.append(("tlc", DT.TerminatorWithLC, ks["flc"], None))
    out.append(("pi", DT.PIHeader, ks["pi"], None))
    for cname, dt in (("12", DT.Rate12Data), ("34", DT.Rate34Data), ("1", DT.Rate1Data)):
        for t in c03.RATE_TYPES:
            out.append((f"rate{cname}", dt, ks[f"rate{cname}.{t}"], t))
    return out


def payload_text(kind, p):
    """the text the driver prints for Burst.data (kind|fields with '|' for blanks)"""
    from okdmr.dmrlib.etsi.layer2.pdu.csbk import CSBK
    from okdmr.dmrlib.etsi.layer2.pdu.data_header import DataHeader
    from okdmr.dmrlib.etsi.layer2.pdu.full_link_control import FullLinkControl
    from okdmr.dmrlib.etsi.layer2.pdu.pi_header import PIHeader
    from okdmr.dmrlib.etsi.layer2.pdu.rate12_data import Rate12Data
    from okdmr.dmrlib.etsi.layer2.pdu.rate34_data import Rate34Data
    from okdmr.dmrlib.etsi.layer2.pdu.rate1_data import Rate1Data

    ks = payload_text.kinds
    if isinstance(p, CSBK):
        return "csbk|" + ks["csbk"].fmt(p).replace(" ", "|")
    if isinstance(p, DataHeader):
        return "dh|" + ks["dh"].fmt(p).replace(" ", "|")
    if isinstance(p, FullLinkControl):
        return kind + "|" + ks["flc"].fmt(p).replace(" ", "|")
    if isinstance(p, PIHeader):
        return "pi|" + ks["pi"].fmt(p).replace(" ", "|")
    for cls, n in ((Rate12Data, "rate12"), (Rate34Data, "rate34"), (Rate1Data, "rate1")):
        if isinstance(p, cls):
            return f"{n}|{c03.shex(p.data)}|{p.dbsn}|{p.crc9}|{p.crc32}"
    return "?" + type(p).__name__


payload_text.kinds = None


def build_line(cc, sync, kname, src_kind, variant, vals, p):
    if kname.startswith("rate"):
        t = variant.name
        return f"burst.build {cc} {sync.value} {kname} {t} {vals['data'] or '-'} {vals.get('dbsn', 0)} {vals.get('crc9', 0)} {vals.get('crc32', 0)}"
    return f"burst.build {cc} {sync.value} {kname} {src_kind.fmt(p, vals.get('crc'))}"


def assemble(p, cc, dt, sync):
    """exactly what TransmissionGenerator does"""
    Burst, BT, DT, SP, ST, EMB = lib()
    b = Burst(burst_type=BT.DataAndControl)
    b.has_emb = False
    b.sync_or_embedded_signalling = sync
    b.slot_type = ST(colour_code=cc, data_type=dt)
    b.data = p
    return b


def parse_text(q, dt_kind=None):
    """canonical text of a parsed burst (same as the driver's burst.parse)"""
    Burst, BT, DT, SP, ST, EMB = lib()
    s = q.sync_or_embedded_signalling
    sync = str(s.value) if s.value >= 0 else "EMB"
    flags = "".join(c03.b01(x) for x in (q.is_voice_superframe_start, q.is_vocoder, q.is_data_or_control, q.has_emb))
    emb = "-" if q.emb is None else f"{q.emb.colour_code},{q.emb.preemption_and_power_control_indicator.value},{q.emb.link_control_start_stop.value},{q.emb.emb_parity}"
    slot = "-" if q.slot_type is None else f"{q.slot_type.colour_code},{q.slot_type.data_type.value},{q.slot_type.fec_parity}"
    if q.data is None:
        pl = "-"
    else:
        kind = {DT.VoiceLCHeader: "vlc", DT.TerminatorWithLC: "tlc"}.get(q.data_type, "")
        pl = payload_text(kind, q.data)
    bits, err = call(q.as_bits)
    return f"ok {sync} {flags} {emb} {slot} {pl} {err or c03.sbits(bits)}"


BT_NAMES = {"U": "Undefined", "V": "Vocoder", "D": "DataAndControl"}


def impl_parse(bits, bt):
    Burst, BT, DT, SP, ST, EMB = lib()
    q, err = call(Burst.from_bits, bitarray(bits), getattr(BT, BT_NAMES[bt]))
    if err:
        return None, err
    return q, parse_text(q)


# ------------------------------------------------------------------------------------------------
def check_data(ctx, kname, dt, src, variant, vals, cc, sync, pairs_build, pairs_parse, bts=("D",)):
    Burst, BT, DT, SP, ST, EMB = lib()
    inp = {"mode": "data", "kind": kname, "c03kind": src.name, "variant": variant.name, "fields": vals, "cc": cc, "sync": sync.name}
    p, err = call(variant.build, vals)
    if err:
        ctx.fail("payload-constructor-raises", inp, f"{kname}/{variant.name}: building the payload raised {err}", actual=err)
        return
    b, err = call(assemble, p, cc, dt, sync)
    if err:
        ctx.fail("assemble-raises", inp, f"{kname}: assembling the burst raised {err}", actual=err)
        return
    x, err = call(b.as_bits)
    if err:
        ctx.fail("serialise-raises", inp, f"{kname}/{variant.name}: as_bits of the assembled burst raised {err}", actual=err)
        pairs_build.append((build_line(cc, sync, kname, src, variant, vals, p), err))
        return
    xs = c03.sbits(x)
    pairs_build.append((build_line(cc, sync, kname, src, variant, vals, p), xs))
    if len(x) != 264 or len(b.as_bytes()) != 33:
        ctx.fail("wrong-length", inp, f"{kname}: assembled burst has {len(x)} bits", expected=264, actual=len(x))
        return
    pa = c03.attrs(p)
    for bt in bts:
        q, err = call(Burst.from_bytes, b.as_bytes(), getattr(BT, BT_NAMES[bt]))
        if err:
            ctx.fail("parse-raises", inp, f"{kname}/{variant.name}: parsing the assembled burst ({bt}) raised {err}", actual=err)
            pairs_parse.append((f"burst.parse {bt} {xs}", err))
            continue
        pairs_parse.append((f"burst.parse {bt} {xs}", parse_text(q)))
        if q.data_type != dt:
            ctx.fail("data-type", inp, f"{kname}: parsed data type {q.data_type} != {dt}", expected=dt.value, actual=q.data_type.value)
        qcc, e2 = call(lambda: q.colour_code)
        if e2 or qcc != cc:
            ctx.fail("colour-code", inp, f"{kname}: parsed colour code {e2 or qcc} != {cc}", expected=cc, actual=e2 or qcc)
        if q.sync_or_embedded_signalling != sync:
            ctx.fail("sync", inp, f"{kname}: parsed sync {q.sync_or_embedded_signalling.name} != {sync.name}", expected=sync.name, actual=q.sync_or_embedded_signalling.name)
        if q.data is None:
            ctx.fail("payload-missing", inp, f"{kname}: parsed burst has no payload")
        else:
            qd = q.data
            if kname.startswith("rate"):
                if qd.as_bits() != p.as_bits():
                    ctx.fail("payload-bits", inp, f"{kname}/{variant.name}: parsed block bits differ", expected=c03.sbits(p.as_bits()), actual=c03.sbits(qd.as_bits()))
                qd, e3 = call(qd.convert, p.packet_type)
                if e3:
                    ctx.fail("payload-fields", inp, f"{kname}/{variant.name}: convert({p.packet_type.name}) raised {e3}", actual=e3)
                    qd = None
            if qd is not None:
                d = c03.diff_attrs(pa, c03.attrs(qd))
                if d:
                    qa = c03.attrs(qd)
                    ctx.fail("payload-fields", inp, f"{kname}/{variant.name}: parsed payload differs from the assembled one in {d}",
                             expected={k: pa.get(k) for k in d}, actual={k: qa.get(k) for k in d})
        y, e4 = call(q.as_bytes)
        if e4 or y != b.as_bytes():
            ctx.fail("reserialise", inp, f"{kname}/{variant.name}: re-serialised burst differs from the assembled one",
                     expected=b.as_bytes().hex(), actual=e4 or y.hex())


def check_voice(ctx, x, bt, what, inp, pairs_parse):
    Burst, BT, DT, SP, ST, EMB = lib()
    xs = c03.sbits(x)
    q, err = call(Burst.from_bytes, x.tobytes(), getattr(BT, BT_NAMES[bt]))
    if err:
        ctx.fail("parse-raises", inp, f"voice burst ({what}, {bt}): parsing raised {err}", actual=err)
        pairs_parse.append((f"burst.parse {bt} {xs}", err))
        return
    pairs_parse.append((f"burst.parse {bt} {xs}", parse_text(q)))
    y, err = call(q.as_bytes)
    if err or y != x.tobytes():
        ctx.fail("voice-roundtrip", inp, f"voice burst ({what}, {bt}) does not survive parse-then-serialise", expected=x.tobytes().hex(), actual=err or y.hex())


def emb_word(cc, pi, lcss):
    Burst, BT, DT, SP, ST, EMB = lib()
    return EMB(colour_code=cc, preemption_and_power_control_indicator=pi, link_control_start_stop=lcss).as_bits()


def voice_frame(v, center):
    return v[:108] + center + v[108:]


def run(ctx):
    Burst, BT, DT, SP, ST, EMB = lib()
    payload_text.kinds = {k.name: k for k in c03.kinds()}
    voice, data, other = sync_sets()
    ctx.rule = (
        "data bursts: every payload kind and variant of the C03 generator (CSBK x9, data header x5, voice LC header / terminator x5, PI header, "
        "rate 1/2, 3/4, 1 x 4 variants) built from fields (type-directed sweep: each field at 0 / max / walking ones / every enum member, plus "
        "random tuples), first tuple of every variant with all 16 colour codes x 4 data syncs, the others with random ones; parsed with "
        "every burst type; voice bursts: random 216 vocoder bits around every sync pattern x burst types and around valid EMB for all 128 "
        "(cc, PI, LCSS) x random 32 embedded bits; correspondence additionally on random 264-bit strings and 1-3 bit corruptions of valid "
        "bursts. distinct = distinct (kind, variant, fields, cc, sync) / burst bit string"
    )
    ctx.trusted_base += [
        "Lean 4.33 kernel",
        "tools/extract_burst.py (sync patterns, voice/data classification obtained by constructing Burst objects, data type values), extract_elements.py, extract.py (codes), extract_bptc.py, extract_trellis.py",
        "hand-written models Model/Burst.lean (+ Model/Bptc.lean of C02, Model/Trellis.lean of C10, Model/Pdu*.lean of C03) tied to the code by this run's correspondence",
        "CRC functions are parameters of the theorems; the driver's plain bitwise CRC is compared with the real code by the correspondence",
        "numpy / bitarray / enum are trusted as the substrate of the implementation",
    ]
    ctx.assumptions += [
        "payload objects are what the PDU constructors build from in-range field values (C03's WF predicates); full LC in the 96-bit form",
        "the assembled burst object is the one TransmissionGenerator builds: Burst(DataAndControl) with has_emb=False, sync, SlotType(cc, data type), data assigned",
        "fec_parity_ok / emb_parity_ok / crc_ok (C04) are not compared",
    ]
    rng = ctx.rng
    pairs_build, pairs_parse = [], []
    # ---- corpus: the three repaired C03 defects surface here as field mismatches
    ks = payload_text.kinds
    corpus = [
        ("csbk", DT.CSBK, ks["csbk"], "nackRsp", {"lb": 1, "pf": 0, "fid": 0, "crc": 0, "aif": 0, "st": 1, "svc": 4, "rc": 33, "src": 2623266, "tgt": 1234}),
        ("csbk", DT.CSBK, ks["csbk"], "aloha", {"lb": 0, "pf": 0, "fid": 0, "crc": 0, "tsccas": 1, "sync": 0, "dvc": 3, "off": 0, "act": 1, "mask": 21, "sf": 2,
                                                "nrand": 7, "reg": 1, "backoff": 5, "sys": 48879, "tgt": 2623266}),
        ("dh", DT.DataHeader, ks["dh"], "response", {"crc": "0" * 16, "A": 1, "sap": 4, "dst": 1234, "src": 2623266, "fmf": 1, "btf": 5, "cls": 2, "typ": 1, "status": 7}),
    ]
    for kname, dt, src, vname, vals in corpus:
        var = next(v for v in src.variants if v.name == vname)
        ctx.case(("corpus", kname, vname), sample={"kind": kname, "variant": vname, "fields": vals, "cc": 5, "sync": "BsSourcedData"})
        check_data(ctx, kname, dt, src, var, vals, 5, SP.BsSourcedData, pairs_build, pairs_parse, bts=("D", "V", "U"))
    # ---- data bursts from fields
    n_random = ctx.budget(12, 400)
    sweep_stride = ctx.budget(4, 1)  # take every n-th special value in quick
    for kname, dt, src, tname in payload_sources():
        for var in src.variants:
            if kname in ("vlc", "tlc"):
                fix = lambda v: dict(v, crc=(v["crc"] if len(v["crc"]) == 24 else c03.BITS(24).rand(rng)))
            else:
                fix = lambda v: v
            # all colour codes x data syncs on one tuple
            vals = fix(var.random_vals(rng))
            first = True
            full = ctx.thorough() or ctx.boost > 1 or var is src.variants[0]
            combos = [(cc, s) for cc in range(16) for s in data]
            if not full:
                # quick: the complete 16 x 4 grid on the first variant of every kind, a quarter of it on the others
                combos = [c for i, c in enumerate(combos) if i % 4 == (len(var.name) + i // 4) % 4]
            for cc, s in combos:
                if True:
                    ctx.case((kname, var.name, json.dumps(vals, sort_keys=True), cc, s.name),
                             sample={"kind": kname, "variant": var.name, "fields": vals, "cc": cc, "sync": s.name} if first and kname in ("csbk", "rate34") else None)
                    first = False
                    check_data(ctx, kname, dt, src, var, vals, cc, s, pairs_build, pairs_parse, bts=("D", "V", "U") if cc % 5 == 0 else ("D",))
            ctx.count(f"data:{kname}:{var.name}", len(combos))
            # type-directed sweep
            i = 0
            for fname, spec in var.fields:
                for sv in spec.specials(rng):
                    i += 1
                    if i % sweep_stride:
                        continue
                    vals = var.random_vals(rng)
                    vals[fname] = sv
                    if var.fix:
                        vals = var.fix(vals)
                    vals = fix(vals)
                    cc, s = rng.randrange(16), rng.choice(data)
                    ctx.case((kname, var.name, json.dumps(vals, sort_keys=True), cc, s.name))
                    ctx.count(f"data:{kname}:{var.name}")
                    check_data(ctx, kname, dt, src, var, vals, cc, s, pairs_build, pairs_parse)
            for _ in range(n_random):
                vals = fix(var.random_vals(rng))
                cc, s = rng.randrange(16), rng.choice(data)
                ctx.case((kname, var.name, json.dumps(vals, sort_keys=True), cc, s.name))
                ctx.count(f"data:{kname}:{var.name}")
                check_data(ctx, kname, dt, src, var, vals, cc, s, pairs_build, pairs_parse, bts=(rng.choice("DVU"),))
    if not ctx.search_only and ctx.driver_ok:
        ctx.correspond("burst.build", pairs_build)
        ctx.correspond("burst.parse(data)", pairs_parse)
    valid = [l.split(" ")[2] for l, o in pairs_parse if isinstance(o, str) and o.startswith("ok")]
    # ---- voice bursts
    pairs_voice = []
    n_sync = ctx.budget(40, 2000)
    for s in voice + other + data:
        for i in range(n_sync if s in voice else max(4, n_sync // 8)):
            v = int2ba(rng.getrandbits(216), length=216) if i > 1 else bitarray([i] * 216)
            x = voice_frame(v, s.as_bits())
            for bt in ("V", "U", "D"):
                if s in voice or (s in other and bt != "D"):
                    ctx.case(("voice-sync", s.name, bt, c03.sbits(v)), sample={"sync": s.name, "burst_type": bt, "vocoder_bits": c03.sbits(v)} if i == 2 and bt == "V" else None)
                    ctx.count(f"voice:sync:{s.name}")
                    check_voice(ctx, x, bt, f"sync {s.name}", {"mode": "voice", "bits": c03.sbits(x), "burst_type": bt}, pairs_voice)
                else:
                    # outside the property (data path on arbitrary bits): correspondence only
                    q, out = impl_parse(x, bt)
                    pairs_voice.append((f"burst.parse {bt} {c03.sbits(x)}", out))
    n_emb = ctx.budget(2, 60)
    for cc in range(16):
        for pi in range(2):
            for lcss in range(4):
                e16 = emb_word(cc, pi, lcss)
                for i in range(n_emb):
                    v = int2ba(rng.getrandbits(216), length=216)
                    e32 = int2ba(rng.getrandbits(32), length=32) if i else bitarray([0] * 32)
                    x = voice_frame(v, e16[:8] + e32 + e16[8:])
                    for bt in ("V", "U"):
                        ctx.case(("voice-emb", cc, pi, lcss, bt, c03.sbits(v), c03.sbits(e32)),
                                 sample={"cc": cc, "pi": pi, "lcss": lcss, "burst_type": bt, "embedded_bits": c03.sbits(e32)} if (cc, pi, lcss, i, bt) == (5, 1, 2, 1, "V") else None)
                        ctx.count("voice:emb")
                        check_voice(ctx, x, bt, f"EMB cc={cc} pi={pi} lcss={lcss}", {"mode": "voice", "bits": c03.sbits(x), "burst_type": bt}, pairs_voice)
                    # announced as data: outside the property, correspondence only
                    if i == 0:
                        q, out = impl_parse(x, "D")
                        pairs_voice.append((f"burst.parse D {c03.sbits(x)}", out))
    if not ctx.search_only and ctx.driver_ok:
        ctx.correspond("burst.parse(voice)", pairs_voice)
    # ---- arbitrary and corrupted bursts, slot type and EMB words: correspondence only
    if not ctx.search_only and ctx.driver_ok:
        pairs_rand = []
        for _ in range(ctx.budget(400, 20000)):
            x = int2ba(rng.getrandbits(264), length=264)
            r = rng.random()
            if r < 0.5:
                x[108:156] = rng.choice(data).as_bits()
            elif r < 0.6:
                x[108:156] = rng.choice(voice + other).as_bits()
            bt = rng.choice("DVU")
            ctx.case(("random", bt, c03.sbits(x)), nontrivial=True)
            q, out = impl_parse(x, bt)
            pairs_rand.append((f"burst.parse {bt} {c03.sbits(x)}", out))
            ctx.count("random:" + (out if out.startswith("ERR") else "ok"))
        for xs in rng.sample(valid, min(len(valid), ctx.budget(300, 10000))):
            x = bitarray(xs)
            for _ in range(rng.randrange(1, 4)):
                x.invert(rng.randrange(264))
            bt = rng.choice("DVU")
            ctx.case(("corrupted", bt, c03.sbits(x)), nontrivial=True)
            q, out = impl_parse(x, bt)
            pairs_rand.append((f"burst.parse {bt} {c03.sbits(x)}", out))
            ctx.count("corrupted:" + (out if out.startswith("ERR") else "ok"))
        ctx.correspond("burst.parse(random)", pairs_rand)
        pairs_se = []
        words = range(2**16) if ctx.thorough() else sorted({rng.randrange(2**16) for _ in range(1500)} | {0, 1, 2**16 - 1})
        for w in words:
            b = int2ba(w, length=16)
            o, err = call(EMB.from_bits, bitarray(b))
            pairs_se.append((f"emb.dec {b.to01()}", err or f"ok {o.colour_code},{o.preemption_and_power_control_indicator.value},{o.link_control_start_stop.value},{o.emb_parity} {o.as_bits().to01()}"))
        words = [rng.randrange(2**20) for _ in range(ctx.budget(1500, 60000))] + [0, 1, 2**20 - 1] + [d << 12 for d in range(256)]
        for w in words:
            b = int2ba(w, length=20)
            o, err = call(ST.from_bits, bitarray(b))
            pairs_se.append((f"slot.dec {b.to01()}", err or f"ok {o.colour_code},{o.data_type.value},{o.fec_parity} {o.as_bits().to01()}"))
        ctx.correspond("slot/emb", pairs_se)


def replay(obj):
    f = obj.get("failure") or {}
    inp = f.get("input") or {}
    print(json.dumps(obj.get("type")), f.get("what"))
    if not inp:
        print("no failing input recorded (proof / correspondence broke):", json.dumps(obj.get("no_longer_checks") or obj.get("correspondence_differences"))[:2000])
        return 1
    Burst, BT, DT, SP, ST, EMB = lib()
    payload_text.kinds = {k.name: k for k in c03.kinds()}
    r = c03.ReplayCtx()
    pairs = []
    if inp.get("mode") == "data":
        srcs = {(k, s.name): (k, dt, s, t) for k, dt, s, t in payload_sources()}
        kname, dt, src, _ = srcs[(inp["kind"], inp["c03kind"])]
        var = next(v for v in src.variants if v.name == inp["variant"])
        pb = []
        check_data(r, kname, dt, src, var, inp["fields"], inp["cc"], SP[inp["sync"]], pb, pairs, bts=("D", "V", "U"))
        pairs = pb + pairs
    elif inp.get("mode") == "voice":
        check_voice(r, bitarray(inp["bits"]), inp["burst_type"], "replay", inp, pairs)
    for line, out in pairs:
        print("model line    :", line[:400])
        print("implementation:", out[:700])
        print("model         :", c03.model_says(PROP, line)[:700])
    for kind, what, exp, act in r.failures:
        print("STILL FAILS:", kind, what, "expected:", exp, "actual:", act)
    if not r.failures:
        print("the recorded input no longer fails on this tree")
    return 1 if r.failures else 0
