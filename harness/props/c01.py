"""C01 — a burst the library assembles is parsed back identically, and re-assembles (DESIGN §5 C01).

Oracle (real code):
  data   payload p built from fields (every PDU kind / variant of C03's generator), colour code cc, data sync s:
         b = Burst(DataAndControl); b.has_emb=False; b.sync…=s; b.slot_type=SlotType(cc, dt); b.data=p   (as TransmissionGenerator does)
         x = b.as_bytes(): 33 octets;  q = Burst.from_bytes(x, any burst type):  q.data_type, q.colour_code, q.sync… as given,
         every attribute of q.data equals p's (rate-coded blocks: q.data.convert(type of p), and equal bits), q.as_bytes() == x
  voice  any 216 vocoder bits around a voice sync (any burst type) / around valid EMB (cc, PI, LCSS, QR parity) with any 32 embedded
         bits (burst type vocoder / undefined):  Burst.from_bytes(x).as_bytes() == x
  near   structured inputs at minimal Hamming distance from every constant the parser compares against: for every sync pattern S and
         every valid EMB word E (all 128) the voice burst centre E[0:8] ++ X ++ E[8:16] with X = S[8:40] (the valid-EMB centre nearest to
         S), and X with 1..3 bits flipped around the EMB words nearest to S's outer bits; a wide screen of the centre lookup itself
         (SyncPatterns.resolve_bytes on every such centre with <= 2 flips, sampled 3 flips; every hit is promoted to a full voice
         burst); vocoder bits that contain a sync pattern at other offsets; vocoder bits that hold a valid slot type word at the
         slot type positions; rate 1 payloads that contain a sync pattern (raw on air)
  reuse  object-reuse histories on ONE Burst object, for every payload kind / variant: serialise, change fields of the SAME payload
         object in place (attribute by attribute, nested objects / bit arrays in place), serialise again; replace slot type (colour
         code, header <-> terminator), sync, payload (also a new object at a recycled address); parse -> mutate -> serialise;
         as_bits twice and after scribbling over the returned bits; every result equals a freshly assembled burst of the same field
         values (and the model's), parses back to the new field values; parsed / assembled bursts held across the whole run and
         re-verified at the end
  entry  provenance (after seeded change C01-F): EVERY constructor / entry point of the library that yields a Burst - Burst(...) keyword /
         positional / default burst type, from_bits, from_bytes (bytes, bytearray, memoryview, read-only numpy buffer, frozenbitarray, a bit
         array the caller scribbles over afterwards), from_mmdvm (frames parsed by the Kaitai parser: both slot bits x both call types x
         all four frame types, trailing BER / RSSI octets; hand-edited frame objects holding ints), from_hytera_ipsc (72 octets and Kaitai
         object: both timeslots x all 16 slot types x call types incl. the wakeup ones x frame / packet types; the two pseudo bursts),
         copy / deepcopy / pickle of a parsed burst, the TransmissionGenerator idiom and the library's generator functions - x all ten
         sync patterns and valid EMB (data syncs: an assembled payload, kinds rotating; the others: vocoder bits): data type, colour code,
         sync, payload fields, and parse-then-serialise reproduces the 264 bits; reuse histories parse through these entry points, too
  attrs  every public attribute a caller can set on a burst object by hand that the model's as_bits does not read (timeslot, sequence_no,
         stream_no, source / target radio id, transmission_type, hytera_ipsc, voice_burst / is_vocoder via set_is_voice, is_voice_superframe_
         start, full_bits, info bits; for data bursts the voice-side attributes and vice versa; observers: target_radio_id, repr, debug;
         the object handed to Transmission / TransmissionWatcher / HyteraIPSC) set to every value of a dictionary, one after the other on
         the same object, objects of every entry family x every sync pattern and EMB: the 33 octets never change
  ambient (after seeded change C01-E) a fixed sample of all of the above (every payload kind / variant, every reuse script, voice bursts,
         entry points of both timeslots, attribute sweeps, generators) is evaluated again (a) in this process with the root logger at
         DEBUG and a handler that formats every record, sys.stdout / sys.stderr raising or None, random / numpy.random reseeded before every
         step, numpy errstate raise / abbreviating print options, warnings as errors, in a worker thread, gc disabled, a trace function
         set, cwd /, rejected calls before every step; (b) in ONE child interpreter `python -O -bb -W error -X dev` with PYTHONOPTIMIZE=2
         (assert statements and docstrings stripped), fixed PYTHONHASHSEED, C locale, ascii stdio, another TZ, whose first library calls
         are rejected ones: every canonical observable must equal what the plain run in the parent gave
  foreign (after seeded changes C01-G, C01-H) payload content that is itself a valid object of another kind: the vocoder bits / the 32
         embedded bits / the octets of a data block are ANY bits for the property, in particular everything the library serialises for
         something else.  A dictionary harvested from the library's own serialisers - every payload kind x variant assembled into a data
         burst with generated check fields (as serialised; one FEC-correctable step away; the slot type word of every data type over the
         same payload; payload only / slot type only; complemented), code words of EVERY FEC encoder x every boolean option read from
         its signature (all 2 x 2^11 VBPTC(32,11) words of both parity rows, their 1-2 bit neighbours and cosets; the four fragments of
         VBPTC(128,72) embedded LCs; VBPTC(68,28) short LC words; BPTC, trellis, Golay, QR, Hamming x5, RS x3 masks), sync patterns, EMB and
         slot type words, numeric / bytes / hex literals of the current source - placed in the vocoder bits (aligned at the payload / slot
         type positions, every other alignment, tiled) and in the embedded bits, crossed with valid EMB of every LCSS (colour code equal
         to / different from the donor's, both PI), every voice sync, the two other syncs, every announced burst type; voice superframes
         A..F carrying an embedded LC parsed in order / reversed; the transplanted bursts through from_mmdvm / from_hytera_ipsc /
         constructor forms / copies; derived quantities (population count of embedded / vocoder bits swept, equal vocoder frames /
         halves, embedded bits a function of the vocoder bits or of the burst's own EMB word, the centre repeated in the vocoder bits);
         data blocks whose octets are a voice burst's bits, serialised PDUs, a BPTC code word that fits a rate 1 block, sync patterns
Correspondence (model vs code): burst.build -> bits; burst.parse -> sync, flags, EMB, slot type, payload fields, as_bits or error
kind, also for random and corrupted 264-bit strings; slot.dec / emb.dec; sync.resolve on the structured centres; burst.mmdvm / burst.ipsc:
Burst.from_mmdvm / Burst.from_hytera_ipsc against the model's fromMmdvm / fromIpsc (announced burst type from the frame, pseudo bursts,
undefined enum values rejected); burst.transplant: the model builds the voice burst from the donor burst and the centre itself
(Burst.transplant, the definition Props/C01 transplant_roundtrip speaks about).
"""
import copy
import enum
import json

from bitarray import bitarray
from bitarray.util import int2ba, ba2int

from common import impl_error
from props import c03

PROP = "C01"
MODULES = ["C01"]
GEN = ["Burst", "Elements", "Codes", "Bptc", "Trellis"]
MATCHERS = {}
# drift detector (auxiliary): besides the anchor files of the property, the payload codecs and the assembly code
ANCHORS = [
    "okdmr/dmrlib/etsi/layer2/pdu",
    "okdmr/dmrlib/etsi/layer2/elements",
    "okdmr/dmrlib/etsi/layer3/elements",
    "okdmr/dmrlib/transmission/transmission_generator.py",
]

MODEL_ERRORS = {"ValueError", "AssertionError", "NotImplementedError", "KeyError", "IndexError"}


def err_kind(e: BaseException) -> str:
    n = type(e).__name__
    return "ERR " + n if n in MODEL_ERRORS else "ERR other"


LAST_EXC = [None]  # the latest exception the real code raised (for messages only; never compared)


def call(fn, *a, **k):
    try:
        return fn(*a, **k), None
    except BaseException as e:  # noqa
        LAST_EXC[0] = f"{type(e).__name__}: {e}"[:200]
        return None, err_kind(e)


def lib():
    from okdmr.dmrlib.etsi.layer2.burst import Burst
    from okdmr.dmrlib.etsi.layer2.elements.burst_types import BurstTypes
    from okdmr.dmrlib.etsi.layer2.elements.data_types import DataTypes
    from okdmr.dmrlib.etsi.layer2.elements.sync_patterns import SyncPatterns
    from okdmr.dmrlib.etsi.layer2.pdu.slot_type import SlotType
    from okdmr.dmrlib.etsi.layer2.pdu.embedded_signalling import EmbeddedSignalling

    return Burst, BurstTypes, DataTypes, SyncPatterns, SlotType, EmbeddedSignalling


def sync_sets():
    Burst, BT, DT, SP, ST, EMB = lib()
    voice = [SP.BsSourcedVoice, SP.MsSourcedVoice, SP.Tdma1Voice, SP.Tdma2Voice]
    data = [SP.BsSourcedData, SP.MsSourcedData, SP.Tdma1Data, SP.Tdma2Data]
    other = [m for m in SP if m.value >= 0 and m not in voice and m not in data]
    return voice, data, other


# ------------------------------------------------------------------------------------------------
# payload kinds: (driver kind name, data type, c03 kind, variant filter, field text)
_SOURCES = []


def payload_sources():
    """(driver kind name, data type, c03 kind, rate variant name) of every supported payload kind; built once (the kinds are stateless
    descriptions: field specs and constructors)"""
    if not _SOURCES:
        _SOURCES.extend(_payload_sources())
    return list(_SOURCES)


def _payload_sources():
    Burst, BT, DT, SP, ST, EMB = lib()
    ks = {k.name: k for k in c03.kinds()}
    out = []
    out.append(("csbk", DT.CSBK, ks["csbk"], None))
    out.append(("dh", DT.DataHeader, ks["dh"], None))
    out.append(("vlc", DT.VoiceLCHeader, ks["flc"], None))
    out.append(("tlc", DT.TerminatorWithLC, ks["flc"], None))
    out.append(("pi", DT.PIHeader, ks["pi"], None))
    for cname, dt in (("12", DT.Rate12Data), ("34", DT.Rate34Data), ("1", DT.Rate1Data)):
        for t in c03.RATE_TYPES:
            out.append((f"rate{cname}", dt, ks[f"rate{cname}.{t}"], t))
    return out


def payload_text(kind, p):
    """the text the driver prints for Burst.data (kind|fields with '|' for blanks)"""
    from okdmr.dmrlib.etsi.layer2.pdu.csbk import CSBK
    from okdmr.dmrlib.etsi.layer2.pdu.data_header import DataHeader
    from okdmr.dmrlib.etsi.layer2.pdu.full_link_control import FullLinkControl
    from okdmr.dmrlib.etsi.layer2.pdu.pi_header import PIHeader
    from okdmr.dmrlib.etsi.layer2.pdu.rate12_data import Rate12Data
    from okdmr.dmrlib.etsi.layer2.pdu.rate34_data import Rate34Data
    from okdmr.dmrlib.etsi.layer2.pdu.rate1_data import Rate1Data

    ks = payload_text.kinds
    if isinstance(p, CSBK):
        return "csbk|" + ks["csbk"].fmt(p).replace(" ", "|")
    if isinstance(p, DataHeader):
        return "dh|" + ks["dh"].fmt(p).replace(" ", "|")
    if isinstance(p, FullLinkControl):
        return kind + "|" + ks["flc"].fmt(p).replace(" ", "|")
    if isinstance(p, PIHeader):
        return "pi|" + ks["pi"].fmt(p).replace(" ", "|")
    for cls, n in ((Rate12Data, "rate12"), (Rate34Data, "rate34"), (Rate1Data, "rate1")):
        if isinstance(p, cls):
            return f"{n}|{c03.shex(p.data)}|{p.dbsn}|{p.crc9}|{p.crc32}"
    return "?" + type(p).__name__


payload_text.kinds = None


def build_line(cc, sync, kname, src_kind, variant, vals, p):
    if kname.startswith("rate"):
        t = variant.name
        return f"burst.build {cc} {sync.value} {kname} {t} {vals['data'] or '-'} {vals.get('dbsn', 0)} {vals.get('crc9', 0)} {vals.get('crc32', 0)}"
    return f"burst.build {cc} {sync.value} {kname} {src_kind.fmt(p, vals.get('crc'))}"


def assemble(p, cc, dt, sync):
    """exactly what TransmissionGenerator does"""
    Burst, BT, DT, SP, ST, EMB = lib()
    b = Burst(burst_type=BT.DataAndControl)
    b.has_emb = False
    b.sync_or_embedded_signalling = sync
    b.slot_type = ST(colour_code=cc, data_type=dt)
    b.data = p
    return b


def parse_text(q, dt_kind=None):
    """canonical text of a parsed burst (same as the driver's burst.parse)"""
    Burst, BT, DT, SP, ST, EMB = lib()
    s = q.sync_or_embedded_signalling
    sync = str(s.value) if s.value >= 0 else "EMB"
    flags = "".join(c03.b01(x) for x in (q.is_voice_superframe_start, q.is_vocoder, q.is_data_or_control, q.has_emb))
    emb = "-" if q.emb is None else f"{q.emb.colour_code},{q.emb.preemption_and_power_control_indicator.value},{q.emb.link_control_start_stop.value},{q.emb.emb_parity}"
    slot = "-" if q.slot_type is None else f"{q.slot_type.colour_code},{q.slot_type.data_type.value},{q.slot_type.fec_parity}"
    if q.data is None:
        pl = "-"
    else:
        kind = {DT.VoiceLCHeader: "vlc", DT.TerminatorWithLC: "tlc"}.get(q.data_type, "")
        pl = payload_text(kind, q.data)
    bits, err = call(q.as_bits)
    return f"ok {sync} {flags} {emb} {slot} {pl} {err or c03.sbits(bits)}"


BT_NAMES = {"U": "Undefined", "V": "Vocoder", "D": "DataAndControl"}


def impl_parse(bits, bt):
    Burst, BT, DT, SP, ST, EMB = lib()
    q, err = call(Burst.from_bits, bitarray(bits), getattr(BT, BT_NAMES[bt]))
    if err:
        return None, err
    return q, parse_text(q)


# ------------------------------------------------------------------------------------------------
def check_data(ctx, kname, dt, src, variant, vals, cc, sync, pairs_build, pairs_parse, bts=("D",), hold=None, extra=None):
    Burst, BT, DT, SP, ST, EMB = lib()
    inp = {"mode": "data", "kind": kname, "c03kind": src.name, "variant": variant.name, "fields": vals, "cc": cc, "sync": sync.name}
    if extra:
        inp.update(extra)
    p, err = call(variant.build, vals)
    if err:
        ctx.fail("payload-constructor-raises", inp, f"{kname}/{variant.name}: building the payload raised {err}", actual=err)
        return
    b, err = call(assemble, p, cc, dt, sync)
    if err:
        ctx.fail("assemble-raises", inp, f"{kname}: assembling the burst raised {err}", actual=err)
        return
    x, err = call(b.as_bits)
    if err:
        ctx.fail("serialise-raises", inp, f"{kname}/{variant.name}: as_bits of the assembled burst raised {err}", actual=err)
        pairs_build.append((build_line(cc, sync, kname, src, variant, vals, p), err))
        return
    pairs_build.append((build_line(cc, sync, kname, src, variant, vals, p), c03.sbits(x)))
    q = verify_roundtrip(ctx, inp, kname, variant.name, p, dt, cc, sync, b, pairs_parse, bts)
    if hold is not None:
        hold.offer(b, b.as_bytes, None, inp)
        if q is not None:
            hold.offer(q, b.as_bytes, lambda: parse_text(q), inp)


def verify_roundtrip(ctx, inp, kname, vname, p, dt, cc, sync, b, pairs_parse, bts=("D",)):
    """the property for one burst object b that is to be serialised from payload p, colour code cc, data type dt, sync:
    264 bits / 33 octets; parsed back (every announced burst type of bts): data type, colour code, sync, every payload
    attribute as p's, re-serialised identically.  Returns the last parsed burst."""
    Burst, BT, DT, SP, ST, EMB = lib()
    x, err = call(b.as_bits)
    if err:
        ctx.fail("serialise-raises", inp, f"{kname}/{vname}: as_bits raised {err}", actual=err)
        return None
    xs = c03.sbits(x)
    if len(x) != 264 or len(b.as_bytes()) != 33:
        ctx.fail("wrong-length", inp, f"{kname}: assembled burst has {len(x)} bits", expected=264, actual=len(x))
        return None
    q = None
    for bt in bts:
        q, err = call(Burst.from_bytes, b.as_bytes(), getattr(BT, BT_NAMES[bt]))
        if err:
            ctx.fail("parse-raises", inp, f"{kname}/{vname}: parsing the assembled burst ({bt}) raised {err}", actual=err)
            pairs_parse.append((f"burst.parse {bt} {xs}", err))
            continue
        pairs_parse.append((f"burst.parse {bt} {xs}", parse_text(q)))
        check_parsed(ctx, inp, kname, vname, p, dt, cc, sync, q, b.as_bytes())
    return q


def check_parsed(ctx, inp, kname, vname, p, dt, cc, sync, q, want_bytes, how="parsed"):
    """the property for one burst object q that some entry point of the library produced from the 33 octets want_bytes, which were
    serialised from payload p, colour code cc, data type dt, sync: data type, colour code, sync, every payload attribute as p's,
    re-serialised identically"""
    pa = c03.attrs(p)
    if q.data_type != dt:
        ctx.fail("data-type", inp, f"{kname}: {how} data type {q.data_type} != {dt}", expected=dt.value, actual=q.data_type.value)
    qcc, e2 = call(lambda: q.colour_code)
    if e2 or qcc != cc:
        ctx.fail("colour-code", inp, f"{kname}: {how} colour code {e2 or qcc} != {cc}", expected=cc, actual=e2 or qcc)
    if q.sync_or_embedded_signalling != sync:
        ctx.fail("sync", inp, f"{kname}: {how} sync {q.sync_or_embedded_signalling.name} != {sync.name}", expected=sync.name, actual=q.sync_or_embedded_signalling.name)
    if q.data is None:
        ctx.fail("payload-missing", inp, f"{kname}: {how} burst has no payload")
    else:
        qd = q.data
        if kname.startswith("rate"):
            if qd.as_bits() != p.as_bits():
                ctx.fail("payload-bits", inp, f"{kname}/{vname}: {how} block bits differ", expected=c03.sbits(p.as_bits()), actual=c03.sbits(qd.as_bits()))
            qd, e3 = call(qd.convert, p.packet_type)
            if e3:
                ctx.fail("payload-fields", inp, f"{kname}/{vname}: convert({p.packet_type.name}) raised {e3}", actual=e3)
                qd = None
        if qd is not None:
            d = c03.diff_attrs(pa, c03.attrs(qd))
            if d:
                qa = c03.attrs(qd)
                ctx.fail("payload-fields", inp, f"{kname}/{vname}: {how} payload differs from the one the burst was serialised from in {d}",
                         expected={k: pa.get(k) for k in d}, actual={k: qa.get(k) for k in d})
    y, e4 = call(q.as_bytes)
    if e4 or y != want_bytes:
        ctx.fail("reserialise", inp, f"{kname}/{vname}: re-serialised burst differs from the assembled one",
                 expected=want_bytes.hex(), actual=e4 or y.hex())
        return False
    return True


def check_voice(ctx, x, bt, what, inp, pairs_parse, hold=None, twice=False):
    Burst, BT, DT, SP, ST, EMB = lib()
    xs = c03.sbits(x)
    q, err = call(Burst.from_bytes, x.tobytes(), getattr(BT, BT_NAMES[bt]))
    if err:
        ctx.fail("parse-raises", inp, f"voice burst ({what}, {bt}): parsing raised {err}", actual=err)
        pairs_parse.append((f"burst.parse {bt} {xs}", err))
        return
    pairs_parse.append((f"burst.parse {bt} {xs}", parse_text(q)))
    y, err = call(q.as_bytes)
    if err or y != x.tobytes():
        ctx.fail("voice-roundtrip", inp, f"voice burst ({what}, {bt}) does not survive parse-then-serialise", expected=x.tobytes().hex(), actual=err or y.hex())
        return
    if twice:
        serialise_twice(ctx, q, inp, f"voice burst ({what}, {bt})")
    if hold is not None:
        hold.offer(q, y, lambda: parse_text(q), inp)


def serialise_twice(ctx, b, inp, what):
    """as_bits is repeatable and hands out bits the caller may scribble over"""
    x1, e1 = call(b.as_bits)
    x2, e2 = call(b.as_bits)
    if e1 or e2 or x1 != x2:
        ctx.fail("reuse-serialise-twice", inp, f"{what}: two consecutive as_bits() calls differ", expected=e1 or c03.sbits(x1), actual=e2 or c03.sbits(x2))
        return
    want = bitarray(x1)
    x1.invert()
    x2[:] = 0
    x3, e3 = call(b.as_bits)
    if e3 or x3 != want:
        ctx.fail("reuse-returned-bits-aliased", inp, f"{what}: as_bits() after the caller changed the previously returned bits differs",
                 expected=c03.sbits(want), actual=e3 or c03.sbits(x3))
        return
    y, e4 = call(b.as_bytes)
    if e4 or y != want.tobytes():
        ctx.fail("reuse-serialise-twice", inp, f"{what}: as_bytes() differs from as_bits()", expected=want.tobytes().hex(), actual=e4 or y.hex())


def voice_emb_reuse(ctx, x, bt, emb2, inp):
    """a voice burst with EMB is parsed; the EMB object the parse returned is changed in place to another valid EMB word; the object
    serialises with the new word, and a second parse of the original octets is not affected"""
    Burst, BT, DT, SP, ST, EMB = lib()
    q, err = call(Burst.from_bytes, x.tobytes(), getattr(BT, BT_NAMES[bt]))
    if err or q.emb is None:
        return  # reported by the plain round trip
    cc2, pi2, lcss2, e16 = emb2
    copy_state(q.emb, EMB(colour_code=cc2, preemption_and_power_control_indicator=pi2, link_control_start_stop=lcss2), True)
    want = bitarray(x)
    want[108:116], want[148:156] = e16[:8], e16[8:]
    got = bits_or_err(q)
    if got != c03.sbits(want):
        ctx.fail("reuse-stale-serialisation", dict(inp, emb2=[cc2, pi2, lcss2], history=f"EMB object changed in place to cc={cc2} pi={pi2} lcss={lcss2}"),
                 "voice burst: after changing the parsed EMB object in place the burst does not serialise with the new EMB word", expected=c03.sbits(want), actual=got)
    q1, err = call(Burst.from_bytes, x.tobytes(), getattr(BT, BT_NAMES[bt]))
    got = err or bits_or_err(q1)
    if got != c03.sbits(x):
        ctx.fail("reuse-parse-results-share-state", dict(inp, emb2=[cc2, pi2, lcss2], history=f"EMB object of an earlier parse changed in place to cc={cc2} pi={pi2} lcss={lcss2}"),
                 "voice burst: parsing the same octets again after the EMB object of the first parse result was changed gives a different burst", expected=c03.sbits(x), actual=got)


def shifted_sync_frames(rng, shifts, per):
    """voice bursts with valid EMB in which a sync pattern P sits k bits off the centre: every bit of the window [108+k, 156+k) that is
    not an EMB bit (vocoder and embedded bits) equals P; for each (P, k) the `per` EMB words that agree best with P on the EMB bits the
    window covers.  Yields (P, k, (cc, pi, lcss), mismatching bits, frame)"""
    voice, data, other = sync_sets()
    embs = emb_table()
    emb_pos = list(range(108, 116)) + list(range(148, 156))
    for sp_ in voice + data + other:
        pb = sp_.as_bits()
        for k in shifts:
            lo = 108 + k
            cover = [(i, pos) for i, pos in enumerate(emb_pos) if lo <= pos < lo + 48]
            ranked = sorted(embs, key=lambda e: (sum(e[3][i] != pb[pos - lo] for i, pos in cover), e[0], e[1], e[2]))
            for cc, pi, lcss, e16 in ranked[:per]:
                x = int2ba(rng.getrandbits(264), length=264)
                x[lo:lo + 48] = pb
                x[108:116], x[148:156] = e16[:8], e16[8:]
                yield sp_, k, (cc, pi, lcss), sum(e16[i] != pb[pos - lo] for i, pos in cover), x


class Hold:
    """parsed / assembled burst objects kept alive while the run goes on parsing and assembling other bursts; re-verified at the end
    (a result object that shares mutable state with later calls changes under our feet)"""

    def __init__(self, every, cap):
        self.every, self.cap, self.n, self.items = max(1, every), cap, 0, []

    def offer(self, obj, want_bytes, want_text, inp):
        """want_bytes / want_text may be thunks (evaluated only for the objects that are kept)"""
        self.n += 1
        if self.n % self.every == 0 and len(self.items) < self.cap:
            self.items.append((obj, want_bytes() if callable(want_bytes) else want_bytes, want_text() if callable(want_text) else want_text, inp))

    def verify(self, ctx):
        for obj, want_bytes, want_text, inp in self.items:
            ctx.count("reuse:held-object-reverified")
            y, err = call(obj.as_bytes)
            if err or y != want_bytes:
                ctx.fail("reuse-held-object-changed", dict(inp, history="held across the run"), "a burst object held while other bursts were parsed / assembled serialises differently afterwards",
                         expected=want_bytes.hex(), actual=err or y.hex())
                continue
            if want_text is not None:
                t, err = call(parse_text, obj)
                if err or t != want_text:
                    ctx.fail("reuse-held-object-changed", dict(inp, history="held across the run"), "the attributes of a parsed burst object held while other bursts were parsed changed",
                             expected=want_text, actual=err or t)


def emb_word(cc, pi, lcss):
    Burst, BT, DT, SP, ST, EMB = lib()
    return EMB(colour_code=cc, preemption_and_power_control_indicator=pi, link_control_start_stop=lcss).as_bits()


def voice_frame(v, center):
    return v[:108] + center + v[108:]


def hd(a, b):
    return (a ^ b).count()


def emb_table():
    """all 128 valid EMB words (cc, pi, lcss, 16 bits with the QR parity the library generates)"""
    return [(cc, pi, lcss, emb_word(cc, pi, lcss)) for cc in range(16) for pi in range(2) for lcss in range(4)]


def flipped(x, positions):
    y = bitarray(x)
    for i in positions:
        y.invert(i)
    return y


def near_sync_centres(rng, n_multi, n_far=0):
    """structured centres: for every sync pattern S and every valid EMB word E the centre E[0:8] ++ X ++ E[8:16] with the 32 embedded
    bits X as close to S[8:40] as possible: X = S[8:40] for all E; for the EMB words nearest to S's outer bits (minimal distance, +1,
    at least 4 words) also every single-bit neighbour of S[8:40] and n_multi random 2- and 3-bit neighbours.
    Yields (S, (cc, pi, lcss), distance of E to S's outer bits, number of flipped embedded bits, centre)"""
    voice, data, other = sync_sets()
    embs = emb_table()
    for s in voice + data + other:
        sb = s.as_bits()
        outer, mid = sb[:8] + sb[40:], sb[8:40]
        ranked = sorted(embs, key=lambda e: (hd(e[3], outer), e[0], e[1], e[2]))
        dmin = hd(ranked[0][3], outer)
        for rank, (cc, pi, lcss, e16) in enumerate(ranked):
            d = hd(e16, outer)
            yield s, (cc, pi, lcss), d, 0, e16[:8] + mid + e16[8:]
            if d <= dmin + 1 or rank < 4:
                for i in range(32):
                    yield s, (cc, pi, lcss), d, 1, e16[:8] + flipped(mid, [i]) + e16[8:]
                for k in range(n_multi):
                    yield s, (cc, pi, lcss), d, 2 + k % 2, e16[:8] + flipped(mid, rng.sample(range(32), 2 + k % 2)) + e16[8:]
            else:
                for k in range(n_far):
                    yield s, (cc, pi, lcss), d, 1 + k % 3, e16[:8] + flipped(mid, rng.sample(range(32), 1 + k % 3)) + e16[8:]


def resolve_screen_centres(rng, n_triple):
    """the wide screen of the centre lookup: every sync S x every valid EMB E: X = S[8:40] and its 32 single-bit neighbours; for the 8
    EMB words nearest to S's outer bits all 496 two-bit neighbours; for the 2 nearest n_triple random three-bit neighbours"""
    voice, data, other = sync_sets()
    embs = emb_table()
    for s in voice + data + other:
        sb = s.as_bits()
        outer, mid = sb[:8] + sb[40:], sb[8:40]
        ranked = sorted(embs, key=lambda e: (hd(e[3], outer), e[0], e[1], e[2]))
        for rank, (cc, pi, lcss, e16) in enumerate(ranked):
            head, tail = ba2int(e16[:8]) << 40, ba2int(e16[8:])
            m = ba2int(mid)
            yield s, (cc, pi, lcss), head | (m << 8) | tail
            for i in range(32):
                yield s, (cc, pi, lcss), head | ((m ^ (1 << i)) << 8) | tail
            if rank < 8:
                for i in range(32):
                    for j in range(i):
                        yield s, (cc, pi, lcss), head | ((m ^ (1 << i) ^ (1 << j)) << 8) | tail
            if rank < 2:
                for _ in range(n_triple):
                    i, j, k = rng.sample(range(32), 3)
                    yield s, (cc, pi, lcss), head | ((m ^ (1 << i) ^ (1 << j) ^ (1 << k)) << 8) | tail


# ------------------------------------------------------------------------------------------------
# object-reuse histories
def copy_state(dst, src, nested, only=None):
    """give the object dst the field values of src by assigning attributes of dst itself (dst is never replaced); nested: objects and
    bit arrays held in attributes are changed in place, too.  only: restrict to these attribute names.  Returns the names changed."""
    changed = []
    for k, v in vars(src).items():
        if only is not None and k not in only:
            continue
        cur = getattr(dst, k, None)
        if type(cur) is type(v) and c03.canon(cur) == c03.canon(v):
            continue
        changed.append(k)
        if nested and hasattr(v, "__dict__") and not isinstance(v, enum.Enum) and type(cur) is type(v):
            copy_state(cur, v, nested)
        elif nested and isinstance(v, bitarray) and isinstance(cur, bitarray) and len(cur) == len(v):
            cur[:] = v
        else:
            setattr(dst, k, copy.deepcopy(v))
    return changed


def differing(a, b):
    return [k for k, v in vars(b).items() if not (type(getattr(a, k, None)) is type(v) and c03.canon(getattr(a, k, None)) == c03.canon(v))]


def bits_or_err(b):
    x, err = call(b.as_bits)
    return err or c03.sbits(x)


HISTORY_SCRIPTS = ("mutate-fields", "mutate-nested", "replace-slot-sync", "replace-payload", "recycled-payload", "parse-mutate", "parse-serialise-mutate",
                   "parse-mutate-slot-in-place", "twice", "parse-relay-payload")


def other_kind(kname, dt):
    """a second data type the same payload object may legitimately be sent with (full LC: header <-> terminator)"""
    Burst, BT, DT, SP, ST, EMB = lib()
    if kname == "vlc":
        return "tlc", DT.TerminatorWithLC
    if kname == "tlc":
        return "vlc", DT.VoiceLCHeader
    return kname, dt


def run_history(ctx, spec, pairs_build, pairs_parse):
    """one history on ONE Burst object (spec is JSON-able, see replay).  After every step the object must serialise exactly as a burst
    freshly assembled from (a deep copy of) the current payload, colour code, data type and sync, and - at the end - as the burst
    assembled from a payload newly constructed from the final field values; that burst must parse back to these values."""
    Burst, BT, DT, SP, ST, EMB = lib()
    srcs = {(k, s.name): (k, dt, s, t) for k, dt, s, t in payload_sources()}
    kname, dt, src, _ = srcs[(spec["kind"], spec["c03kind"])]
    var = next(v for v in src.variants if v.name == spec["variant"])
    vals1, vals2 = spec["fields"], spec["fields2"]
    cc1, cc2, s1, s2 = spec["cc"], spec["cc2"], SP[spec["sync"]], SP[spec["sync2"]]
    script = spec["script"]
    what = f"reuse history {script} ({kname}/{var.name})"
    p, err = call(var.build, vals1)
    p2, err2 = call(var.build, vals2)
    if err or err2:
        ctx.fail("payload-constructor-raises", spec, f"{what}: building the payload raised {err or err2}", actual=err or err2)
        return
    b, err = call(assemble, p, cc1, dt, s1)
    if err:
        ctx.fail("assemble-raises", spec, f"{what}: assembling the burst raised {err}", actual=err)
        return

    def same_as_fresh(obj, payload, cc, d, sync, step):
        """obj (re-used) against a burst assembled from scratch with a deep copy of the payload as it is now"""
        got = bits_or_err(obj)
        fresh, err = call(assemble, copy.deepcopy(payload), cc, d, sync)
        want = err or bits_or_err(fresh)
        if got != want:
            ctx.fail("reuse-stale-serialisation", dict(spec, step=step),
                     f"{what}, step '{step}': the re-used burst object does not serialise as a freshly assembled burst of the same field values",
                     expected=want, actual=got)
            return False
        return True

    def final(obj, kn, d, cc, sync, vals, payload_new):
        """at the end: model line for the final values (output of the RE-USED object) and the property on it"""
        got = bits_or_err(obj)
        pairs_build.append((build_line(cc, sync, kn, src, var, vals, payload_new), got))
        if not got.startswith("ERR"):
            verify_roundtrip(ctx, dict(spec, step="final"), kn, var.name, payload_new, d, cc, sync, obj, pairs_parse, bts=("D",))

    first = bits_or_err(b)
    if first.startswith("ERR"):
        ctx.fail("serialise-raises", spec, f"{what}: as_bits of the assembled burst raised {first}", actual=first)
        return

    def parse_first():
        """the burst parsed from the assembled octets - by Burst.from_bytes or by the entry point the history names"""
        if spec.get("entry"):
            return call(enter, spec["entry"], bitarray(first))
        return call(Burst.from_bytes, b.as_bytes(), BT.DataAndControl)

    def reparse_unchanged(raw, want, why):
        """a second parse of the same octets is independent of what was done to the first parse result"""
        q1, err = call(Burst.from_bytes, raw, BT.DataAndControl)
        got = err or bits_or_err(q1)
        if got != want:
            ctx.fail("reuse-parse-results-share-state", dict(spec, step="second parse of the same octets"),
                     f"{what}: parsing the same 33 octets again after {why} gives a burst that serialises differently", expected=want, actual=got)
        elif not err:
            cc_, e = call(lambda: q1.colour_code)
            if e or cc_ != cc1:
                ctx.fail("reuse-parse-results-share-state", dict(spec, step="second parse of the same octets"),
                         f"{what}: parsing the same 33 octets again after {why} gives colour code {e or cc_}", expected=cc1, actual=e or cc_)

    if script in ("mutate-fields", "mutate-nested"):
        names = differing(p, p2)
        ok = True
        for i, k in enumerate(names):
            copy_state(p, p2, script == "mutate-nested", only=[k])
            if ok and (i == 0 or i == len(names) - 1 or script == "mutate-nested"):
                ok = same_as_fresh(b, p, cc1, dt, s1, f"after changing payload attribute {k} in place")
        final(b, kname, dt, cc1, s1, vals2, p2)
    elif script == "replace-slot-sync":
        k2, dt2 = other_kind(kname, dt)
        b.slot_type = ST(colour_code=cc2, data_type=dt2)
        ok = same_as_fresh(b, p, cc2, dt2, s1, "after replacing the slot type")
        b.sync_or_embedded_signalling = s2
        ok = ok and same_as_fresh(b, p, cc2, dt2, s2, "after replacing the sync pattern")
        final(b, k2, dt2, cc2, s2, vals1, p)
    elif script == "replace-payload":
        b.data = p2
        same_as_fresh(b, p2, cc1, dt, s1, "after assigning another payload object")
        b.data = p
        same_as_fresh(b, p, cc1, dt, s1, "after assigning the first payload object again")
        copy_state(p, p2, False)
        final(b, kname, dt, cc1, s1, vals2, p2)
    elif script == "recycled-payload":
        # no reference to the old payload survives: the new object may live at the same address
        del p
        for vals in (vals2, vals1, vals2):
            b.data = None
            b.data = var.build(vals)
            same_as_fresh(b, b.data, cc1, dt, s1, "after assigning a newly built payload (old one released)")
        final(b, kname, dt, cc1, s1, vals2, p2)
    elif script in ("parse-mutate", "parse-serialise-mutate"):
        want2, err = call(assemble, p2, cc2, dt, s2)
        want2 = err or bits_or_err(want2)
        if want2.startswith("ERR"):
            return
        q, err = parse_first()
        q2, err2 = call(Burst.from_bytes, bitarray(want2).tobytes(), BT.DataAndControl)
        if err or err2 or q.data is None or q2.data is None:
            return  # reported by the plain round trip
        if script == "parse-serialise-mutate":
            if bits_or_err(q) != first:
                return  # reported by the plain round trip
        copy_state(q.data, q2.data, True)
        q.slot_type = ST(colour_code=cc2, data_type=dt)
        q.sync_or_embedded_signalling = s2
        got = bits_or_err(q)
        if got != want2:
            ctx.fail("reuse-stale-serialisation", dict(spec, step="parsed burst changed"),
                     f"{what}: a parsed burst whose payload fields, slot type and sync were changed does not serialise as the burst assembled from these values",
                     expected=want2, actual=got)
        reparse_unchanged(b.as_bytes(), first, "the payload of an earlier parse result was changed")
        final(q, kname, dt, cc2, s2, vals2, p2)
    elif script == "parse-mutate-slot-in-place":
        # the slot type object a parse returned is changed in place (to the values SlotType(cc2, dt) holds)
        q, err = parse_first()
        if err or q.slot_type is None:
            return  # reported by the plain round trip
        copy_state(q.slot_type, ST(colour_code=cc2, data_type=dt), True)
        same_as_fresh(q, p, cc2, dt, s1, "after changing the parsed burst's slot type object in place")
        reparse_unchanged(b.as_bytes(), first, "the slot type object of an earlier parse result was changed")
        final(q, kname, dt, cc2, s1, vals1, p)
    elif script == "parse-relay-payload":
        # the payload object a parse returned (whatever entry point parsed it) is assembled into a NEW burst with another colour code and
        # sync - and, once more, into the burst object it came from
        q, err = parse_first()
        if err or q.data is None:
            return  # reported by the plain round trip
        b2, err = call(assemble, q.data, cc2, dt, s2)
        if err:
            ctx.fail("assemble-raises", spec, f"{what}: assembling a burst from a parsed payload raised {err}", actual=err)
            return
        same_as_fresh(b2, p, cc2, dt, s2, "the parsed payload object assembled into a new burst")
        q.slot_type = ST(colour_code=cc2, data_type=dt)
        q.sync_or_embedded_signalling = s2
        same_as_fresh(q, p, cc2, dt, s2, "after replacing slot type and sync of the parsed burst")
        reparse_unchanged(b.as_bytes(), first, "the payload of an earlier parse result was sent again")
        final(b2, kname, dt, cc2, s2, vals1, p)
    elif script == "twice":
        serialise_twice(ctx, b, spec, what + ", assembled burst")
        q, err = call(Burst.from_bytes, b.as_bytes(), BT.DataAndControl)
        if not err:
            serialise_twice(ctx, q, spec, what + ", parsed burst")
            rp, err = call(repr, q)  # __repr__ serialises, too
            if bits_or_err(q) != first:
                ctx.fail("reuse-stale-serialisation", dict(spec, step="after repr"), f"{what}: as_bits() after repr() differs", expected=first, actual=bits_or_err(q))
        final(b, kname, dt, cc1, s1, vals1, p)


def vary(rng, var, vals, fix):
    """vals with one or two fields changed (never equal to vals), CRC left to the constructor half of the time"""
    for _ in range(8):
        v2 = dict(vals)
        names = [n for n, _s in var.fields if n not in ("crc", "flco")]
        for fname in rng.sample(names, min(len(names), rng.choice((1, 1, 2)))):
            spec = dict(var.fields)[fname]
            v2[fname] = rng.choice(spec.specials(rng)) if rng.random() < 0.3 else spec.rand(rng)
        if var.fix:
            v2 = var.fix(v2)
        v2 = fix(v2)
        if v2 != vals:
            return v2
    return v2


# ------------------------------------------------------------------------------------------------
# provenance (hardening after seeded change C01-F): every constructor / entry point of the library that yields a Burst object, and
# the attributes of a Burst object a caller (or another code path of the library) sets after it was made
IPSC_SLOT_VALUES = [0x0000, 0x1111, 0x2222, 0x3333, 0x4444, 0x5555, 0x6666, 0x7777, 0x8888, 0x9999, 0xAAAA, 0xBBBB, 0xCCCC, 0xDDDD, 0xEEEE, 0xFFFF]
IPSC_VOCODER = {0x0000, 0x1111, 0x7777, 0x8888, 0x9999, 0xAAAA, 0xBBBB, 0xCCCC}  # hytera SlotType.is_vocoder, as read from the source
IPSC_CALLS = [0x00, 0x01, 0x02, 0x0C]
IPSC_FRAMES = [0x0000, 0x1111, 0x3333, 0x6666, 0xBBBB, 0xEEEE]
IPSC_PACKETS = [65, 66, 67, 1]


def mmdvm_frame(x33, e):
    """a Homebrew / MMDVM `DMRD` datagram around the 33 burst octets (layout: okdmr.kaitai.homebrew.mmdvm2020 TypeDmrData)"""
    flags = (e["slot"] << 7) | (e["call"] << 6) | (e["ftype"] << 4) | e["dtype"]
    return (b"DMRD" + bytes([e["seq"]]) + e["src"].to_bytes(3, "big") + e["dst"].to_bytes(3, "big") + e["rptr"].to_bytes(4, "big")
            + bytes([flags]) + e["stream"].to_bytes(4, "big") + x33 + bytes.fromhex(e.get("tail", "")))


def ipsc_frame(x33, e):
    """a Hytera IP site connect datagram around the 33 burst octets (layout: HyteraIPSC.from_ipsc_bytes; payload octets swapped pairwise)"""
    pl = x33 + bytes([e["pad"]])
    swapped = bytes(pl[i ^ 1] for i in range(34))
    return (b"\x5a\x5a\x5a\x5a" + bytes([e["seq"]]) + bytes(3) + bytes([e["ptype"]]) + bytes.fromhex("00050101000000")
            + e["ts"].to_bytes(2, "little") + e["slot"].to_bytes(2, "little") + (e["cc"] * 0x1111).to_bytes(2, "little")
            + e["ftype"].to_bytes(2, "little") + b"\x40\x00" + swapped + b"\xe2\x08" + bytes([e["call"]])
            + (e["dst"] << 8).to_bytes(4, "little") + (e["src"] << 8).to_bytes(4, "little") + b"\x00")


def enter(e, x):
    """the Burst object the entry point described by e yields for the 264 bits x"""
    Burst, BT, DT, SP, ST, EMB = lib()
    via = e["via"]
    bt = getattr(BT, BT_NAMES[e["bt"]]) if e.get("bt") else None
    xb = x.tobytes()
    q = None
    if via == "from_bytes":
        arg = e.get("arg", "bytes")
        if arg == "bytes":
            a = xb
        elif arg == "bytearray":
            a = bytearray(xb)
        elif arg == "memoryview":
            a = memoryview(xb)
        else:  # a read-only numpy buffer
            import numpy

            a = numpy.frombuffer(xb, dtype=numpy.uint8)
        q = Burst.from_bytes(a) if bt is None else Burst.from_bytes(a, bt) if e.get("pos") else Burst.from_bytes(data=a, burst_type=bt)
    elif via == "from_bits":
        from bitarray import frozenbitarray

        a = frozenbitarray(x) if e.get("arg") == "frozen" else bitarray(x)
        q = Burst.from_bits(a, bt)
        if e.get("arg") == "scribbled":  # the caller re-uses its buffer after the parse
            a.invert()
            a[108:156] = 0
    elif via == "ctor":
        a = bitarray(x)
        q = Burst(full_bits=a) if bt is None else Burst(a, bt) if e.get("pos") else Burst(full_bits=a, burst_type=bt)
    elif via == "from_mmdvm":
        from okdmr.kaitai.homebrew.mmdvm2020 import Mmdvm2020

        m = Mmdvm2020.from_bytes(mmdvm_frame(xb, e)).command_data
        if e.get("edit") == "ints":  # a hand-edited frame object: plain ints where the Kaitai parser leaves enum members
            m.frame_type, m.slot_no, m.call_type = e["ftype"], e["slot"], e["call"]
        q = Burst.from_mmdvm(m)
    elif via == "from_hytera_ipsc":
        f = ipsc_frame(xb, e)
        if e["how"] == "bytes":
            q = Burst.from_hytera_ipsc(f)
        else:
            from okdmr.kaitai.hytera.ip_site_connect_protocol import IpSiteConnectProtocol

            q = Burst.from_hytera_ipsc(IpSiteConnectProtocol.from_bytes(f))
    elif via in ("copy", "deepcopy", "pickle"):
        import pickle

        q0 = Burst.from_bits(bitarray(x), bt)
        q = copy.copy(q0) if via == "copy" else copy.deepcopy(q0) if via == "deepcopy" else pickle.loads(pickle.dumps(q0))
        if via != "copy":
            # the original is used (and changed) afterwards
            q0.sync_or_embedded_signalling = SP.Reserved
            q0.voice_bits = q0.voice_bits[:0]
            q0.timeslot = 2
    else:
        raise KeyError(via)
    return q


def announced(e):
    """the burst type the entry point announces to Burst.__init__ (as read from the source; the model decides the same from the
    extracted tables: driver ops burst.mmdvm / burst.ipsc); 'sync' / 'wakeup': the two Hytera pseudo bursts (as_bits = the bits given)"""
    via = e["via"]
    if via == "from_bytes":
        return e.get("bt") or "D"
    if via == "ctor":
        return e.get("bt") or "U"
    if via == "from_mmdvm":
        # `mmdvm.frame_type == 2` is never true for the enum member the Kaitai parser stores
        return "D" if e.get("edit") == "ints" and e["ftype"] == 2 else "V"
    if via == "from_hytera_ipsc":
        if e["slot"] == 0xEEEE:
            return "sync"
        if e["slot"] == 0xDDDD or e["call"] in (0x02, 0x0C):
            return "wakeup"
        return "V" if e["slot"] in IPSC_VOCODER else "D"
    return e["bt"]


def entry_line(e, xs):
    """the model's line for this entry point"""
    via = e["via"]
    if via == "from_mmdvm":
        k = "I" if e.get("edit") == "ints" else "E"
        return f"burst.mmdvm {k}{e['ftype']} {k}{e['slot']} {xs}"
    if via == "from_hytera_ipsc":
        return f"burst.ipsc {e['slot']} {e['call']} {e['ts']} {xs}"
    return f"burst.parse {announced(e)} {xs}"


def entry_name(e):
    via = e["via"]
    if via == "from_mmdvm":
        return f"from_mmdvm(slot bit {e['slot']}, frame type {e['ftype']}{', ints' if e.get('edit') else ''})"
    if via == "from_hytera_ipsc":
        return f"from_hytera_ipsc({e['how']}, timeslot {e['ts']:#06x}, slot type {e['slot']:#06x}, call type {e['call']})"
    return f"{via}({e.get('arg', '')}{',' if e.get('arg') else ''}{BT_NAMES.get(e.get('bt'), 'default burst type')})"


def entry_specs(rng):
    """every constructor / entry point, with every combination of the flags that select a branch in it"""
    out = []
    for bt in ("U", "V", "D"):
        out.append({"via": "from_bytes", "bt": bt})
        out.append({"via": "from_bytes", "bt": bt, "pos": 1})
        out.append({"via": "from_bits", "bt": bt})
        out.append({"via": "ctor", "bt": bt})
        out.append({"via": "ctor", "bt": bt, "pos": 1})
        for via in ("copy", "deepcopy", "pickle"):
            out.append({"via": via, "bt": bt})
    out.append({"via": "from_bytes", "bt": None})
    out.append({"via": "ctor", "bt": None})
    for arg in ("bytearray", "memoryview", "numpy"):
        out.append({"via": "from_bytes", "bt": rng.choice("UVD"), "arg": arg})
    for arg in ("frozen", "scribbled"):
        out.append({"via": "from_bits", "bt": rng.choice("UVD"), "arg": arg})

    def ids():
        return {"seq": rng.choice((0, 1, 255, rng.randrange(256))), "src": rng.choice((0, 1, 2**24 - 1, rng.randrange(2**24))),
                "dst": rng.choice((0, 1, 2**24 - 1, rng.randrange(2**24)))}

    for slot in (0, 1):
        for call_ in (0, 1):
            for ftype in range(4):
                out.append(dict(ids(), via="from_mmdvm", slot=slot, call=call_, ftype=ftype, dtype=rng.randrange(16), rptr=rng.getrandbits(32),
                                stream=rng.choice((0, 2**32 - 1, rng.getrandbits(32))), tail=rng.choice(("", "00", "0a2f", "ffff"))))
        for ftype in range(4):
            out.append(dict(ids(), via="from_mmdvm", slot=slot, call=rng.randrange(2), ftype=ftype, dtype=rng.randrange(16), rptr=rng.getrandbits(32),
                            stream=rng.getrandbits(32), tail="", edit="ints"))
    k = 0
    for how in ("bytes", "kaitai"):
        for ts in (0x1111, 0x2222):
            for slot in IPSC_SLOT_VALUES:
                k += 1
                # the wakeup call types turn every slot type into a wakeup pseudo burst: mostly the two ordinary call types
                call_ = IPSC_CALLS[k % 2] if k % 7 else IPSC_CALLS[2 + (k // 7) % 2]
                out.append(dict(ids(), via="from_hytera_ipsc", how=how, ts=ts, slot=slot, call=call_, ftype=IPSC_FRAMES[k % 6], ptype=IPSC_PACKETS[k % 4],
                                cc=rng.randrange(16), pad=rng.choice((0, 0, 255, rng.randrange(256)))))
    return out


def attr_tokens(cls):
    """(attribute or @action, python expression) pairs: everything a caller can set on a Burst object by hand that - per the model
    (Props/C01 serialise_reads_data / serialise_reads_voice / serialise_ignores_aux) - as_bits does not read.  cls: data |
    voice-sync | voice-emb | pseudo (Hytera sync / wakeup pseudo burst: as_bits returns full_bits)"""
    t = []
    t += [("timeslot", v) for v in ("2", "0", "1", "3", "-1", "255", "None", "'2'", "True", "2.0", "Timeslot.Timeslot_2", "Mmdvm2020.Timeslots.timeslot_2")]
    t += [("sequence_no", v) for v in ("1", "0", "2", "5", "6", "7", "255", "256", "-1", "None")] + [("@set_sequence_no", "3"), ("@set_sequence_no", "0")]
    t += [("stream_no", v) for v in ("b'\\xff\\xff\\xff\\xff'", "bytes(4)", "b''", "b'\\x00\\x00\\x00\\x02'", "16909060", "None")] + [("@set_stream_no", "b'\\x01\\x02\\x03\\x04'")]
    for a in ("source_radio_id", "target_radio_id", "_target_radio_id"):
        t += [(a, v) for v in ("1", "0", "2", "16777215", "16777216", "4294967295", "ADDR", "None")]
    t += [("_target_radio_id_resolve_attempt", "True"), ("_target_radio_id_resolve_attempt", "False")]
    t += [("transmission_type", v) for v in ("TransmissionTypes.VoiceTransmission", "TransmissionTypes.DataTransmission", "TransmissionTypes.Idle", "None")]
    t += [("hytera_ipsc", v) for v in ("ipsc(0x2222, 0x3333, CC ^ 1)", "ipsc(0x1111, 0xEEEE, 0)", "ipsc(0x2222, 0xDDDD, 15)", "ipsc(0x2222, 0x7777, CC)",
                                       "ipsc(0x1111, 0x6666, (CC + 8) % 16)", "ipsc(0x2222, 0x1111, CC, payload=bytes(33))", "None")]
    t += [("@set_is_voice", "VoiceBursts." + m) for m in ("VoiceBurstA", "VoiceBurstB", "VoiceBurstC", "VoiceBurstD", "VoiceBurstE", "VoiceBurstF", "Unknown")]
    t += [("voice_burst", "VoiceBursts.VoiceBurstA"), ("voice_burst", "VoiceBursts.VoiceBurstF"), ("voice_burst", "VoiceBursts.Unknown")]
    t += [("is_vocoder", "True"), ("is_vocoder", "False"), ("is_voice_superframe_start", "True"), ("is_voice_superframe_start", "False")]
    t += [("@read", a) for a in ("target_radio_id", "colour_code", "data_type")] + [("@call", "__repr__"), ("@call", "guess_target_radio_id"), ("@debug", "False")]
    t += [("@via", "Transmission"), ("@via", "TransmissionWatcher"), ("@via", "HyteraIPSC.as_ipsc_bytes")]
    if cls != "pseudo":
        t += [("full_bits", "~q.full_bits"), ("full_bits", "zeros(264)"), ("full_bits", "None"), ("info_bits_original", "None"), ("info_bits_original", "zeros(196)"),
              ("info_bits_deinterleaved", "None"), ("info_bits_deinterleaved", "zeros(96)")]
    if cls == "data":
        t += [("voice_bits", "~q.voice_bits"), ("voice_bits", "None"), ("embedded_signalling_bits", "~q.embedded_signalling_bits"), ("embedded_signalling_bits", "None"),
              ("emb", "EMB(colour_code=CC ^ 1, preemption_and_power_control_indicator=1, link_control_start_stop=2)"), ("emb", "None")]
    if cls in ("voice-sync", "voice-emb"):
        t += [("slot_type", "ST(colour_code=CC ^ 1, data_type=DT.CSBK)"), ("slot_type", "ST(colour_code=3, data_type=DT.Rate34Data)"), ("slot_type", "None"),
              ("has_slot_type", "True"), ("has_slot_type", "False"), ("data", "PDU"), ("data", "None")]
    if cls == "voice-sync":
        t += [("emb", "EMB(colour_code=CC ^ 1, preemption_and_power_control_indicator=1, link_control_start_stop=2)"), ("emb", "None"),
              ("embedded_signalling_bits", "~q.embedded_signalling_bits"), ("embedded_signalling_bits", "None")]
    return t


def attr_env(q):
    Burst, BT, DT, SP, ST, EMB = lib()
    from okdmr.dmrlib.etsi.layer2.elements.voice_bursts import VoiceBursts
    from okdmr.dmrlib.etsi.layer2.pdu.csbk import CSBK
    from okdmr.dmrlib.etsi.layer2.elements.csbk_opcodes import CsbkOpcodes
    from okdmr.dmrlib.hytera.hytera_ipsc import HyteraIPSC
    from okdmr.dmrlib.hytera.ipsc_elements.call_type import CallType
    from okdmr.dmrlib.hytera.ipsc_elements.frame_type import FrameType
    from okdmr.dmrlib.hytera.ipsc_elements.packet_type import PacketType
    from okdmr.dmrlib.hytera.ipsc_elements.slot_type import SlotType as IpscSlotType
    from okdmr.dmrlib.hytera.ipsc_elements.timeslot import Timeslot
    from okdmr.dmrlib.transmission.transmission_types import TransmissionTypes
    from okdmr.kaitai.homebrew.mmdvm2020 import Mmdvm2020

    def ipsc(ts, slot, cc, payload=None):
        return HyteraIPSC(call_type=CallType.GroupCall, frame_type=FrameType.Data, packet_type=PacketType.TypeA, slot_type=IpscSlotType(slot), timeslot=Timeslot(ts),
                          sequence_number=7, color_code=cc, destination_radio_id=9, source_radio_id=2623266, payload=payload if payload is not None else bytes(33))

    cc, e = call(lambda: q.colour_code)
    addr, e2 = call(lambda: int(getattr(q.data, "target_address", None) or getattr(q.data, "llid_destination", None) or 2623266))
    def zeros(n):
        z = bitarray(n)
        z.setall(0)
        return z

    return {"q": q, "bitarray": bitarray, "zeros": zeros, "DT": DT, "ST": ST, "EMB": EMB, "SP": SP, "VoiceBursts": VoiceBursts, "TransmissionTypes": TransmissionTypes,
            "Timeslot": Timeslot, "Mmdvm2020": Mmdvm2020, "ipsc": ipsc, "CC": cc if not e else 1, "ADDR": addr if not e2 else 2623266,
            "PDU": CSBK(csbko=CsbkOpcodes.PreambleCSBK, source_address=1, target_address=2, blocks_to_follow=3, last_block=True)}


def apply_attr(q, attr, expr, env):
    if attr == "@read":
        return getattr(q, expr)
    if attr == "@call":
        return getattr(q, expr)()
    if attr == "@debug":
        return q.debug(printout=False)
    if attr == "@via":
        # the object is handed to another part of the library that keeps / annotates bursts (what it prints is not looked at)
        import contextlib
        import io
        import logging

        quiet = logging.NullHandler()  # (keeps logging's last-resort handler from writing the library's warnings to stderr)
        logging.getLogger().addHandler(quiet)
        try:
            with contextlib.redirect_stdout(io.StringIO()):
                if expr == "Transmission":
                    from okdmr.dmrlib.transmission.transmission import Transmission

                    return Transmission().process_packet(q)
                if expr == "TransmissionWatcher":
                    from okdmr.dmrlib.transmission.transmission_watcher import TransmissionWatcher

                    return TransmissionWatcher().process_burst(q)
                return env["ipsc"](0x2222, 0x3333, 1, payload=q).as_ipsc_bytes()
        finally:
            logging.getLogger().removeHandler(quiet)
    v = eval(expr, env)  # noqa: S307  (the expressions are the constants of attr_tokens)
    if attr.startswith("@"):
        return getattr(q, attr[1:])(v)
    setattr(q, attr, v)


def attr_sweep(ctx, inp, q, want, tokens, what):
    """tokens applied one after the other to the SAME object (so every value is seen next to the latest values of the others);
    after each the object must serialise to the same 264 bits.  Returns the number applied before the first failure."""
    env = attr_env(q)
    done = []
    for attr, expr in tokens:
        done.append([attr, expr])
        ctx.count(f"attrs:{attr}")
        call(apply_attr, q, attr, expr, env)  # (an observer may raise on the junk values set before: only as_bits is looked at)
        got = bits_or_err(q)
        if got != want:
            ctx.fail("attrs-change-serialisation", dict(inp, attrs=done),
                     f"{what}: after {'setting ' + attr + ' = ' + expr if attr[0] != '@' else attr[1:] + '(' + expr + ')'} by hand the burst object serialises differently "
                     f"(as_bits does not read this attribute in the model)", expected=want, actual=got)
            return len(done) - 1
    return len(done)


def content_bits(c):
    """(x, payload view or None) of a content description: 264 bits given, or a data burst assembled from fields"""
    Burst, BT, DT, SP, ST, EMB = lib()
    if "bits" in c:
        return bitarray(c["bits"]), None
    srcs = {(k, s.name): (k, dt, s, t) for k, dt, s, t in payload_sources()}
    kname, dt, src, _ = srcs[(c["kind"], c["c03kind"])]
    var = next(v for v in src.variants if v.name == c["variant"])
    p = var.build(c["fields"])
    b = assemble(p, c["cc"], dt, SP[c["sync"]])
    return b.as_bits(), (kname, var, p, dt, c["cc"], SP[c["sync"]])


def content_class(c):
    return "data" if "bits" not in c else c["what"]


def check_entry(ctx, inp, pairs, hold=None):
    """one entry point on one burst: inp = {mode: entry, entry: {...}, content: {...}, attrs: [[attribute, expression] ...] | 'all' | None}"""
    Burst, BT, DT, SP, ST, EMB = lib()
    e, c = inp["entry"], inp["content"]
    r, err = call(content_bits, c)
    if err:
        return  # reported by the plain data path
    x, view = r
    xs = c03.sbits(x)
    cls = content_class(c)
    ann = announced(e) if e["via"] != "assemble" else "D"
    what = f"{entry_name(e) if e['via'] != 'assemble' else 'assembled burst object'} on a {cls} burst ({c.get('sync') or c.get('centre')})"
    if e["via"] == "assemble":
        kname, var, p, dt, cc, sync = view
        q, err = call(lambda: assemble(var.build(c["fields"]), cc, dt, sync))
        if err:
            return
    else:
        q, err = call(enter, e, x)
        line = entry_line(e, xs) if ann in ("U", "V", "D") else None
        # inside the property: assembled data bursts and voice bursts around a voice sync whatever is announced; EMB / other sync
        # centres when not announced as data.  The two Hytera pseudo bursts: outside (only: a constructed one returns its bits)
        covered = ann in ("U", "V", "D") and (cls in ("data", "voice-sync") or ann != "D")
        if err:
            if line:
                pairs.append((line, err))
            if covered:
                ctx.fail("entry-raises", inp, f"{what}: the entry point raised {err}", actual=err)
            return
        if line:
            pairs.append((line, parse_text(q)))
        elif e["via"] == "from_hytera_ipsc":
            pairs.append((entry_line(e, xs), {"HyteraIPSCSync": "pseudo sync", "HyteraIPSCWakeup": "pseudo wakeup"}.get(type(q).__name__, "ok " + type(q).__name__)))
        if not covered and ann in ("U", "V", "D"):
            return
    if cls == "data" and ann in ("U", "V", "D"):
        kname, var, p, dt, cc, sync = view
        ok = check_parsed(ctx, inp, kname, var.name, p, dt, cc, sync, q, x.tobytes(), how=f"({what})")
    else:
        got = bits_or_err(q)
        ok = got == xs
        if not ok:
            ctx.fail("entry-roundtrip", inp, f"{what}: parse-then-serialise does not reproduce the 264 bits", expected=xs, actual=got)
    if not ok:
        return
    tokens = inp.get("attrs")
    if tokens:
        tcls = "pseudo" if ann in ("sync", "wakeup") else "voice-sync" if cls == "other-sync" else cls
        if tokens == "all":
            tokens = attr_tokens(tcls)
        attr_sweep(ctx, {k: v for k, v in inp.items() if k != "attrs"}, q, xs, tokens, what)
    if hold is not None:
        hold.offer(q, x.tobytes(), None, inp)


def voice_contents(rng):
    """264-bit voice bursts: random vocoder bits around every voice sync, the two other sync patterns, and valid EMB"""
    voice, data, other = sync_sets()
    out = []
    for s in voice + other:
        x = voice_frame(int2ba(rng.getrandbits(216), length=216), s.as_bits())
        out.append({"bits": c03.sbits(x), "what": "voice-sync" if s in voice else "other-sync", "centre": s.name})
    cc, pi, lcss, e16 = rng.choice(emb_table())
    x = voice_frame(int2ba(rng.getrandbits(216), length=216), e16[:8] + int2ba(rng.getrandbits(32), length=32) + e16[8:])
    out.append({"bits": c03.sbits(x), "what": "voice-emb", "centre": f"EMB cc={cc} pi={pi} lcss={lcss}"})
    return out


def data_content(rng, kname, src, var, cc, sync):
    vals = var.random_vals(rng)
    if var.fix:
        vals = var.fix(vals)
    if kname in ("vlc", "tlc") and len(vals["crc"]) != 24:
        vals["crc"] = c03.BITS(24).rand(rng)
    return {"kind": kname, "c03kind": src.name, "variant": var.name, "fields": vals, "cc": cc, "sync": sync.name}


def generator_cases(rng):
    """calls of the library's own burst generators (TransmissionGenerator); JSON-able"""
    voice, data, other = sync_sets()
    out = []
    for s in data:
        out.append({"mode": "generator", "fn": "csbk_preambles", "src": rng.randrange(2**24), "dst": rng.randrange(2**24), "indiv": rng.random() < 0.5,
                    "pre": rng.randrange(1, 4), "follow": rng.randrange(0, 5), "cc": rng.randrange(16), "sync": s.name})
    for rate in ("12", "34", "1"):
        for conf in (True, False):
            out.append({"mode": "generator", "fn": "data_bursts", "rate": rate, "confirmed": conf, "cc": rng.randrange(16),
                        "userdata": rng.randbytes(rng.randrange(1, 60)).hex()})
    return out


def check_generator(ctx, inp, pairs_parse):
    """bursts the library's generators return: each serialises, parses back to its own payload, colour code, data type, sync"""
    Burst, BT, DT, SP, ST, EMB = lib()
    from okdmr.dmrlib.transmission.transmission_generator import TransmissionGenerator as TG
    from okdmr.dmrlib.etsi.layer2.pdu.rate12_data import Rate12Data
    from okdmr.dmrlib.etsi.layer2.pdu.rate34_data import Rate34Data
    from okdmr.dmrlib.etsi.layer2.pdu.rate1_data import Rate1Data

    if inp["fn"] == "csbk_preambles":
        bursts, err = call(TG.generate_csbk_preambles, source_address=inp["src"], target_address=inp["dst"], target_address_is_individual=inp["indiv"],
                           num_of_preambles=inp["pre"], num_of_following_data_blocks=inp["follow"], colour_code=inp["cc"], sync_pattern=SP[inp["sync"]])
        kname, dt, sync = "csbk", DT.CSBK, SP[inp["sync"]]
    else:
        cls = {"12": Rate12Data, "34": Rate34Data, "1": Rate1Data}[inp["rate"]]
        r, err = call(TG.generate_data_bursts, packet_type=cls, userdata=bytes.fromhex(inp["userdata"]), colour_code=inp["cc"], is_confirmed=inp["confirmed"])
        bursts = r[0] if not err else None
        kname, dt, sync = "rate" + inp["rate"], cls.get_data_type(), SP.BsSourcedData
    if err:
        ctx.fail("generator-raises", inp, f"TransmissionGenerator ({inp['fn']}) raised {err}", actual=err)
        return
    for i, b in enumerate(bursts):
        if b.data is None:
            ctx.fail("payload-missing", inp, f"generated burst {i} has no payload")
            continue
        verify_roundtrip(ctx, dict(inp, burst=i), kname, "generated", b.data, dt, inp["cc"], sync, b, pairs_parse, bts=("D", "U"))


# ------------------------------------------------------------------------------------------------
# ambient interpreter / process state (hardening after seeded change C01-E): the same fixed sample of the oracle is evaluated
# again under each ambient setting, in this process and in one child interpreter with assertions stripped; every canonical
# observable must equal what the plain run gave
CHILD_FLAGS = ["-O", "-bb", "-W", "error", "-X", "dev"]
CHILD_ENV = {"PYTHONOPTIMIZE": "2", "PYTHONHASHSEED": "20260926", "PYTHONDONTWRITEBYTECODE": "1", "LC_ALL": "C", "LANG": "C", "PYTHONIOENCODING": "ascii:strict",
             "PYTHONUTF8": "0", "TZ": "Pacific/Kiritimati"}


class Rec:
    """collects the failures of the oracle functions it is handed to (JSON-able)"""

    def __init__(self, forward=None):
        self.failures, self.forward = [], forward

    def fail(self, kind, input, what, expected=None, actual=None):
        if isinstance(actual, str) and actual.startswith("ERR") and LAST_EXC[0]:
            what += f" [{LAST_EXC[0]}]"
        self.failures.append(json.loads(json.dumps([kind, what, expected, actual], default=str)))
        if self.forward is not None:
            self.forward.fail(kind, input, what, expected, actual)

    def count(self, *a, **k):
        pass

    def case(self, *a, **k):
        pass


def init_kinds():
    if payload_text.kinds is None:
        payload_text.kinds = {k.name: k for k in c03.kinds()}


def check_sync_from_bits(ctx, SP, c, r=None, err=None):
    """the bit-string entry point of the centre lookup (coverage round: SyncPatterns.from_bits was never executed): it must give the member
    resolve_bytes gives for the same 48 bits, read the first 48 bits only, and invert as_bits on the patterns themselves"""
    if r is None and err is None:
        r, err = call(SP.resolve_bytes, c.to_bytes(6, "big"))
    if err:
        return
    inp = {"mode": "sync-lookup", "centre": c}
    b = int2ba(c, length=48)
    for tail in ("", "1" * 16, "0" * 216):
        fb, e2 = call(SP.from_bits, b + bitarray(tail))
        if e2 or fb is not r:
            ctx.fail("sync-from_bits-differs", inp, f"SyncPatterns.from_bits of the centre {c:#014x}{' followed by ' + str(len(tail)) + ' more bits' if tail else ''} "
                     f"is {e2 or fb}, resolve_bytes gives {r}", expected=str(r), actual=e2 or str(fb))
            return
    if r.value >= 0:
        ab, e2 = call(r.as_bits)
        if e2 or ab != b:
            ctx.fail("sync-from_bits-differs", inp, f"{r}.as_bits() is not the 48 bits it was looked up from", expected=b.to01(), actual=e2 or ab.to01())
    ctx.count("structured:centre-lookup-from_bits")


def run_input(r, inp, pairs, hold=None):
    """the oracle on one recorded / sampled input (every `mode` the checks produce); appends the canonical (model line, output)
    pairs that were observed"""
    Burst, BT, DT, SP, ST, EMB = lib()
    init_kinds()
    mode = inp.get("mode")
    if mode == "sync-lookup":
        check_sync_from_bits(r, SP, inp["centre"])
    elif mode == "data":
        srcs = {(k, s.name): (k, dt, s, t) for k, dt, s, t in payload_sources()}
        kname, dt, src, _ = srcs[(inp["kind"], inp["c03kind"])]
        var = next(v for v in src.variants if v.name == inp["variant"])
        pb = []
        check_data(r, kname, dt, src, var, inp["fields"], inp["cc"], SP[inp["sync"]], pb, pairs, bts=("D", "V", "U"), hold=hold)
        pairs[:0] = pb
    elif mode == "voice":
        check_voice(r, bitarray(inp["bits"]), inp["burst_type"], "replay", inp, pairs, hold=hold, twice=True)
        if "emb2" in inp:
            voice_emb_reuse(r, bitarray(inp["bits"]), inp["burst_type"], tuple(inp["emb2"]) + (emb_word(*inp["emb2"]),),
                            {k: v for k, v in inp.items() if k not in ("emb2", "history")})
    elif mode == "history":
        pb = []
        run_history(r, {k: v for k, v in inp.items() if k != "step"}, pb, pairs)
        pairs[:0] = pb
    elif mode == "entry":
        check_entry(r, inp, pairs, hold=hold)
    elif mode == "generator":
        check_generator(r, {k: v for k, v in inp.items() if k != "burst"}, pairs)
    elif mode == "sequence":
        check_sequence(r, {k: v for k, v in inp.items() if k not in ("burst", "history")}, pairs, hold=hold)
    else:
        raise KeyError(f"unknown input mode {mode}")


def run_sample(inps, before_each=None):
    """[{failures, pairs}] of the oracle on every input; harness exceptions are part of the outcome (never raised)"""
    out = []
    for k, inp in enumerate(inps):
        if before_each is not None:
            before_each(k)
        rec, pairs = Rec(), []
        try:
            run_input(rec, inp, pairs)
            crash = None
        except BaseException as e:  # noqa
            crash = f"{type(e).__name__}: {e}"[:300]
        out.append({"failures": rec.failures, "pairs": [[l, o] for l, o in pairs], "crash": crash})
    return out


def failing_calls():
    """calls the library must reject; their outcome is not looked at here (the model's answer is compared elsewhere) - what matters is
    that they leave nothing behind that changes a later valid call"""
    Burst, BT, DT, SP, ST, EMB = lib()
    from okdmr.dmrlib.etsi.fec.bptc_196_96 import BPTC19696
    from okdmr.dmrlib.etsi.fec.trellis import Trellis34

    def Z(n):
        z = bitarray(n)
        z.setall(0)
        return z

    import warnings

    x = Z(264)
    x[108:156] = SP.Tdma1Data.as_bits()
    calls = (
        lambda: Burst.from_bits(Z(263), BT.DataAndControl),
        lambda: Burst.from_bytes(bytes(34), BT.Vocoder),
        lambda: Burst.from_bits(bitarray(x), BT.Undefined).as_bits(),  # all-zero slot type: zero parity regenerated, PI header of zeros
        lambda: Burst.from_bits(~Z(264), BT.DataAndControl),  # data type 15: reserved
        lambda: Burst(burst_type=BT.DataAndControl).as_bits(),  # nothing assigned
        lambda: Burst.from_hytera_ipsc(bytes(72)),
        lambda: Burst.from_mmdvm(None),
        lambda: ST(colour_code=16, data_type=DT.CSBK),
        lambda: EMB(colour_code=1, preemption_and_power_control_indicator=2, link_control_start_stop=0),
        lambda: SP.resolve_bytes(bytes(5)),
        lambda: BPTC19696.encode(Z(95)),
        lambda: BPTC19696.deinterleave_data_bits(bits=Z(195)),
        lambda: Trellis34.encode(Z(143)),
        lambda: Trellis34.decode(Z(197)),
    )
    with warnings.catch_warnings():
        warnings.simplefilter("ignore")
        for fn in calls:
            call(fn)


class _Broken:
    """a closed / broken output stream"""

    encoding = "utf-8"

    def write(self, *a):
        raise OSError("broken stream")

    def flush(self):
        raise OSError("broken stream")

    def isatty(self):
        return False

    def fileno(self):
        raise OSError("broken stream")


def ambient_settings():
    """name -> function(inps) -> results; each restores what it changed"""
    import contextlib
    import gc
    import logging
    import random
    import sys
    import threading
    import warnings

    import numpy

    seen = {"log": 0}

    class Strict(logging.Handler):
        def emit(self, record):  # formats the record; a log call whose arguments do not fit its format raises into the caller
            seen["log"] += 1
            record.getMessage()

    @contextlib.contextmanager
    def root_debug():
        root = logging.getLogger()
        h, old, dis = Strict(level=logging.DEBUG), root.level, root.manager.disable
        levels = {n: lg.level for n, lg in root.manager.loggerDict.items() if isinstance(lg, logging.Logger)}
        root.addHandler(h)
        root.setLevel(logging.DEBUG)
        logging.disable(logging.NOTSET)
        for n in levels:
            if not n.startswith(("numpy", "asyncio", "concurrent")):
                logging.getLogger(n).setLevel(logging.NOTSET)
        try:
            yield
        finally:
            root.removeHandler(h)
            root.setLevel(old)
            logging.disable(dis)
            for n, lv in levels.items():
                logging.getLogger(n).setLevel(lv)

    @contextlib.contextmanager
    def stream(name):
        old = getattr(sys, name)
        setattr(sys, name, _Broken())
        try:
            yield
        finally:
            setattr(sys, name, old)

    def with_(cm, before_each=None):
        def f(inps):
            with cm():
                return run_sample(inps, before_each)
        return f

    def reseeded(inps):
        st, nst = random.getstate(), numpy.random.get_state()
        try:
            def again(k):
                random.seed(4711)
                numpy.random.seed(4711)
            return run_sample(inps, again)
        finally:
            random.setstate(st)
            numpy.random.set_state(nst)

    @contextlib.contextmanager
    def warn_error():
        with warnings.catch_warnings():
            warnings.simplefilter("error")
            yield

    def thread(inps):
        box = []
        t = threading.Thread(target=lambda: box.append(run_sample(inps)), name="c01-ambient")
        t.start()
        t.join()
        return box[0] if box else [{"failures": [], "pairs": [], "crash": "worker thread died"} for _ in inps]

    def gc_off(inps):
        was = gc.isenabled()
        gc.disable()
        try:
            return run_sample(inps, lambda k: gc.collect(0) if k % 16 == 0 else None)
        finally:
            if was:
                gc.enable()

    def no_stdout(inps):
        old = sys.stdout, sys.stderr
        sys.stdout = sys.stderr = None  # a windowed / detached interpreter
        try:
            return run_sample(inps)
        finally:
            sys.stdout, sys.stderr = old

    def cwd_root(inps):
        import os

        old = os.getcwd()
        os.chdir("/")
        try:
            return run_sample(inps)
        finally:
            os.chdir(old)

    def np_print(inps):
        old = numpy.get_printoptions()
        numpy.set_printoptions(threshold=3, edgeitems=1, linewidth=12, precision=1, sign="+")
        try:
            return run_sample(inps)
        finally:
            numpy.set_printoptions(**old)

    def traced(inps):
        old = sys.gettrace()
        sys.settrace(lambda *a: None)  # a debugger / coverage tool is attached (call events only)
        try:
            return run_sample(inps)
        finally:
            sys.settrace(old)

    return {
        "root-logger-at-DEBUG": with_(root_debug),
        "sys.stdout-raises": with_(lambda: stream("stdout")),
        "sys.stderr-raises": with_(lambda: stream("stderr")),
        "sys.stdout-and-stderr-are-None": no_stdout,
        "cwd-is-root": cwd_root,
        "numpy-printoptions-abbreviate": np_print,
        "random-reseeded-before-every-step": reseeded,
        "numpy-errstate-raise": with_(lambda: numpy.errstate(all="raise")),
        "warnings-as-errors": with_(warn_error),
        "worker-thread": thread,
        "gc-disabled": gc_off,
        "trace-function-set": traced,
        "failing-calls-before-every-step": lambda inps: run_sample(inps, lambda k: failing_calls()),
    }


def compare_ambient(ctx, name, detail, inps, base, got):
    """every observable of the sample under the ambient setting equals the plain run's"""
    bad = 0
    for inp, b, g in zip(inps, base, got):
        if b == g and not g["failures"] and not g["crash"]:
            continue
        if b["failures"] or b["crash"]:
            continue  # fails without the ambient setting, too: reported by the plain run
        bad += 1
        if bad > 3:
            continue
        if g["crash"]:
            what, exp, act = f"the oracle could not be evaluated: {g['crash']}", None, g["crash"]
        elif g["failures"]:
            kind, w, exp, act = g["failures"][0]
            what = f"{kind}: {w}"
        else:
            d = next(((lb, ob, og) for (lb, ob), (lg, og) in zip(b["pairs"], g["pairs"]) if (lb, ob) != (lg, og)), None)
            what, exp, act = (f"observable of `{d[0][:60]}…` differs", d[1], d[2]) if d else ("a different number of observables", len(b["pairs"]), len(g["pairs"]))
        ctx.fail("ambient", {"mode": "ambient", "ambient": name, "detail": detail, "inner": inp},
                 f"under the ambient setting '{name}' ({detail}) a burst that round-trips in the plain interpreter does not: {what}", expected=exp, actual=act)
    return bad


def child_main():
    """entry of the child interpreter (started by run_child with CHILD_FLAGS / CHILD_ENV): jobs as JSON on stdin, results on stdout"""
    import os
    import sys

    real = os.fdopen(os.dup(1), "w")
    sys.stdout = sys.stderr  # nothing the library prints may reach the result stream
    res = {"flags": {"optimize": sys.flags.optimize, "bytes_warning": sys.flags.bytes_warning, "hash_seed": os.environ.get("PYTHONHASHSEED")}}
    try:
        jobs = json.load(sys.stdin)
        try:
            import okdmr.dmrlib as _l

            res["lib"] = os.path.dirname(os.path.abspath(_l.__file__))
            lib()
            init_kinds()
        except BaseException as e:  # noqa
            res["import_error"] = f"{type(e).__name__}: {e}"[:500]
        else:
            failing_calls()  # the first calls this process makes on the library are rejected ones
            res["results"] = run_sample(jobs)
    except BaseException as e:  # noqa
        res["harness_error"] = f"{type(e).__name__}: {e}"[:500]
    json.dump(res, real)
    real.flush()


def run_child(inps, flags=None, env=None):
    import os
    import subprocess

    import okdmr.dmrlib as _l
    from common import Infra, PY

    harness = os.path.dirname(os.path.dirname(os.path.abspath(__file__)))
    code = f"import sys; sys.path.insert(0, {harness!r}); from props import c01; c01.child_main()"
    e = dict(os.environ)
    e.update(CHILD_ENV if env is None else env)
    try:
        p = subprocess.run([PY] + list(CHILD_FLAGS if flags is None else flags) + ["-c", code], input=json.dumps(inps), capture_output=True, text=True, timeout=300, env=e)
    except subprocess.TimeoutExpired:
        raise Infra("the child interpreter of the ambient check did not finish in 300 s")
    try:
        res = json.loads(p.stdout)
    except ValueError:
        raise Infra(f"the child interpreter of the ambient check gave no result (rc={p.returncode}): {p.stderr[-600:]}")
    if "harness_error" in res:
        raise Infra(f"the child interpreter of the ambient check failed in the harness: {res['harness_error']}")
    mine = os.path.dirname(os.path.abspath(_l.__file__))
    if res.get("lib") not in (None, mine):
        raise Infra(f"the child interpreter imported the library from {res.get('lib')}, not {mine}")
    return res


def ambient_sample(rng, n_hist=1):
    """the sample every ambient setting re-runs: every payload kind / variant assembled, serialised, parsed, re-serialised (all ten sync
    patterns, all colour codes over the list), every reuse script, voice bursts around every sync pattern and EMB, every family of entry
    points with both timeslots, the attribute sweep, the library's generators"""
    Burst, BT, DT, SP, ST, EMB = lib()
    init_kinds()
    voice, data, other = sync_sets()
    out, k = [], 0
    srcs = payload_sources()
    for kname, dt, src, _t in srcs:
        for var in src.variants:
            k += 1
            c = data_content(rng, kname, src, var, k % 16, data[k % 4])
            out.append(dict(c, mode="data"))
            if k % 3 == 0:
                e = rng.choice([s for s in entry_specs(rng) if s["via"] in ("from_mmdvm", "from_hytera_ipsc")])
                out.append({"mode": "entry", "entry": e, "content": data_content(rng, kname, src, var, (k * 7) % 16, data[(k // 3) % 4]), "attrs": None})
    for i, script in enumerate(HISTORY_SCRIPTS):
        for j in range(n_hist):
            kname, dt, src, _t = srcs[(5 * i + 3 * j) % len(srcs)]
            var = src.variants[(i + j) % len(src.variants)]
            fix = (lambda v: dict(v, crc=(v["crc"] if len(v["crc"]) == 24 else c03.BITS(24).rand(rng)))) if kname in ("vlc", "tlc") else (lambda v: v)
            v1 = fix(var.random_vals(rng))
            if var.fix:
                v1 = fix(var.fix(v1))
            cc1, cc2 = rng.sample(range(16), 2)
            s1, s2 = rng.sample(data, 2)
            out.append({"mode": "history", "script": script, "kind": kname, "c03kind": src.name, "variant": var.name, "fields": v1, "fields2": vary(rng, var, v1, fix),
                        "cc": cc1, "cc2": cc2, "sync": s1.name, "sync2": s2.name})
    for c in voice_contents(rng) + voice_contents(rng)[-1:]:
        for bt in ("V", "U"):
            out.append({"mode": "voice", "bits": c["bits"], "burst_type": bt})
        out.append({"mode": "entry", "entry": {"via": "from_mmdvm", "slot": 1, "call": 0, "ftype": 1, "dtype": 0, "seq": 3, "src": 1, "dst": 2, "rptr": 3, "stream": 4, "tail": ""},
                    "content": c, "attrs": None})
        out.append({"mode": "entry", "entry": {"via": "from_hytera_ipsc", "how": "kaitai", "ts": 0x2222, "slot": 0x8888, "call": 1, "ftype": 0xBBBB, "ptype": 65, "cc": 1,
                                              "pad": 0, "seq": 3, "src": 1, "dst": 2}, "content": c, "attrs": None})
    kname, dt, src, _t = srcs[0]
    out.append({"mode": "entry", "entry": {"via": "from_bytes", "bt": "D"}, "content": data_content(rng, kname, src, src.variants[0], 9, SP.Tdma1Data), "attrs": "all"})
    out.append({"mode": "entry", "entry": {"via": "assemble"}, "content": data_content(rng, kname, src, src.variants[1], 4, SP.Tdma2Data), "attrs": "all"})
    out.append({"mode": "entry", "entry": {"via": "from_bits", "bt": "V"}, "content": voice_contents(rng)[2], "attrs": "all"})
    out += generator_cases(rng)[::3]
    # foreign content: vocoder bits = a serialised PI header / CSBK burst around valid EMB, embedded bits = VBPTC(32,11) words of every
    # option with LCSS 0, a rate 1 block holding the bits of a voice burst
    embs = emb_table()
    for c in [d for d in data_donors(rng, 1) if d["kind"] in ("pi", "csbk")][:3]:
        x, _view = content_bits(c)
        cc, pi, lcss, e16 = rng.choice(embs)
        xv = x[:108] + e16[:8] + rbits(rng, 32) + e16[8:] + x[156:]
        for bt in ("V", "U"):
            out.append({"mode": "voice", "bits": c03.sbits(xv), "burst_type": bt, "class": f"vocoder bits = the halves of a serialised {c['kind']} burst"})
    words = vbptc3211_words()
    for m, name, w in [words[i] for i in sorted(rng.sample(range(len(words)), 6))] + words[-2:]:
        cc, pi, lcss, e16 = embs[4 * 8 * rng.randrange(4)]
        xv = voice_frame(rbits(rng, 216), e16[:8] + w + e16[8:])
        out.append({"mode": "voice", "bits": c03.sbits(xv), "burst_type": "V", "class": f"embedded bits = {name} code word"})
    kname, dt, src, _t = next(t for t in srcs if t[0] == "rate1")
    xv = voice_frame(rbits(rng, 216), voice[0].as_bits())
    info = xv[:98] + xv[166:]
    out.append(dict(data_content(rng, kname, src, src.variants[0], 7, SP.MsSourcedData), mode="data"))
    out[-1]["fields"]["data"] = fill_octets(info[:96] + info[100:], len(out[-1]["fields"]["data"]) // 2)
    return out


def check_ambient(ctx):
    import random
    import time

    rng = random.Random("C01:ambient")  # the same sample for every seed (quick); thorough adds a seeded share
    inps = ambient_sample(rng)
    if ctx.thorough():
        inps += ambient_sample(ctx.rng, n_hist=3) + ambient_sample(ctx.rng)
    base = run_sample(inps)
    for inp, b in zip(inps, base):  # the plain run of the sample is an ordinary part of the oracle
        ctx.case(("ambient-sample", json.dumps(inp, sort_keys=True)))
        for kind, what, exp, act in b["failures"]:
            ctx.fail(kind, inp, what, exp, act)
        if b["crash"]:
            ctx.fail("oracle-crash", inp, f"the oracle could not be evaluated: {b['crash']}", actual=b["crash"])
    for name, fn in ambient_settings().items():
        got = fn(inps)
        ctx.count(f"ambient:{name}", len(inps))
        compare_ambient(ctx, name, "in this process", inps, base, got)
    t = time.time()
    res = run_child(inps)
    detail = f"child interpreter: python {' '.join(CHILD_FLAGS)}, " + ", ".join(f"{k}={v}" for k, v in CHILD_ENV.items())
    if res["flags"]["optimize"] < 1:
        from common import Infra

        raise Infra("the child interpreter of the ambient check did not run optimised")
    if "import_error" in res:
        ctx.fail("ambient", {"mode": "ambient", "ambient": "child", "detail": detail, "inner": None},
                 f"in a {detail} the library cannot be imported: {res['import_error']}", actual=res["import_error"])
    else:
        ctx.count("ambient:child-python-O", len(inps))
        compare_ambient(ctx, "child", detail, inps, base, res["results"])
    ctx.notes.append(f"ambient child ({detail}): {len(inps)} sampled inputs in {time.time() - t:.1f} s")


def plain_entries(specs):
    return [e for e in specs if announced(e) in ("U", "V", "D")]


def check_provenance(ctx, pairs, hold):
    """(1) every entry point x every flag combination x every sync pattern (data syncs: an assembled payload, kinds rotating; the others:
    vocoder bits) and valid EMB; (2) the attribute sweep on objects of every entry family x every sync pattern and EMB"""
    Burst, BT, DT, SP, ST, EMB = lib()
    rng = ctx.rng
    voice, data, other = sync_sets()
    variants = [(kname, src, var) for kname, dt, src, _t in payload_sources() for var in src.variants]
    specs = entry_specs(rng)
    k = 0
    for rep in range(ctx.budget(1, 6) // ctx.boost or 1):
        order = list(specs) if rep == 0 else entry_specs(rng)
        rng.shuffle(order)  # the entry points take turns (state one of them leaves behind meets the others)
        for e in order:
            contents = []
            for s in data:
                k += 1
                kname, src, var = variants[k % len(variants)]
                contents.append(data_content(rng, kname, src, var, rng.randrange(16), s))
            for c in contents + voice_contents(rng):
                inp = {"mode": "entry", "entry": e, "content": c, "attrs": None}
                if rng.random() < 0.25:
                    cls = "voice-sync" if content_class(c) == "other-sync" else content_class(c)
                    inp["attrs"] = [list(t) for t in rng.sample(attr_tokens("pseudo" if announced(e) in ("sync", "wakeup") else cls), 6)]
                ctx.case(("entry", json.dumps(inp, sort_keys=True)), sample=inp if (e["via"], c.get("sync")) == ("from_mmdvm", "Tdma1Data") and e["slot"] == 1 else None)
                ctx.count(f"provenance:{e['via']}:{announced(e)}")
                ctx.count(f"provenance:centre={c.get('sync') or c.get('centre', '').split(' ')[0]}")
                check_entry(ctx, inp, pairs, hold=hold)
    # undefined enum values in the IPSC frame: rejected (correspondence only)
    x = bitarray(voice_contents(rng)[0]["bits"])
    for how in ("bytes", "kaitai"):
        for slot, call_, ts in ((0x1234, 1, 0x1111), (0x3333, 5, 0x1111), (0x3333, 1, 0x3333), (0xEEEE, 7, 0x2222)):
            e = {"via": "from_hytera_ipsc", "how": how, "ts": ts, "slot": slot, "call": call_, "ftype": 0, "ptype": 65, "cc": 1, "pad": 0, "seq": 0, "src": 1, "dst": 2}
            q, err = call(enter, e, x)
            pairs.append((entry_line(e, c03.sbits(x)), err or "ok " + type(q).__name__))
            ctx.count("provenance:from_hytera_ipsc:undefined-enum-value")
    # the attribute sweep
    fam = [{"via": "assemble"}, {"via": "from_bytes", "bt": "D"}, {"via": "from_bits", "bt": "U"}, {"via": "pickle", "bt": "V"}]
    fam += [next(e for e in specs if e["via"] == "from_mmdvm" and e["slot"] == 1 and not e.get("edit")),
            next(e for e in specs if e["via"] == "from_hytera_ipsc" and e["ts"] == 0x2222 and e["slot"] == 0x3333),
            next(e for e in specs if e["via"] == "from_hytera_ipsc" and e["ts"] == 0x2222 and e["slot"] == 0x7777),
            next(e for e in specs if e["via"] == "from_hytera_ipsc" and announced(e) == "sync"),
            next(e for e in specs if e["via"] == "from_hytera_ipsc" and announced(e) == "wakeup")]
    per = len(fam) if ctx.thorough() else 3
    j = 0
    for rep in range(ctx.budget(1, 3) // ctx.boost or 1):
        contents = []
        for s in data:
            k += 1
            kname, src, var = variants[k % len(variants)]
            contents.append(data_content(rng, kname, src, var, rng.randrange(16), s))
        for c in contents + voice_contents(rng):
            chosen = list(fam[1:]) if ctx.thorough() else []
            while len(chosen) < per - ("bits" not in c):
                j += 1
                chosen.append(fam[1 + j % (len(fam) - 1)])
            for e in ([fam[0]] if "bits" not in c else []) + chosen:
                j += 1
                cls = "voice-sync" if content_class(c) == "other-sync" else content_class(c)
                tokens = [list(t) for t in attr_tokens("pseudo" if e["via"] != "assemble" and announced(e) in ("sync", "wakeup") else cls)]
                if j % 2:
                    rng.shuffle(tokens)
                inp = {"mode": "entry", "entry": e, "content": c, "attrs": tokens}
                ctx.case(("entry-attrs", json.dumps(inp, sort_keys=True)))
                ctx.count(f"provenance:attribute-sweep:{e['via']}")
                check_entry(ctx, inp, pairs, hold=hold)
    for inp in generator_cases(rng):
        ctx.case(("generator", json.dumps(inp, sort_keys=True)))
        ctx.count(f"provenance:generator:{inp['fn']}")
        check_generator(ctx, inp, pairs)


# ------------------------------------------------------------------------------------------------
# payload content that is itself a valid object of another kind (hardening after seeded changes C01-G and C01-H).  For the property
# the 216 vocoder bits, the 32 embedded bits and the octets of a data block are ANY bits - in particular every bit string the library
# itself serialises for something else.  A parser that looks into them ("a voice burst whose vocoder bits are a PI header burst is
# really data", "embedded bits that are a reverse channel word: keep the 11 info bits and re-encode") meets such content only when it
# is generated on purpose (about 2^-32 / 2^-21 of the random bursts).  General mechanism: a dictionary of foreign objects harvested
# from the library's own serialisers (every payload kind x variant assembled into a data burst; every FEC encoder / checksum generator
# x every boolean option of it; sync patterns, EMB and slot type words; PDUs with generated check fields; literals of the current
# source), placements of each into the vocoder bits / the embedded bits / a data block, crossed with every centre (voice syncs, the
# other syncs, valid EMB of every LCSS) and every announced burst type, through the same round-trip oracle as everything else.
SLOT_POS = list(range(98, 108)) + list(range(156, 166))
INFO_POS = list(range(98)) + list(range(166, 264))


def to_bits(a):
    """big-endian bitarray of what an encoder returned (bitarray / bytes / numpy array / list)"""
    if isinstance(a, bitarray):
        return bitarray(a.to01())
    if isinstance(a, (bytes, bytearray)):
        b = bitarray()
        b.frombytes(bytes(a))
        return b
    return bitarray("".join("1" if int(x) & 1 else "0" for x in a))


def rbits(rng, n):
    return int2ba(rng.getrandbits(n), length=n) if n else bitarray()


def bool_options(fn):
    """every combination of the parameters of an encoder that default to a bool (VBPTC3211.encode(..., even_parity=True)): EVERY
    argument of every encoder, read from the signature in the tree under test"""
    import inspect
    import itertools

    try:
        ps = [p.name for p in inspect.signature(fn).parameters.values() if isinstance(p.default, bool)]
    except (TypeError, ValueError):
        ps = []
    return [dict(zip(ps, vs)) for vs in itertools.product((True, False), repeat=len(ps))]


def fec_encoders():
    """[(name, message length in bits, message bits -> code word bits)]: every FEC encoder / parity generator of the library x every
    combination of its boolean options"""
    from okdmr.dmrlib.etsi.fec.bptc_196_96 import BPTC19696
    from okdmr.dmrlib.etsi.fec.golay_20_8_7 import Golay2087
    from okdmr.dmrlib.etsi.fec.hamming_13_9_3 import Hamming1393
    from okdmr.dmrlib.etsi.fec.hamming_15_11_3 import Hamming15113
    from okdmr.dmrlib.etsi.fec.hamming_16_11_4 import Hamming16114
    from okdmr.dmrlib.etsi.fec.hamming_17_12_3 import Hamming17123
    from okdmr.dmrlib.etsi.fec.hamming_7_4_3 import Hamming743
    from okdmr.dmrlib.etsi.fec.quadratic_residue_16_7_6 import QuadraticResidue1676
    from okdmr.dmrlib.etsi.fec.reed_solomon_12_9_4 import ReedSolomon1294
    from okdmr.dmrlib.etsi.fec.trellis import Trellis34
    from okdmr.dmrlib.etsi.fec.vbptc_128_72 import VBPTC12873
    from okdmr.dmrlib.etsi.fec.vbptc_32_11 import VBPTC3211
    from okdmr.dmrlib.etsi.fec.vbptc_68_28 import VBPTC6828
    from okdmr.dmrlib.etsi.layer2.elements.crc_masks import CrcMasks

    out = []

    def add(name, k, fn):
        for kw in bool_options(fn):
            tag = name + "".join(f" {a}={v}" for a, v in kw.items())
            out.append((tag, k, (lambda m, fn=fn, kw=kw: to_bits(fn(bitarray(m), **kw)))))

    add("VBPTC(32,11)", 11, VBPTC3211.encode)
    add("VBPTC(68,28)", 28, VBPTC6828.encode)
    add("VBPTC(128,72)", 72, VBPTC12873.encode)
    add("BPTC(196,96)", 96, BPTC19696.encode)
    add("trellis 3/4", 144, Trellis34.encode)
    add("Golay(20,8,7)", 8, Golay2087.generate)
    add("QR(16,7,6)", 7, QuadraticResidue1676.generate)
    for H in (Hamming743, Hamming1393, Hamming15113, Hamming16114, Hamming17123):
        add(f"Hamming({H.CODEWORD_LENGTH},{H.CODE_DIMENSION})", H.CODE_DIMENSION, H.generate)
    for mname, mask in (("no", 0), ("voice LC header", CrcMasks.VoiceLCHeader.value), ("terminator", CrcMasks.TerminatorWithLC.value)):
        out.append((f"RS(12,9,4) {mname} mask", 72, (lambda m, mask=mask: to_bits(ReedSolomon1294.generate(m.tobytes(), mask.to_bytes(3, "big"))))))
    return out


def vbptc3211_words():
    """ALL code words VBPTC3211.encode yields: 2^11 messages x every option (both parity rows): [(message, options text, 32 bits)]"""
    if not _VBPTC3211:
        for name, k, enc in fec_encoders():
            if name.startswith("VBPTC(32,11)"):
                for m in range(2 ** k):
                    _VBPTC3211.append((m, name, enc(int2ba(m, length=k))))
    return list(_VBPTC3211)


_VBPTC3211 = []


def harvested_literals():
    """bit strings of the numeric (>= 256) / bytes / hex-string / 0-1-string literals in the CURRENT source of the anchored files and
    the codecs next to them: a constant that a changed parser compares payload content with stands in its source.  [(where, bits)]"""
    import ast
    import os
    import re

    import okdmr.dmrlib as _l

    root = os.path.dirname(os.path.abspath(_l.__file__))
    files = []
    for rel in ("etsi/layer2/burst.py", "etsi/layer2/pdu", "etsi/layer2/elements", "etsi/fec", "transmission/transmission_generator.py"):
        p = os.path.join(root, rel)
        if os.path.isdir(p):
            files += sorted(os.path.join(p, f) for f in os.listdir(p) if f.endswith(".py"))
        elif os.path.exists(p):
            files.append(p)
    seen = {}
    for f in files:
        try:
            tree = ast.parse(open(f, encoding="utf-8").read())
        except (OSError, SyntaxError, ValueError):
            continue
        for node in ast.walk(tree):
            if not isinstance(node, ast.Constant) or isinstance(node.value, bool):
                continue
            v, b = node.value, None
            if isinstance(v, int) and v >= 256:
                b = int2ba(v, length=8 * ((v.bit_length() + 7) // 8))
            elif isinstance(v, bytes) and len(v) >= 2:
                b = to_bits(v)
            elif isinstance(v, str) and re.fullmatch(r"(0x)?([0-9a-fA-F]{2}){3,33}", v):
                b = to_bits(bytes.fromhex(v[2:] if v.startswith("0x") else v))
            elif isinstance(v, str) and re.fullmatch(r"[01]{8,264}", v):
                b = bitarray(v)
            if b is not None and 8 <= len(b) <= 264 and b.to01() not in seen:
                seen[b.to01()] = f"{os.path.relpath(f, root)}:{node.lineno}"
    return [(w, bitarray(s)) for s, w in sorted(seen.items(), key=lambda t: (t[1], t[0]))][:400]


def fit32(w, rng):
    """32 embedded bits made of the word w: [(how, bits)]"""
    n = len(w)
    if n == 32:
        return [("the word", bitarray(w))]
    if n < 32:
        z = bitarray(32 - n)
        z.setall(0)
        return [("word + zeros", w + z), ("zeros + word", z + w), ("word + random bits", w + rbits(rng, 32 - n)), ("word repeated", (w * (32 // n + 1))[:32])]
    if n % 32 == 0:
        return [(f"fragment {i + 1} of {n // 32}", w[32 * i:32 * i + 32]) for i in range(n // 32)]
    return [(f"bits {o}..{o + 31}", w[o:o + 32]) for o in sorted({0, n - 32, (n - 32) // 2})]


def fit216(w, rng):
    """216 vocoder bits that hold the word w: [(how, bits)]"""
    n = len(w)
    if n == 264:
        return [("both burst halves, centre removed", w[:108] + w[156:])]
    if n > 216:
        return [("first 216 bits", w[:216]), ("last 216 bits", w[-216:])]
    out = []
    if n == 196:  # the payload positions of a data burst (slot type positions random)
        v = rbits(rng, 216)
        v[:98], v[118:] = w[:98], w[98:]
        out.append(("at the payload positions", v))
    offs = {0, 216 - n, (216 - n) // 2}
    if n <= 108:
        offs |= {108 - n, 108, 72 if n <= 72 else 0, 144 if n <= 72 else 0}
    if n <= 20:
        offs.add(98)
    for o in sorted(offs):
        v = rbits(rng, 216)
        v[o:o + n] = w
        out.append((f"at vocoder bit {o}", v))
    if n < 216:
        out.append(("repeated to fill the vocoder bits", (w * (216 // n + 1))[:216]))
    return out


def valid_check_fields(kname, var, vals):
    """the field values with the check field left to the library: CRC generated by the constructor, RS(12,9,4) parity of a full LC
    generated by ReedSolomon1294 with the mask of the data type - the payload a transmitter sends"""
    v = dict(vals)
    if kname == "csbk":
        v["crc"] = 0
    elif kname == "dh":
        v["crc"] = "0" * 16
    elif kname in ("vlc", "tlc"):
        from okdmr.dmrlib.etsi.fec.reed_solomon_12_9_4 import ReedSolomon1294
        from okdmr.dmrlib.etsi.layer2.elements.crc_masks import CrcMasks

        mask = (CrcMasks.VoiceLCHeader if kname == "vlc" else CrcMasks.TerminatorWithLC).value.to_bytes(3, "big")
        lc = var.build(dict(v, crc="0" * 24)).as_bits()[:72]
        v["crc"] = to_bits(ReedSolomon1294.generate(lc.tobytes(), mask)[9:]).to01()
    elif "crc9" in v:
        v["crc9"] = 0
    return v


def data_donors(rng, per):
    """library-serialised data bursts as donors: per payload kind x variant `per` content descriptions (colour code and data sync
    rotating, check fields generated)"""
    voice, data, other = sync_sets()
    out, k = [], 0
    for kname, dt, src, _t in payload_sources():
        for var in src.variants:
            for _ in range(per):
                k += 1
                c = data_content(rng, kname, src, var, (5 * k + k // 16) % 16, data[k % 4])
                c["fields"], err = call(valid_check_fields, kname, var, c["fields"])
                if not err:
                    out.append(c)
    return out


def transplant_variants(rng, x, cc, slot_types):
    """216 vocoder bits made of the two halves of the data burst x: as serialised; one FEC-correctable step away (a sniffing parser
    that repairs first); the slot type word of other data types over the same payload; payload without / slot type without the
    other; complemented.  [(how, vocoder bits)]"""
    Burst, BT, DT, SP, ST, EMB = lib()

    def halves(y):
        return y[:108] + y[156:]

    out = [("as serialised", halves(x))]
    out.append(("slot type word with one bit inverted", halves(flipped(x, [rng.choice(SLOT_POS)]))))
    out.append(("payload with 1-2 bits inverted", halves(flipped(x, rng.sample(INFO_POS, rng.choice((1, 2)))))))
    for dtm in slot_types:
        w, err = call(lambda: ST(colour_code=cc, data_type=dtm).as_bits())
        if not err:
            y = bitarray(x)
            y[98:108], y[156:166] = w[:10], w[10:]
            out.append((f"slot type word of {dtm.name} over the same payload", halves(y)))
    y = bitarray(x)
    for i in SLOT_POS:
        y[i] = rng.getrandbits(1)
    out.append(("payload only (slot type positions random)", halves(y)))
    y = bitarray(x)
    for i in INFO_POS:
        y[i] = rng.getrandbits(1)
    out.append(("slot type word only (payload positions random)", halves(y)))
    out.append(("complemented", halves(~x)))
    return out


def lc_fragments(rng, n):
    """embedded LC as a transmitter sends it: n full LCs (every variant of the C03 generator in turn) -> VBPTC12873.encode -> four
    32-bit fragments with the LCSS the standard gives them (first 1, continuation 3, 3, last 2): [(what, [(lcss, 32 bits)] * 4)]"""
    from okdmr.dmrlib.etsi.fec.vbptc_128_72 import VBPTC12873

    ks = payload_text.kinds or {k.name: k for k in c03.kinds()}
    out = []
    for i in range(n):
        var = ks["flc"].variants[i % len(ks["flc"].variants)]
        vals = var.random_vals(rng)
        if var.fix:
            vals = var.fix(vals)
        vals["crc"] = "0" * 24
        r, err = call(lambda: to_bits(VBPTC12873.encode(var.build(vals).as_bits()[:72])))
        if not err and len(r) == 128:
            out.append((f"embedded LC ({var.name})", [(lcss, r[32 * j:32 * j + 32]) for j, lcss in enumerate((1, 3, 3, 2))]))
    return out


def short_lc_words(rng, n):
    """short LC (CACH) words: ShortLinkControl built by the library (CRC-8 generated) -> VBPTC6828.encode -> 68 bits"""
    from okdmr.dmrlib.etsi.fec.vbptc_68_28 import VBPTC6828

    ks = payload_text.kinds or {k.name: k for k in c03.kinds()}
    out = []
    for i in range(n):
        var = ks["slc"].variants[i % len(ks["slc"].variants)]
        vals = dict(var.random_vals(rng), crc="0" * 8)
        r, err = call(lambda: to_bits(VBPTC6828.encode(var.build(vals).as_bits()[:28])))
        if not err:
            out.append((f"short LC ({var.name}) VBPTC(68,28) word", r))
    return out


def word_dictionary(rng, per):
    """named bit strings the library serialises for something else (besides whole data bursts): code words of every FEC encoder x
    option (zero / all-ones / random messages), short LC words, sync patterns, EMB and slot type words, literals of the source"""
    Burst, BT, DT, SP, ST, EMB = lib()
    voice, data, other = sync_sets()
    out = []
    for name, k, enc in fec_encoders():
        msgs = [bitarray("0" * k), bitarray("1" * k)] + [rbits(rng, k) for _ in range(per)]
        for m in msgs:
            w, err = call(enc, m)
            if not err:
                out.append((f"{name} code word", w))
    out += short_lc_words(rng, 2 * per)
    for s in voice + data + other:
        out.append((f"sync pattern {s.name}", s.as_bits()))
    for cc, pi, lcss, e16 in rng.sample(emb_table(), 2 * per):
        out.append((f"EMB word cc={cc} pi={pi} lcss={lcss}", bitarray(e16)))
        out.append((f"EMB word cc={cc} pi={pi} lcss={lcss} and its complement", e16 + ~e16))
    for _ in range(2 * per):
        cc, dtm = rng.randrange(16), rng.choice([m for m in DT])
        w, err = call(lambda: ST(colour_code=cc, data_type=dtm).as_bits())
        if not err:
            out.append((f"slot type word cc={cc} {dtm.name}", w))
    for where, b in harvested_literals():
        out.append((f"literal at {where}", b))
    return out


def popcount_word(rng, n, k):
    """n bits of which exactly k are set"""
    b = bitarray(n)
    b.setall(0)
    for i in rng.sample(range(n), k):
        b[i] = 1
    return b


def derived_embedded(rng, v):
    """32 embedded bits that are a function of the vocoder bits v of the same burst (correlation between unrelated parts)"""
    import zlib

    fold = bitarray(32)
    fold.setall(0)
    for i in range(0, 192, 32):
        fold ^= v[i:i + 32]
    return [("first 32 vocoder bits", v[:32]), ("vocoder bits left of the centre", v[76:108]), ("vocoder bits right of the centre", v[108:140]),
            ("last 32 vocoder bits", v[-32:]), ("CRC-32 of the vocoder octets", int2ba(zlib.crc32(v.tobytes()), length=32)), ("XOR of the vocoder words", fold),
            ("complement of the vocoder bits left of the centre", ~v[76:108])]


def foreign_blocks(rng, x_voice, pdus):
    """octet strings for the data field of a block that are something else: the payload positions of a voice burst, whole PDUs the
    library serialised (a block equal to the transmission's own header), a BPTC code word, sync patterns"""
    voice, data, other = sync_sets()
    info = x_voice[:98] + x_voice[166:]
    out = [("the bits of a voice burst at the payload positions", info[:96] + info[100:])]
    for name, b in pdus:
        out.append((f"{name} twice", b + b))
    s1, s2, s3, s4 = (s.as_bits() for s in rng.sample(voice + data + other, 4))
    out.append(("four sync patterns", s1 + s2 + s3 + s4))
    return out


def fill_octets(b, n):
    """n octets from the bit string b (cut / repeated)"""
    b = (b * (8 * n // len(b) + 1))[:8 * n]
    return b.tobytes().hex()


def check_sequence(r, inp, pairs, hold=None):
    """bursts parsed one after the other (a voice superframe: embedded LC fragments in order); every burst survives parse-then-
    serialise at once, and every parse result still serialises to its own bits after all the others were parsed"""
    Burst, BT, DT, SP, ST, EMB = lib()
    kept = []
    for i, xs in enumerate(inp["bursts"]):
        x = bitarray(xs)
        q, err = call(Burst.from_bytes, x.tobytes(), getattr(BT, BT_NAMES[inp["burst_type"]]))
        if err:
            r.fail("parse-raises", inp, f"burst {i} of the sequence: parsing raised {err}", actual=err)
            pairs.append((f"burst.parse {inp['burst_type']} {xs}", err))
            continue
        pairs.append((f"burst.parse {inp['burst_type']} {xs}", parse_text(q)))
        got = bits_or_err(q)
        if got != xs:
            r.fail("voice-roundtrip", dict(inp, burst=i), f"burst {i} of the sequence ({inp.get('class', '')}) does not survive parse-then-serialise", expected=xs, actual=got)
            continue
        kept.append((i, q, xs))
        if hold is not None:
            hold.offer(q, x.tobytes(), None, dict(inp, burst=i))
    for i, q, xs in kept:
        got = bits_or_err(q)
        if got != xs:
            r.fail("reuse-held-object-changed", dict(inp, burst=i, history="the later bursts of the sequence were parsed"),
                   f"burst {i} of the sequence serialises differently after the following bursts were parsed", expected=xs, actual=got)


def check_foreign(ctx, hold):
    Burst, BT, DT, SP, ST, EMB = lib()
    rng = ctx.rng
    voice, data, other = sync_sets()
    embs = emb_table()
    emb_of = {(cc, pi, lcss): e16 for cc, pi, lcss, e16 in embs}
    pairs, pairs_build, pairs_parse, pairs_entry = [], [], [], []
    full = ctx.thorough()
    n = [0]

    def centre_emb(cc, pi, lcss, e32):
        e16 = emb_of[(cc, pi, lcss)]
        return e16[:8] + e32 + e16[8:]

    def probe(v, centre, bts, what, cls, keep=4, reuse=False, donor=None):
        """one voice burst through the round-trip oracle for every announced burst type of bts; every keep-th goes to the model, too
        (donor: the 264 bits whose halves v is - the model then builds the burst itself: driver op burst.transplant)"""
        x = voice_frame(v, centre)
        xs = c03.sbits(x)
        for bt in bts:
            n[0] += 1
            ctx.case(("foreign", bt, xs))
            sink = []
            check_voice(ctx, x, bt, what, {"mode": "voice", "bits": xs, "burst_type": bt, "class": cls}, sink, hold=hold, twice=reuse)
            if n[0] % keep == 0:
                pairs.extend((f"burst.transplant {bt} {c03.sbits(donor)} {c03.sbits(centre)}", o) if donor is not None else (l, o) for l, o in sink)
        return x

    # ---- (1) vocoder bits = the two halves of a library-serialised data burst, every payload kind x variant (check fields valid)
    words = vbptc3211_words()
    fam_names = list(dict.fromkeys(name for _m, name, _w in words))
    by_fam = {f: [w for _m, name, w in words if name == f] for f in fam_names}
    per = 4 if ctx.thorough() else 2
    donors = data_donors(rng, per)
    pi_halves = []
    all_dt = [m for m in DT]
    entry_pool, seen_kinds = [], set()

    def embedded_of(ek):
        """embedded bits of a transplant: random / null / a code word of each VBPTC(32,11) family (a reverse channel word)"""
        return rbits(rng, 32) if ek == 0 else bitarray("0" * 32) if ek == 1 else rng.choice(by_fam[fam_names[ek - 2]])

    for k, c in enumerate(donors):
        r, err = call(content_bits, c)
        if err:
            continue  # reported by the plain data path
        x, view = r
        first = k % per == 0
        if c["kind"] == "pi":
            pi_halves.append(x[:108] + x[156:])
        slot_types = all_dt if (first and (ctx.thorough() or c["kind"] in ("pi", "csbk", "rate34"))) else rng.sample(all_dt, 2)
        for j, (how, v) in enumerate(transplant_variants(rng, x, c["cc"], slot_types) if first else [("as serialised", x[:108] + x[156:])]):
            cls = f"vocoder bits = the halves of a serialised {c['kind']}/{c['variant']} data burst (cc={c['cc']}, {c['sync']}), {how}"
            ctx.count(f"foreign:vocoder=data-burst:{c['kind']}")
            ctx.count(f"foreign:vocoder=data-burst:{how.split(' over ')[0].split(' (')[0]}")
            if j == 0 and first:
                # the complete cross: colour code of the EMB equal to / different from the slot type's x PI x every LCSS x embedded bits
                # random / null / a code word of each VBPTC(32,11) family x announced V / U
                combos = [(same, pi_e, lcss, ek) for same in (1, 0) for pi_e in (0, 1) for lcss in range(4) for ek in range(2 + len(fam_names))]
            else:
                combos = [(rng.randrange(2), rng.randrange(2), lcss, rng.randrange(2 + len(fam_names))) for lcss in range(4)]
            for same, pi_e, lcss, ek in combos:
                cc_e = c["cc"] if same else (c["cc"] + 1 + rng.randrange(15)) % 16
                xv = probe(v, centre_emb(cc_e, pi_e, lcss, embedded_of(ek)), ("V", "U"), f"EMB cc={cc_e} pi={pi_e} lcss={lcss}", cls + f"; EMB cc={cc_e} pi={pi_e} lcss={lcss}",
                           reuse=(j == 0 and (same, pi_e, ek) == (1, 0, 0)), donor=x if j == 0 else None)
                if j == 0 and first and (same, pi_e, ek) == (lcss % 2, lcss // 2, lcss):
                    # announced as data: outside the property (the data path on a burst without data sync), correspondence only
                    q, out = impl_parse(xv, "D")
                    pairs.append((f"burst.parse D {c03.sbits(xv)}", out))
                    entry_pool.append((xv, cls, c["kind"] not in seen_kinds or (len(entry_pool) // 4 + lcss) % 4 == 0))
            for s_ in (voice if j == 0 else [voice[(k + j) % 4]]):
                probe(v, s_.as_bits(), ("V", "U", "D"), f"sync {s_.name}", cls + f"; {s_.name}", donor=x if j == 0 else None)
            for s_ in (other if j == 0 else [other[(k + j) % len(other)]]):
                probe(v, s_.as_bits(), ("V", "U"), f"sync {s_.name}", cls + f"; {s_.name}")
        seen_kinds.add(c["kind"])
    # ---- (2) the 32 embedded bits = every code word of VBPTC(32,11) (all 2^11 messages x both parity rows: reverse channel words): with
    # LCSS 0 all of them x PI x announced V / U, with the other LCSS a share; neighbours and cosets of the code words; vocoder bits
    # random / a serialised PI header burst
    stride = 1 if ctx.thorough() else 4 if ctx.boost > 1 else 8
    for i, (m, name, w) in enumerate(words):
        for lcss in range(4):
            if lcss and (i + lcss) % stride:
                continue
            for pi_e in ((0, 1) if lcss == 0 or ctx.thorough() else ((i >> 4) % 2,)):
                cc_e = (i + 3 * lcss + 5 * pi_e) % 16
                v = rbits(rng, 216) if i % 16 or not pi_halves else pi_halves[(i // 16) % len(pi_halves)]
                ctx.count(f"foreign:embedded={name}:lcss={lcss}")
                probe(v, centre_emb(cc_e, pi_e, lcss, w), ("V", "U") if lcss == 0 or ctx.thorough() else ("VU"[(i + lcss) % 2],),
                      f"EMB cc={cc_e} pi={pi_e} lcss={lcss}", f"embedded bits = {name} code word of message {m:011b}; EMB cc={cc_e} pi={pi_e} lcss={lcss}", keep=16)
    fams = {}
    for m, name, w in words:  # (the families' difference is read off the library's own words: message 0 under every option)
        if m == 0:
            fams[name] = w
    names = list(fams)
    masks = [("all bits inverted", bitarray("1" * 32))]
    for a in range(len(names)):
        for b in range(a + 1, len(names)):
            d = fams[names[a]] ^ fams[names[b]]
            if d.any() and not d.all():
                masks.append((f"the bits inverted on which '{names[a]}' and '{names[b]}' agree for message 0", ~d))
    sample = rng.sample(words, min(len(words), ctx.budget(384, 4096) // ctx.boost or 1))
    for i, (m, name, w) in enumerate(sample):
        near = [("one bit inverted", flipped(w, [rng.randrange(32)])), ("two bits inverted", flipped(w, rng.sample(range(32), 2)))]
        near += [(mname, w ^ mask) for mname, mask in masks]
        for how, e32 in near:
            lcss = 0 if i % 2 else rng.randrange(4)
            cc_e, pi_e = rng.randrange(16), rng.randrange(2)
            ctx.count(f"foreign:embedded=VBPTC(32,11) neighbour:{how.split(' of ')[0]}")
            probe(rbits(rng, 216), centre_emb(cc_e, pi_e, lcss, e32), (rng.choice("VU"),), f"EMB cc={cc_e} pi={pi_e} lcss={lcss}",
                  f"embedded bits = {name} code word of message {m:011b} with {how}; EMB cc={cc_e} pi={pi_e} lcss={lcss}", keep=8)
    # ---- (3) embedded LC: the four fragments of VBPTC(128,72) words with the LCSS the standard gives them, and with every LCSS;
    # as a sequence of bursts B..E of one superframe after burst A (voice sync), burst F with a reverse channel word / null
    for what, frags in lc_fragments(rng, ctx.budget(6, 60) // ctx.boost or 1):
        cc_e, pi_e = rng.randrange(16), 0
        seq = [voice_frame(rbits(rng, 216), rng.choice(voice).as_bits())]
        for j, (lcss, f) in enumerate(frags):
            for l2 in range(4):
                ctx.count(f"foreign:embedded=LC fragment:lcss={l2}")
                x = probe(rbits(rng, 216), centre_emb(cc_e, pi_e, l2, f), ("V", "U") if l2 == lcss else (rng.choice("VU"),), f"EMB cc={cc_e} pi={pi_e} lcss={l2}",
                          f"embedded bits = fragment {j + 1} of 4 of an {what}; EMB cc={cc_e} pi={pi_e} lcss={l2}", keep=2)
                if l2 == lcss:
                    seq.append(x)
        m, name, w = rng.choice(words)
        seq.append(voice_frame(rbits(rng, 216), centre_emb(cc_e, 1, 0, w)))
        for order in ("in order", "fragments reversed"):
            ss = seq if order == "in order" else [seq[0]] + seq[4:0:-1] + [seq[5]]
            for bt in ("V", "U"):
                inp = {"mode": "sequence", "bursts": [c03.sbits(x) for x in ss], "burst_type": bt,
                       "class": f"voice superframe A..F, {what} in bursts B..E ({order}), {name} code word in burst F"}
                ctx.case(("foreign-sequence", json.dumps(inp, sort_keys=True)))
                ctx.count("foreign:sequence=voice superframe with embedded LC")
                check_sequence(ctx, inp, pairs, hold=hold)
    # ---- (4) every other word of the dictionary in the embedded bits and in the vocoder bits (every placement) x every LCSS / sync
    dic = word_dictionary(rng, ctx.budget(2, 12) // ctx.boost or 1)
    for i, (name, w) in enumerate(dic):
        fam_ = name.split(" code word")[0] if " code word" in name else " ".join(name.split(" ")[:2]).split(" cc=")[0]
        for how, e32 in fit32(w, rng):
            for lcss in range(4):
                cc_e, pi_e = rng.randrange(16), rng.randrange(2)
                ctx.count(f"foreign:embedded={fam_}")
                probe(rbits(rng, 216), centre_emb(cc_e, pi_e, lcss, e32), ("VU"[(i + lcss) % 2],), f"EMB cc={cc_e} pi={pi_e} lcss={lcss}",
                      f"embedded bits = {name}, {how}; EMB cc={cc_e} pi={pi_e} lcss={lcss}", keep=8)
        for j, (how, v) in enumerate(fit216(w, rng)):
            ctx.count(f"foreign:vocoder={fam_}")
            cls = f"vocoder bits hold {name} {how}"
            cc_e, pi_e, lcss = rng.randrange(16), rng.randrange(2), (i + j) % 4
            probe(v, centre_emb(cc_e, pi_e, lcss, rbits(rng, 32)), ("V", "U"), f"EMB cc={cc_e} pi={pi_e} lcss={lcss}", cls + f"; EMB cc={cc_e} pi={pi_e} lcss={lcss}", keep=8)
            s = (voice + other)[(i + j) % (len(voice) + len(other))]
            probe(v, s.as_bits(), ("V", "U", "D") if s in voice else ("V", "U"), f"sync {s.name}", cls + f"; {s.name}", keep=8)
    # ---- (5) derived quantities and relations between the parts of one burst: population count of the embedded / vocoder bits swept,
    # repeated sub-blocks (three equal vocoder frames, equal halves), embedded bits that are a function of the vocoder bits
    for kpop in range(33):
        lcss = kpop % 4
        cc_e, pi_e = rng.randrange(16), rng.randrange(2)
        ctx.count("foreign:derived=population count of the embedded bits")
        probe(rbits(rng, 216), centre_emb(cc_e, pi_e, lcss, popcount_word(rng, 32, kpop)), ("VU"[kpop % 2],), f"EMB cc={cc_e} pi={pi_e} lcss={lcss}",
              f"embedded bits with exactly {kpop} ones; EMB cc={cc_e} pi={pi_e} lcss={lcss}", keep=8)
    for kpop in range(0, 217, 1 if full else 3):
        ctx.count("foreign:derived=population count of the vocoder bits")
        v = popcount_word(rng, 216, kpop)
        if kpop % 2:
            cc_e, pi_e, lcss = rng.randrange(16), rng.randrange(2), rng.randrange(4)
            probe(v, centre_emb(cc_e, pi_e, lcss, rbits(rng, 32)), ("VU"[kpop % 4 // 2],), f"EMB cc={cc_e} pi={pi_e} lcss={lcss}", f"vocoder bits with exactly {kpop} ones; EMB", keep=8)
        else:
            s = voice[kpop // 2 % 4]
            probe(v, s.as_bits(), ("VUD"[kpop // 2 % 3],), f"sync {s.name}", f"vocoder bits with exactly {kpop} ones; {s.name}", keep=8)
    for i in range(ctx.budget(12, 120) // ctx.boost or 1):
        f72, h108 = rbits(rng, 72), rbits(rng, 108)
        for how, v in (("three equal vocoder frames", f72 * 3), ("two equal halves", h108 * 2), ("second half the complement of the first", h108 + ~h108),
                       ("second half the first reversed", h108 + h108[::-1])):
            ctx.count("foreign:derived=repeated sub-blocks")
            cc_e, pi_e, lcss = rng.randrange(16), rng.randrange(2), i % 4
            probe(v, centre_emb(cc_e, pi_e, lcss, v[:32] if i % 2 else rbits(rng, 32)), ("VU"[i % 2],), f"EMB cc={cc_e} pi={pi_e} lcss={lcss}", f"vocoder bits: {how}; EMB", keep=8)
            probe(v, voice[i % 4].as_bits(), ("VUD"[i % 3],), f"sync {voice[i % 4].name}", f"vocoder bits: {how}; {voice[i % 4].name}", keep=8)
        v = rbits(rng, 216)
        for how, e32 in derived_embedded(rng, v):
            ctx.count("foreign:derived=embedded bits a function of the vocoder bits")
            cc_e, pi_e, lcss = rng.randrange(16), rng.randrange(2), rng.randrange(4)
            probe(v, centre_emb(cc_e, pi_e, lcss, e32), ("VU"[i % 2],), f"EMB cc={cc_e} pi={pi_e} lcss={lcss}", f"embedded bits = {how}; EMB cc={cc_e} pi={pi_e} lcss={lcss}", keep=8)
        # the burst's own EMB word again in the embedded bits / its own centre again in the vocoder bits
        cc_e, pi_e, lcss = rng.randrange(16), rng.randrange(2), i % 4
        e16 = emb_of[(cc_e, pi_e, lcss)]
        for how, e32 in (("its own EMB word twice", e16 + e16), ("its own EMB word and the complement", e16 + ~e16), ("its own EMB word between zeros", bitarray("0" * 8) + e16 + bitarray("0" * 8))):
            ctx.count("foreign:derived=embedded bits repeat the EMB word of the same burst")
            centre = centre_emb(cc_e, pi_e, lcss, e32)
            probe(rbits(rng, 216), centre, ("VU"[i % 2],), f"EMB cc={cc_e} pi={pi_e} lcss={lcss}", f"embedded bits = {how}; EMB cc={cc_e} pi={pi_e} lcss={lcss}", keep=8)
            ctx.count("foreign:derived=vocoder bits repeat the centre of the same burst")
            probe((centre * 5)[:216], centre, ("V", "U"), f"EMB cc={cc_e} pi={pi_e} lcss={lcss}", f"vocoder bits = the burst's own centre repeated, embedded bits = {how}; EMB cc={cc_e} pi={pi_e} lcss={lcss}", keep=8)
        s_ = (voice + other)[i % (len(voice) + len(other))]
        ctx.count("foreign:derived=vocoder bits repeat the centre of the same burst")
        probe((s_.as_bits() * 5)[:216], s_.as_bits(), ("V", "U", "D") if s_ in voice else ("V", "U"), f"sync {s_.name}", f"vocoder bits = the burst's own sync pattern {s_.name} repeated", keep=8)
    # ---- (6) the transplanted bursts through the other entry points of the library (announced as vocoder by the frame): every payload
    # kind x variant through from_mmdvm, from_hytera_ipsc and one of the constructor forms / copies
    specs = [e for e in entry_specs(rng) if announced(e) == "V"]
    fams_e = [[e for e in specs if e["via"] == "from_mmdvm"], [e for e in specs if e["via"] == "from_hytera_ipsc"],
              [e for e in specs if e["via"] not in ("from_mmdvm", "from_hytera_ipsc")]]
    for i, (xv, cls, chosen) in enumerate(entry_pool):
        if not ctx.thorough() and not chosen:  # (quick: all four EMB combinations for the first variant of every kind, one - rotating - for the others)
            continue
        for es in fams_e:
            e = rng.choice(es)
            inp = {"mode": "entry", "entry": e, "content": {"bits": c03.sbits(xv), "what": "voice-emb", "centre": "EMB", "class": cls}, "attrs": None}
            ctx.case(("foreign-entry", json.dumps(inp, sort_keys=True)))
            ctx.count(f"foreign:entry:{e['via']}")
            check_entry(ctx, inp, pairs_entry, hold=hold)
    # ---- (7) data blocks whose octets are something else: a voice burst's bits, PDUs the library serialised, a BPTC code word that
    # fits a rate 1 block; a PI header whose 80 bits + CRC are the bits of another PDU; all three announced burst types
    pdus = []
    for c in rng.sample(donors, min(len(donors), 6)):
        r, err = call(content_bits, c)
        if not err and r[1] is not None and len(r[1][2].as_bits()) == 96:
            pdus.append((f"the 96 bits of a serialised {c['kind']}/{c['variant']}", r[1][2].as_bits()))
    x_voice = voice_frame(rbits(rng, 216), rng.choice(voice).as_bits())
    blocks = foreign_blocks(rng, x_voice, pdus)
    from okdmr.dmrlib.etsi.fec.bptc_196_96 import BPTC19696

    for _ in range(64):  # a BPTC(196,96) code word with zeros where a rate 1 block has its four padding bits: a rate 1 payload that is also a coded PDU
        name, b = rng.choice(pdus) if pdus and rng.random() < 0.5 else ("96 random bits", rbits(rng, 96))
        w, err = call(lambda: to_bits(BPTC19696.encode(bitarray(b))))
        if not err and not w[96:100].any():
            blocks.append((f"BPTC(196,96) code word of {name} without its bits 96..99 (all zero)", w[:96] + w[100:]))
            break
    k = 0
    for kname, dt, src, tname in payload_sources():
        if not kname.startswith("rate") and kname != "pi":
            continue
        var = src.variants[0]
        dl = len(var.random_vals(rng)["data"]) // 2
        for how, b in blocks:
            k += 1
            if not full and tname not in (None, "unconfirmed") and k % 3:
                continue
            vals = dict(var.random_vals(rng), data=fill_octets(b, dl))
            if kname == "pi":
                vals["crc"] = 0
            cc, s = rng.randrange(16), rng.choice(data)
            ctx.case((kname, var.name, json.dumps(vals, sort_keys=True), cc, s.name))
            ctx.count(f"foreign:block-octets:{kname}")
            check_data(ctx, kname, dt, src, var, vals, cc, s, pairs_build, pairs_parse, bts=("D", "V", "U"), hold=hold,
                       extra={"class": f"the data octets are {how}"})
        if kname.startswith("rate") and (full or tname == "unconfirmed"):
            for s in data:  # the block repeats the sync pattern the burst itself is sent with
                vals = dict(var.random_vals(rng), data=fill_octets(s.as_bits(), dl))
                cc = rng.randrange(16)
                ctx.case((kname, var.name, json.dumps(vals, sort_keys=True), cc, s.name))
                ctx.count(f"foreign:block-octets:{kname}")
                check_data(ctx, kname, dt, src, var, vals, cc, s, pairs_build, pairs_parse, bts=("D", "V", "U"), hold=hold,
                           extra={"class": f"the data octets repeat the burst's own sync pattern {s.name}"})
    if not ctx.search_only and ctx.driver_ok:
        ctx.correspond("burst.parse(foreign content)", pairs)
        ctx.correspond("burst.entry(foreign content)", pairs_entry)
        ctx.correspond("burst.build(foreign content)", pairs_build)
        ctx.correspond("burst.parse(foreign blocks)", pairs_parse)


# ------------------------------------------------------------------------------------------------
# history / object-identity probes (harness/histories.py): Burst assemble / serialise / parse, described once
def ENTRY_POINTS():
    import histories as H

    Burst, BT, DT, SP, ST, EMB = lib()
    init_kinds()
    voice, data, other = sync_sets()
    sources = payload_sources()
    rate_dts = [DT.Rate12Data, DT.Rate34Data, DT.Rate1Data]
    slot_dts = [DT.CSBK, DT.DataHeader, DT.VoiceLCHeader, DT.TerminatorWithLC, DT.PIHeader, DT.Idle, DT.MBCHeader, DT.MBCContinuation] + rate_dts

    def view(q):
        t, err = call(parse_text, q)
        return {"text": err or t, "fields": H.canon(q)}

    def payload(rng):
        kname, dt, src, vname = rng.choice(sources)
        vs = [v for v in src.variants if vname is None or v.name == vname] or src.variants
        v = rng.choice(vs)
        vals = v.random_vals(rng)
        if v.fix:
            vals = v.fix(vals)
        if kname in ("vlc", "tlc") and len(vals.get("crc", "")) != 24:
            vals["crc"] = c03.BITS(24).rand(rng)
        if kname.startswith("rate") and rng.random() < 0.35 and "data" in vals:
            vals["data"] = "00" * (len(vals["data"]) // 2)  # zero payloads under every data type
        return v.build(vals), dt

    def build_args(rng):
        p, dt = payload(rng)
        return (p, rng.randrange(16), dt, rng.choice(data))

    def retyped(x, cc, dt):
        y = bitarray(x)
        w = ST(colour_code=cc, data_type=dt).as_bits()
        for i, pos in enumerate(SLOT_POS):
            y[pos] = w[i]
        return y

    def zeroed(x):
        y = bitarray(x)
        for pos in INFO_POS:
            y[pos] = 0
        return y

    def wire_args(rng):
        r = rng.random()
        if r < 0.12:
            x = int2ba(rng.getrandbits(264), length=264)
            x[108:156] = int2ba(rng.choice(voice).value, length=48)
            return (x.tobytes(), BT.Vocoder if rng.random() < 0.5 else BT.Undefined)
        if r < 0.16:
            return (Burst(burst_type=BT.DataAndControl).as_bytes() if rng.random() < 0.5 else bytes(33), rng.choice([BT.Undefined, BT.DataAndControl]))
        b = assemble(*build_args(rng)).as_bits()
        if r < 0.3:
            b = zeroed(b)
        return (b.tobytes(), rng.choice([BT.Undefined, BT.DataAndControl]))

    def wire_near(args, rng):
        """the same info bits under every other data type; the all-zero info field under every data type (same key of a cache that omits the data type)"""
        by, bt = args
        x = bitarray(endian="big")
        x.frombytes(bytes(by))
        x = x[:264]
        cc = rng.randrange(16)
        out = []
        for dt in rate_dts + [DT.CSBK, DT.PIHeader]:
            out.append((f"all-zero info field as {dt.name}", (retyped(zeroed(x), cc, dt).tobytes(), bt)))
        for dt in slot_dts:
            out.append((f"same info bits as {dt.name}", (retyped(x, cc, dt).tobytes(), bt)))
        return out

    ser = lambda o: o.as_bytes()  # noqa: E731
    skip = ("_created",)
    return [
        H.EP("burst.assemble", assemble, build_args, kind="build", serialise=ser, canon=view, edit_skip=skip, draws=2,
             probes=("repeat", "argument-kept", "result-edit", "twin", "rebuilt", "same-object", "held", "interleave")),
        H.EP("burst.from_bytes", Burst.from_bytes, wire_args, kind="parse", serialise=ser, canon=view, near=wire_near, edit_skip=skip, draws=3),
        H.EP("burst.from_bits", lambda by, bt: Burst.from_bits(c03_bits(by), bt), wire_args, kind="parse", serialise=ser, canon=view, edit_skip=skip, domain="wire"),
    ]


def c03_bits(by):
    x = bitarray(endian="big")
    x.frombytes(bytes(by))
    return x[:264]


def run(ctx):
    Burst, BT, DT, SP, ST, EMB = lib()
    payload_text.kinds = {k.name: k for k in c03.kinds()}
    voice, data, other = sync_sets()
    ctx.rule = (
        "data bursts: every payload kind and variant of the C03 generator (CSBK x9, data header x5, voice LC header / terminator x5, PI header, "
        "rate 1/2, 3/4, 1 x 4 variants) built from fields (type-directed sweep: each field at 0 / max / walking ones / every enum member, plus "
        "random tuples), first tuple of every variant with all 16 colour codes x 4 data syncs, the others with random ones; parsed with "
        "every burst type; voice bursts: random 216 vocoder bits around every sync pattern x burst types and around valid EMB for all 128 "
        "(cc, PI, LCSS) x random 32 embedded bits; correspondence additionally on random 264-bit strings and 1-3 bit corruptions of valid "
        "bursts. structured: for every sync pattern S x every valid EMB word E the voice burst centre E[0:8]+S[8:40]+E[8:16] nearest to S, all "
        "single-bit and sampled 2-3-bit neighbours around the nearest EMB words, a screen of the centre lookup over all such centres with <= 2 "
        "flips, sync patterns inside the vocoder bits, valid slot type words at the slot type positions of voice bursts, rate 1 payloads "
        "holding a sync pattern. reuse histories on one Burst object for every kind / variant x 8 scripts (in-place payload mutation, slot "
        "type / sync / payload replacement, recycled payload address, parse-mutate-serialise, as_bits twice / returned bits scribbled), held "
        "objects re-verified at the end. provenance: every entry point yielding a Burst (constructor forms, from_bits, from_bytes with 5 buffer "
        "types, from_mmdvm 2 slots x 2 call types x 4 frame types + hand-edited ints, from_hytera_ipsc bytes / Kaitai x 2 timeslots x 16 slot "
        "types x call / frame / packet types, copy / deepcopy / pickle, generator functions) x all 10 sync patterns + EMB; attribute sweep: ~110 "
        "(attribute, value) tokens per object of every entry family x every sync + EMB, cumulative on one object, shuffled half of the time. "
        "ambient: a fixed sample (~100 inputs of every mode; thorough adds a seeded share) re-evaluated under 13 in-process settings and in one "
        "child interpreter python -O -bb -W error -X dev PYTHONOPTIMIZE=2. foreign content: vocoder bits = the halves of a serialised data "
        "burst of every payload kind x variant (valid check fields; 10+ mutations on the first donor of each variant) x complete cross "
        "(EMB colour code equal / different x PI x 4 LCSS x embedded bits random / null / VBPTC(32,11) word of each family x V / U) + every voice "
        "sync x V / U / D + other syncs; embedded bits = all 4096 VBPTC(32,11) words (both parity rows) with LCSS 0 x PI x V / U and every 8th "
        "with LCSS 1..3, 384 sampled words x 4 neighbours / cosets, embedded LC fragments x 4 LCSS and as superframe sequences, ~110 "
        "dictionary words (every FEC encoder x option, short LC, sync, EMB, slot type, source literals) x placements x LCSS / syncs; "
        "derived quantities; data blocks holding foreign objects x 13 block kinds x D / V / U. distinct = distinct (kind, variant, fields, cc, sync) / burst bit "
        "string / history spec / entry spec"
    )
    ctx.trusted_base += [
        "Lean 4.33 kernel",
        "tools/extract_burst.py (sync patterns, voice/data classification and resolution of the structured probe centres obtained by constructing Burst objects, data type values), extract_elements.py, extract.py (codes), extract_bptc.py, extract_trellis.py",
        "hand-written models Model/Burst.lean (+ Model/Bptc.lean of C02, Model/Trellis.lean of C10, Model/Pdu*.lean of C03) tied to the code by this run's correspondence",
        "CRC functions are parameters of the theorems; the driver's plain bitwise CRC is compared with the real code by the correspondence",
        "numpy / bitarray / enum are trusted as the substrate of the implementation",
        "the Kaitai-generated parsers Mmdvm2020 / IpSiteConnectProtocol and HyteraIPSC.from_ipsc_bytes / from_kaitai (C13) are trusted to hand the frame fields to Burst.from_mmdvm / from_hytera_ipsc; the model starts at the fields (frame type / slot as Enum member or int, IPSC slot / call / timeslot values, burst bits)",
        "ambient check: the harness' own oracle code runs in the child interpreter, too (asserts / docstrings of the harness are stripped there as well); the child imports the library from the same directory as the parent (verified)",
    ]
    ctx.assumptions += [
        "payload objects are what the PDU constructors build from in-range field values (C03's WF predicates); full LC in the 96-bit form",
        "the assembled burst object is the one TransmissionGenerator builds: Burst(DataAndControl) with has_emb=False, sync, SlotType(cc, data type), data assigned",
        "reuse histories change a payload by assigning its public attributes (to the values a constructor call with the new fields stores), replace slot_type / sync_or_embedded_signalling / data by new objects; slot type objects are not changed in place",
        "fec_parity_ok / emb_parity_ok / crc_ok (C04) are not compared",
        "attributes set by hand: those the model's serialisation does not read (Props/C01 serialise_reads_data / serialise_reads_voice / serialise_ignores_aux); has_slot_type of a data burst, has_emb, is_data_or_control select the serialisation path and are not swept; the two Hytera pseudo bursts (IPSC sync / wakeup) are outside the property: only 'a constructed one returns the bits it was given'",
        "foreign content: objects are harvested from the encoders and serialisers the library has today (a code the library cannot encode - AMBE frames, CACH TACT words, CRC-7 of reverse channel messages beyond what the exhaustive VBPTC(32,11) sweep contains - is not generated); sequences longer than one voice superframe are not run",
        "ambient settings are sampled (fixed ~100 inputs in quick), not swept over the whole generator; forced thread interleavings, bitarray / numpy versions, low recursion limits, little-endian containers are out of scope",
    ]
    rng = ctx.rng
    pairs_build, pairs_parse = [], []
    hist_entries = plain_entries(entry_specs(rng))
    hold = Hold(every=ctx.budget(23, 97) // ctx.boost or 1, cap=400)
    # ---- corpus: the three repaired C03 defects surface here as field mismatches
    ks = payload_text.kinds
    corpus = [
        ("csbk", DT.CSBK, ks["csbk"], "nackRsp", {"lb": 1, "pf": 0, "fid": 0, "crc": 0, "aif": 0, "st": 1, "svc": 4, "rc": 33, "src": 2623266, "tgt": 1234}),
        ("csbk", DT.CSBK, ks["csbk"], "aloha", {"lb": 0, "pf": 0, "fid": 0, "crc": 0, "tsccas": 1, "sync": 0, "dvc": 3, "off": 0, "act": 1, "mask": 21, "sf": 2,
                                                "nrand": 7, "reg": 1, "backoff": 5, "sys": 48879, "tgt": 2623266}),
        ("dh", DT.DataHeader, ks["dh"], "response", {"crc": "0" * 16, "A": 1, "sap": 4, "dst": 1234, "src": 2623266, "fmf": 1, "btf": 5, "cls": 2, "typ": 1, "status": 7}),
    ]
    for kname, dt, src, vname, vals in corpus:
        var = next(v for v in src.variants if v.name == vname)
        ctx.case(("corpus", kname, vname), sample={"kind": kname, "variant": vname, "fields": vals, "cc": 5, "sync": "BsSourcedData"})
        check_data(ctx, kname, dt, src, var, vals, 5, SP.BsSourcedData, pairs_build, pairs_parse, bts=("D", "V", "U"))
    # ---- data bursts from fields
    n_random = ctx.budget(12, 400)
    sweep_stride = ctx.budget(4, 1)  # take every n-th special value in quick
    for kname, dt, src, tname in payload_sources():
        for var in src.variants:
            if kname in ("vlc", "tlc"):
                fix = lambda v: dict(v, crc=(v["crc"] if len(v["crc"]) == 24 else c03.BITS(24).rand(rng)))
            else:
                fix = lambda v: v
            # all colour codes x data syncs on one tuple
            vals = fix(var.random_vals(rng))
            first = True
            full = ctx.thorough() or ctx.boost > 1 or var is src.variants[0]
            combos = [(cc, s) for cc in range(16) for s in data]
            if not full:
                # quick: the complete 16 x 4 grid on the first variant of every kind, a quarter of it on the others
                combos = [c for i, c in enumerate(combos) if i % 4 == (len(var.name) + i // 4) % 4]
            for cc, s in combos:
                if True:
                    ctx.case((kname, var.name, json.dumps(vals, sort_keys=True), cc, s.name),
                             sample={"kind": kname, "variant": var.name, "fields": vals, "cc": cc, "sync": s.name} if first and kname in ("csbk", "rate34") else None)
                    first = False
                    check_data(ctx, kname, dt, src, var, vals, cc, s, pairs_build, pairs_parse, bts=("D", "V", "U") if cc % 5 == 0 else ("D",), hold=hold)
            ctx.count(f"data:{kname}:{var.name}", len(combos))
            # type-directed sweep
            i = 0
            for fname, spec in var.fields:
                for sv in spec.specials(rng):
                    i += 1
                    if i % sweep_stride:
                        continue
                    vals = var.random_vals(rng)
                    vals[fname] = sv
                    if var.fix:
                        vals = var.fix(vals)
                    vals = fix(vals)
                    cc, s = rng.randrange(16), rng.choice(data)
                    ctx.case((kname, var.name, json.dumps(vals, sort_keys=True), cc, s.name))
                    ctx.count(f"data:{kname}:{var.name}")
                    check_data(ctx, kname, dt, src, var, vals, cc, s, pairs_build, pairs_parse, hold=hold)
            for _ in range(n_random):
                vals = fix(var.random_vals(rng))
                cc, s = rng.randrange(16), rng.choice(data)
                ctx.case((kname, var.name, json.dumps(vals, sort_keys=True), cc, s.name))
                ctx.count(f"data:{kname}:{var.name}")
                check_data(ctx, kname, dt, src, var, vals, cc, s, pairs_build, pairs_parse, bts=(rng.choice("DVU"),), hold=hold)
            # ---- object-reuse histories on one Burst object
            n_hist = 12 if ctx.thorough() else min(ctx.boost, 3)  # (not x8 when the search is boosted: each history costs ~10 ms)
            for script in HISTORY_SCRIPTS:
                for _ in range(n_hist):
                    vals1 = fix(var.random_vals(rng))
                    if var.fix:
                        vals1 = fix(var.fix(vals1))
                    if "crc" in vals1 and rng.random() < 0.5 and kname not in ("vlc", "tlc"):
                        vals1["crc"] = 0 if isinstance(vals1["crc"], int) else "0" * len(vals1["crc"])  # the constructor computes it
                    vals2 = vary(rng, var, vals1, fix)
                    cc1, cc2 = rng.sample(range(16), 2)
                    s1, s2 = rng.sample(data, 2)
                    spec = {"mode": "history", "script": script, "kind": kname, "c03kind": src.name, "variant": var.name, "fields": vals1,
                            "fields2": vals2, "cc": cc1, "cc2": cc2, "sync": s1.name, "sync2": s2.name}
                    if script.startswith("parse") and rng.random() < 0.6:
                        # the parsed object comes from another entry point of the library (MMDVM / IPSC frame of either timeslot, …)
                        spec["entry"] = rng.choice(hist_entries)
                        ctx.count(f"reuse:parsed-by:{spec['entry']['via']}")
                    ctx.case(("history", json.dumps(spec, sort_keys=True)),
                             sample=spec if (kname, var.name, script) in (("csbk", "preamble", "mutate-fields"), ("rate34", "unconfirmed", "parse-mutate")) else None)
                    ctx.count(f"reuse:{script}")
                    run_history(ctx, spec, pairs_build, pairs_parse)
        # ---- rate 1 payloads are on air as they are: blocks that hold a sync pattern (any alignment, across the 96/100 gap)
        if kname == "rate1" and (tname == "unconfirmed" or ctx.thorough() or ctx.boost > 1):
            var = src.variants[0]
            dl = len(var.random_vals(rng)["data"]) // 2
            for sp_ in voice + data + other:
                for off in sorted({0, 48, 72, 8 * dl - 48} | {rng.randrange(8 * dl - 47) for _ in range(ctx.budget(1, 6))}):
                    if off < 0 or off + 48 > 8 * dl:
                        continue
                    blk = int2ba(rng.getrandbits(8 * dl), length=8 * dl)
                    blk[off:off + 48] = sp_.as_bits()
                    vals = dict(var.random_vals(rng), data=blk.tobytes().hex())
                    cc, s = rng.randrange(16), rng.choice(data)
                    ctx.case((kname, var.name, json.dumps(vals, sort_keys=True), cc, s.name))
                    ctx.count("structured:rate1-payload-holds-sync")
                    check_data(ctx, kname, dt, src, var, vals, cc, s, pairs_build, pairs_parse, bts=("D", "U"), hold=hold,
                               extra={"class": f"payload holds {sp_.name} at bit {off}"})
    if not ctx.search_only and ctx.driver_ok:
        ctx.correspond("burst.build", pairs_build)
        ctx.correspond("burst.parse(data)", pairs_parse)
    valid = [l.split(" ")[2] for l, o in pairs_parse if isinstance(o, str) and o.startswith("ok")]
    # ---- voice bursts
    pairs_voice = []
    n_sync = ctx.budget(40, 2000)
    for s in voice + other + data:
        for i in range(n_sync if s in voice else max(4, n_sync // 8)):
            v = int2ba(rng.getrandbits(216), length=216) if i > 1 else bitarray([i] * 216)
            x = voice_frame(v, s.as_bits())
            for bt in ("V", "U", "D"):
                if s in voice or (s in other and bt != "D"):
                    ctx.case(("voice-sync", s.name, bt, c03.sbits(v)), sample={"sync": s.name, "burst_type": bt, "vocoder_bits": c03.sbits(v)} if i == 2 and bt == "V" else None)
                    ctx.count(f"voice:sync:{s.name}")
                    check_voice(ctx, x, bt, f"sync {s.name}", {"mode": "voice", "bits": c03.sbits(x), "burst_type": bt}, pairs_voice, hold=hold, twice=i % 8 == 3)
                else:
                    # outside the property (data path on arbitrary bits): correspondence only
                    q, out = impl_parse(x, bt)
                    pairs_voice.append((f"burst.parse {bt} {c03.sbits(x)}", out))
    n_emb = ctx.budget(2, 60)
    for cc in range(16):
        for pi in range(2):
            for lcss in range(4):
                e16 = emb_word(cc, pi, lcss)
                for i in range(n_emb):
                    v = int2ba(rng.getrandbits(216), length=216)
                    e32 = int2ba(rng.getrandbits(32), length=32) if i else bitarray([0] * 32)
                    x = voice_frame(v, e16[:8] + e32 + e16[8:])
                    for bt in ("V", "U"):
                        ctx.case(("voice-emb", cc, pi, lcss, bt, c03.sbits(v), c03.sbits(e32)),
                                 sample={"cc": cc, "pi": pi, "lcss": lcss, "burst_type": bt, "embedded_bits": c03.sbits(e32)} if (cc, pi, lcss, i, bt) == (5, 1, 2, 1, "V") else None)
                        ctx.count("voice:emb")
                        check_voice(ctx, x, bt, f"EMB cc={cc} pi={pi} lcss={lcss}", {"mode": "voice", "bits": c03.sbits(x), "burst_type": bt}, pairs_voice, hold=hold, twice=i == 1)
                    # announced as data: outside the property, correspondence only
                    if i == 0:
                        q, out = impl_parse(x, "D")
                        pairs_voice.append((f"burst.parse D {c03.sbits(x)}", out))
    # ---- structured voice bursts: minimal Hamming distance from every constant the parser compares the centre with
    all_syncs = voice + data + other
    values = {m.value: m for m in all_syncs}
    embs = emb_table()
    for s, (cc, pi, lcss), d, nflip, centre in near_sync_centres(rng, ctx.budget(8, 120), ctx.budget(0, 3) if ctx.thorough() else 0):
        v = int2ba(rng.getrandbits(216), length=216)
        x = voice_frame(v, centre)
        dist = hd(centre, s.as_bits())
        for bt in ("V", "U") if (nflip == 0 or dist <= 4) else (rng.choice("VU"),):
            ctx.case(("voice-near-sync", s.name, cc, pi, lcss, bt, c03.sbits(x)),
                     sample={"class": "EMB centre nearest to a sync", "sync": s.name, "cc": cc, "pi": pi, "lcss": lcss, "distance": dist, "burst_type": bt,
                             "centre": c03.sbits(centre)} if (nflip, bt) == (0, "V") and dist <= 2 else None)
            ctx.count(f"structured:emb-centre-near-sync:distance={dist if dist < 6 else '6+'}")
            check_voice(ctx, x, bt, f"EMB cc={cc} pi={pi} lcss={lcss}, centre {dist} bits from {s.name}",
                        {"mode": "voice", "bits": c03.sbits(x), "burst_type": bt, "class": f"valid EMB centre {dist} bits from sync {s.name}",
                         "emb": [cc, pi, lcss]}, pairs_voice, hold=hold)
    # the centre lookup itself on a much wider structured set; whatever it does not send to EmbeddedSignalling is a voice burst with
    # valid EMB taken for a sync burst: promoted to the full check (concrete failing burst)
    pairs_resolve, promoted = [], 0
    for k, (s, (cc, pi, lcss), c) in enumerate(resolve_screen_centres(rng, ctx.budget(300, 4960))):
        r, err = call(SP.resolve_bytes, c.to_bytes(6, "big"))
        out = err or ("EMB" if r.value < 0 else str(r.value))
        ctx.count("structured:centre-lookup-screen")
        check_sync_from_bits(ctx, SP, c, r, err)
        if k % 4 == 0 or out != "EMB":
            pairs_resolve.append((f"sync.resolve {c}", out))
        if out != "EMB" and c not in values and promoted < 64:
            promoted += 1
            ctx.count("structured:centre-lookup-screen:promoted")
            centre = int2ba(c, length=48)
            x = voice_frame(int2ba(rng.getrandbits(216), length=216), centre)
            for bt in ("V", "U"):
                ctx.case(("voice-screen", bt, c03.sbits(x)))
                check_voice(ctx, x, bt, f"EMB cc={cc} pi={pi} lcss={lcss}, centre {hd(centre, s.as_bits())} bits from {s.name} (found by the lookup screen)",
                            {"mode": "voice", "bits": c03.sbits(x), "burst_type": bt, "class": f"valid EMB centre resolved to {out} by SyncPatterns.resolve_bytes",
                             "emb": [cc, pi, lcss]}, pairs_voice)
    for s in all_syncs:  # the patterns and all their single-bit neighbours (not valid EMB: correspondence only)
        for c in [s.value] + [s.value ^ (1 << i) for i in range(48)]:
            r, err = call(SP.resolve_bytes, c.to_bytes(6, "big"))
            pairs_resolve.append((f"sync.resolve {c}", err or ("EMB" if r.value < 0 else str(r.value))))
            check_sync_from_bits(ctx, SP, c, r, err)
            if c != s.value:
                x = voice_frame(int2ba(rng.getrandbits(216), length=216), int2ba(c, length=48))
                bt = rng.choice("DVU")
                q, out = impl_parse(x, bt)
                pairs_voice.append((f"burst.parse {bt} {c03.sbits(x)}", out))
    # sync patterns inside the vocoder bits (a parser that searches for the sync must not find these)
    for sp_ in all_syncs:
        for off in (0, 29, 60, 108, 139, 168):
            for kind in ("sync", "emb"):
                v = int2ba(rng.getrandbits(216), length=216)
                v[off:off + 48] = sp_.as_bits()
                if kind == "sync":
                    centre, what = rng.choice(voice).as_bits(), "voice sync"
                else:
                    cc, pi, lcss, e16 = rng.choice(embs)
                    centre, what = e16[:8] + int2ba(rng.getrandbits(32), length=32) + e16[8:], f"EMB cc={cc} pi={pi} lcss={lcss}"
                x = voice_frame(v, centre)
                for bt in ("V", "U"):
                    ctx.case(("voice-sync-in-vocoder", bt, c03.sbits(x)))
                    ctx.count("structured:sync-pattern-inside-vocoder-bits")
                    check_voice(ctx, x, bt, f"{what}, vocoder bits hold {sp_.name} at {off}",
                                {"mode": "voice", "bits": c03.sbits(x), "burst_type": bt, "class": f"vocoder bits hold {sp_.name} at offset {off}"}, pairs_voice, hold=hold)
    # a sync pattern a few bits off the centre of a voice burst with valid EMB (a parser that tolerates timing offsets must not lock on it)
    for sp_, k, (cc, pi, lcss), miss, x in shifted_sync_frames(rng, [k for k in range(-12, 13) if k], ctx.budget(2, 6) // ctx.boost or 1):
        for bt in ("V", "U"):
            ctx.case(("voice-shifted-sync", bt, c03.sbits(x)))
            ctx.count("structured:sync-pattern-shifted-off-centre")
            check_voice(ctx, x, bt, f"EMB cc={cc} pi={pi} lcss={lcss}, {sp_.name} {k:+d} bits off the centre ({miss} EMB bits disagree)",
                        {"mode": "voice", "bits": c03.sbits(x), "burst_type": bt, "class": f"{sp_.name} shifted {k:+d} bits off the centre", "emb": [cc, pi, lcss]}, pairs_voice, hold=hold)
    # the EMB object of a parse result changed in place; second parse of the same octets
    for cc, pi, lcss, e16 in embs[:: ctx.budget(4, 1) // ctx.boost or 1]:
        x = voice_frame(int2ba(rng.getrandbits(216), length=216), e16[:8] + int2ba(rng.getrandbits(32), length=32) + e16[8:])
        bt = rng.choice("VU")
        ctx.case(("voice-emb-reuse", bt, c03.sbits(x)))
        ctx.count("reuse:voice-emb-object-changed-in-place")
        voice_emb_reuse(ctx, x, bt, rng.choice(embs), {"mode": "voice", "bits": c03.sbits(x), "burst_type": bt})
    # valid slot type words (every colour code x every data type member) at the slot type positions of a voice burst
    for cc_ in range(16):
        for dtm in DT:
            w, err = call(lambda: ST(colour_code=cc_, data_type=dtm).as_bits())
            if err:
                continue
            v = int2ba(rng.getrandbits(216), length=216)
            v[98:118] = w
            if (cc_ + dtm.value) % 2:
                centre, what = rng.choice(voice).as_bits(), "voice sync"
            else:
                cc, pi, lcss, e16 = rng.choice(embs)
                centre, what = e16[:8] + int2ba(rng.getrandbits(32), length=32) + e16[8:], f"EMB cc={cc} pi={pi} lcss={lcss}"
            x = voice_frame(v, centre)
            for bt in ("V", "U"):
                ctx.case(("voice-slot-type-in-vocoder", bt, c03.sbits(x)))
                ctx.count("structured:slot-type-word-inside-voice-burst")
                check_voice(ctx, x, bt, f"{what}, slot type positions hold the word of cc={cc_} {dtm.name}",
                            {"mode": "voice", "bits": c03.sbits(x), "burst_type": bt, "class": f"slot type positions hold SlotType({cc_}, {dtm.name})"}, pairs_voice, hold=hold)
    # ---- payload content that is itself a valid object of another kind (vocoder bits = a serialised data burst, embedded bits = code
    # words of every encoder, data octets = a voice burst / another PDU, ...)
    check_foreign(ctx, hold)
    # ---- provenance: every entry point that yields a Burst x every sync pattern; attributes set by hand; the library's generators
    pairs_entry = []
    check_provenance(ctx, pairs_entry, hold)
    # ---- the objects held since the beginning of the run
    hold.verify(ctx)
    if not ctx.search_only and ctx.driver_ok:
        ctx.correspond("burst.parse(voice)", pairs_voice)
        ctx.correspond("sync.resolve", pairs_resolve)
        ctx.correspond("burst.entry", pairs_entry)
    # ---- generic history / object-identity probes
    import histories

    histories.run(ctx, ENTRY_POINTS)
    # ---- ambient interpreter / process state
    check_ambient(ctx)
    # ---- arbitrary and corrupted bursts, slot type and EMB words: correspondence only
    if not ctx.search_only and ctx.driver_ok:
        pairs_rand = []
        for _ in range(ctx.budget(400, 20000)):
            x = int2ba(rng.getrandbits(264), length=264)
            r = rng.random()
            if r < 0.5:
                x[108:156] = rng.choice(data).as_bits()
            elif r < 0.6:
                x[108:156] = rng.choice(voice + other).as_bits()
            bt = rng.choice("DVU")
            ctx.case(("random", bt, c03.sbits(x)), nontrivial=True)
            q, out = impl_parse(x, bt)
            pairs_rand.append((f"burst.parse {bt} {c03.sbits(x)}", out))
            ctx.count("random:" + (out if out.startswith("ERR") else "ok"))
        for xs in rng.sample(valid, min(len(valid), ctx.budget(300, 10000))):
            x = bitarray(xs)
            for _ in range(rng.randrange(1, 4)):
                x.invert(rng.randrange(264))
            bt = rng.choice("DVU")
            ctx.case(("corrupted", bt, c03.sbits(x)), nontrivial=True)
            q, out = impl_parse(x, bt)
            pairs_rand.append((f"burst.parse {bt} {c03.sbits(x)}", out))
            ctx.count("corrupted:" + (out if out.startswith("ERR") else "ok"))
        ctx.correspond("burst.parse(random)", pairs_rand)
        pairs_se = []
        words = range(2**16) if ctx.thorough() else sorted({rng.randrange(2**16) for _ in range(1500)} | {0, 1, 2**16 - 1})
        for w in words:
            b = int2ba(w, length=16)
            o, err = call(EMB.from_bits, bitarray(b))
            pairs_se.append((f"emb.dec {b.to01()}", err or f"ok {o.colour_code},{o.preemption_and_power_control_indicator.value},{o.link_control_start_stop.value},{o.emb_parity} {o.as_bits().to01()}"))
        words = [rng.randrange(2**20) for _ in range(ctx.budget(1500, 60000))] + [0, 1, 2**20 - 1] + [d << 12 for d in range(256)]
        for w in words:
            b = int2ba(w, length=20)
            o, err = call(ST.from_bits, bitarray(b))
            pairs_se.append((f"slot.dec {b.to01()}", err or f"ok {o.colour_code},{o.data_type.value},{o.fec_parity} {o.as_bits().to01()}"))
        ctx.correspond("slot/emb", pairs_se)


def replay(obj):
    f = obj.get("failure") or {}
    inp = f.get("input") or {}
    print(json.dumps(obj.get("type")), f.get("what"))
    if not inp:
        print("no failing input recorded (proof / correspondence broke):", json.dumps(obj.get("no_longer_checks") or obj.get("correspondence_differences"))[:2000])
        return 1
    if str(f.get("kind", "")).startswith("history:"):
        import histories

        return histories.replay(inp, ENTRY_POINTS)
    Burst, BT, DT, SP, ST, EMB = lib()
    init_kinds()
    r = Rec()
    pairs = []
    h = Hold(1, 16)
    if inp.get("mode") == "ambient":
        inner = inp.get("inner")
        name = inp["ambient"]
        if name == "child":
            print("child interpreter:", " ".join(CHILD_FLAGS), CHILD_ENV)
            jobs = [inner] if inner else []
            base = run_sample(jobs)
            res = run_child(jobs)
            if "import_error" in res:
                r.fail("ambient", inp, f"the library cannot be imported in the child interpreter: {res['import_error']}", actual=res["import_error"])
            else:
                compare_ambient(r, name, inp.get("detail"), jobs, base, res["results"])
            # which of the settings matters
            for flags, env in ([["-O"], {}], [["-bb"], {}], [["-W", "error"], {}], [["-X", "dev"], {}], [[], {k: v for k, v in CHILD_ENV.items() if k != "PYTHONOPTIMIZE"}]):
                one = run_child(jobs, flags=flags, env=env)
                sub = Rec()
                if "import_error" in one:
                    sub.fail("ambient", inp, one["import_error"])
                else:
                    compare_ambient(sub, name, "", jobs, base, one["results"])
                print(f"  with only {' '.join(flags) or env}: {'FAILS' if sub.failures else 'ok'}")
        else:
            base = run_sample([inner])
            got = ambient_settings()[name]([inner])
            compare_ambient(r, name, inp.get("detail"), [inner], base, got)
        for (line, out) in (base[0]["pairs"][:6] if inner else []):
            print("plain run     :", line[:120], "->", out[:300])
    else:
        run_input(r, inp, pairs, hold=h)
    if h.items:
        # objects held while other bursts are parsed and serialised, then looked at again
        import random

        rr = random.Random(0)
        for _ in range(200):
            call(lambda: Burst.from_bytes(rr.getrandbits(264).to_bytes(33, "big"), rr.choice(list(BT))).as_bytes())
        h.verify(r)
    for line, out in pairs:
        print("model line    :", line[:400])
        print("implementation:", out[:700])
        print("model         :", c03.model_says(PROP, line)[:700])
    for kind, what, exp, act in r.failures:
        print("STILL FAILS:", kind, what, "expected:", exp, "actual:", act)
    if not r.failures:
        print("the recorded input no longer fails on this tree")
    return 1 if r.failures else 0
