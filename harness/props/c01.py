"""C01 — a burst the library assembles is parsed back identically, and re-assembles (DESIGN §5 C01).

Oracle (real code):
  data   payload p built from fields (every PDU kind / variant of C03's generator), colour code cc, data sync s:
         b = Burst(DataAndControl); b.has_emb=False; b.sync…=s; b.slot_type=SlotType(cc, dt); b.data=p   (as TransmissionGenerator does)
         x = b.as_bytes(): 33 octets;  q = Burst.from_bytes(x, any burst type):  q.data_type, q.colour_code, q.sync… as given,
         every attribute of q.data equals p's (rate-coded blocks: q.data.convert(type of p), and equal bits), q.as_bytes() == x
  voice  any 216 vocoder bits around a voice sync (any burst type) / around valid EMB (cc, PI, LCSS, QR parity) with any 32 embedded
         bits (burst type vocoder / undefined):  Burst.from_bytes(x).as_bytes() == x
  near   structured inputs at minimal Hamming distance from every constant the parser compares against: for every sync pattern S and
         every valid EMB word E (all 128) the voice burst centre E[0:8] ++ X ++ E[8:16] with X = S[8:40] (the valid-EMB centre nearest to
         S), and X with 1..3 bits flipped around the EMB words nearest to S's outer bits; a wide screen of the centre lookup itself
         (SyncPatterns.resolve_bytes on every such centre with <= 2 flips, sampled 3 flips; every hit is promoted to a full voice
         burst); vocoder bits that contain a sync pattern at other offsets; vocoder bits that hold a valid slot type word at the
         slot type positions; rate 1 payloads that contain a sync pattern (raw on air)
  reuse  object-reuse histories on ONE Burst object, for every payload kind / variant: serialise, change fields of the SAME payload
         object in place (attribute by attribute, nested objects / bit arrays in place), serialise again; replace slot type (colour
         code, header <-> terminator), sync, payload (also a new object at a recycled address); parse -> mutate -> serialise;
         as_bits twice and after scribbling over the returned bits; every result equals a freshly assembled burst of the same field
         values (and the model's), parses back to the new field values; parsed / assembled bursts held across the whole run and
         re-verified at the end
Correspondence (model vs code): burst.build -> bits; burst.parse -> sync, flags, EMB, slot type, payload fields, as_bits or error
kind, also for random and corrupted 264-bit strings; slot.dec / emb.dec; sync.resolve on the structured centres.
"""
import copy
import enum
import json

from bitarray import bitarray
from bitarray.util import int2ba, ba2int

from common import impl_error
from props import c03

PROP = "C01"
MODULES = ["C01"]
GEN = ["Burst", "Elements", "Codes", "Bptc", "Trellis"]
MATCHERS = {}
# drift detector (auxiliary): besides the anchor files of the property, the payload codecs and the assembly code
ANCHORS = [
    "okdmr/dmrlib/etsi/layer2/pdu",
    "okdmr/dmrlib/etsi/layer2/elements",
    "okdmr/dmrlib/etsi/layer3/elements",
    "okdmr/dmrlib/transmission/transmission_generator.py",
]

MODEL_ERRORS = {"ValueError", "AssertionError", "NotImplementedError", "KeyError", "IndexError"}


def err_kind(e: BaseException) -> str:
    n = type(e).__name__
    return "ERR " + n if n in MODEL_ERRORS else "ERR other"


def call(fn, *a, **k):
    try:
        return fn(*a, **k), None
    except BaseException as e:  # noqa
        return None, err_kind(e)


def lib():
    from okdmr.dmrlib.etsi.layer2.burst import Burst
    from okdmr.dmrlib.etsi.layer2.elements.burst_types import BurstTypes
    from okdmr.dmrlib.etsi.layer2.elements.data_types import DataTypes
    from okdmr.dmrlib.etsi.layer2.elements.sync_patterns import SyncPatterns
    from okdmr.dmrlib.etsi.layer2.pdu.slot_type import SlotType
    from okdmr.dmrlib.etsi.layer2.pdu.embedded_signalling import EmbeddedSignalling

    return Burst, BurstTypes, DataTypes, SyncPatterns, SlotType, EmbeddedSignalling


def sync_sets():
    Burst, BT, DT, SP, ST, EMB = lib()
    voice = [SP.BsSourcedVoice, SP.MsSourcedVoice, SP.Tdma1Voice, SP.Tdma2Voice]
    data = [SP.BsSourcedData, SP.MsSourcedData, SP.Tdma1Data, SP.Tdma2Data]
    other = [m for m in SP if m.value >= 0 and m not in voice and m not in data]
    return voice, data, other


# ------------------------------------------------------------------------------------------------
# payload kinds: (driver kind name, data type, c03 kind, variant filter, field text)
def payload_sources():
    Burst, BT, DT, SP, ST, EMB = lib()
    ks = {k.name: k for k in c03.kinds()}
    out = []
    out.append(("csbk", DT.CSBK, ks["csbk"], None))
    out.append(("dh", DT.DataHeader, ks["dh"], None))
    out.append(("vlc", DT.VoiceLCHeader, ks["flc"], None))
    out.append(("tlc", DT.TerminatorWithLC, ks["flc"], None))
    out.append(("pi", DT.PIHeader, ks["pi"], None))
    for cname, dt in (("12", DT.Rate12Data), ("34", DT.Rate34Data), ("1", DT.Rate1Data)):
        for t in c03.RATE_TYPES:
            out.append((f"rate{cname}", dt, ks[f"rate{cname}.{t}"], t))
    return out


def payload_text(kind, p):
    """the text the driver prints for Burst.data (kind|fields with '|' for blanks)"""
    from okdmr.dmrlib.etsi.layer2.pdu.csbk import CSBK
    from okdmr.dmrlib.etsi.layer2.pdu.data_header import DataHeader
    from okdmr.dmrlib.etsi.layer2.pdu.full_link_control import FullLinkControl
    from okdmr.dmrlib.etsi.layer2.pdu.pi_header import PIHeader
    from okdmr.dmrlib.etsi.layer2.pdu.rate12_data import Rate12Data
    from okdmr.dmrlib.etsi.layer2.pdu.rate34_data import Rate34Data
    from okdmr.dmrlib.etsi.layer2.pdu.rate1_data import Rate1Data

    ks = payload_text.kinds
    if isinstance(p, CSBK):
        return "csbk|" + ks["csbk"].fmt(p).replace(" ", "|")
    if isinstance(p, DataHeader):
        return "dh|" + ks["dh"].fmt(p).replace(" ", "|")
    if isinstance(p, FullLinkControl):
        return kind + "|" + ks["flc"].fmt(p).replace(" ", "|")
    if isinstance(p, PIHeader):
        return "pi|" + ks["pi"].fmt(p).replace(" ", "|")
    for cls, n in ((Rate12Data, "rate12"), (Rate34Data, "rate34"), (Rate1Data, "rate1")):
        if isinstance(p, cls):
            return f"{n}|{c03.shex(p.data)}|{p.dbsn}|{p.crc9}|{p.crc32}"
    return "?" + type(p).__name__


payload_text.kinds = None


def build_line(cc, sync, kname, src_kind, variant, vals, p):
    if kname.startswith("rate"):
        t = variant.name
        return f"burst.build {cc} {sync.value} {kname} {t} {vals['data'] or '-'} {vals.get('dbsn', 0)} {vals.get('crc9', 0)} {vals.get('crc32', 0)}"
    return f"burst.build {cc} {sync.value} {kname} {src_kind.fmt(p, vals.get('crc'))}"


def assemble(p, cc, dt, sync):
    """exactly what TransmissionGenerator does"""
    Burst, BT, DT, SP, ST, EMB = lib()
    b = Burst(burst_type=BT.DataAndControl)
    b.has_emb = False
    b.sync_or_embedded_signalling = sync
    b.slot_type = ST(colour_code=cc, data_type=dt)
    b.data = p
    return b


def parse_text(q, dt_kind=None):
    """canonical text of a parsed burst (same as the driver's burst.parse)"""
    Burst, BT, DT, SP, ST, EMB = lib()
    s = q.sync_or_embedded_signalling
    sync = str(s.value) if s.value >= 0 else "EMB"
    flags = "".join(c03.b01(x) for x in (q.is_voice_superframe_start, q.is_vocoder, q.is_data_or_control, q.has_emb))
    emb = "-" if q.emb is None else f"{q.emb.colour_code},{q.emb.preemption_and_power_control_indicator.value},{q.emb.link_control_start_stop.value},{q.emb.emb_parity}"
    slot = "-" if q.slot_type is None else f"{q.slot_type.colour_code},{q.slot_type.data_type.value},{q.slot_type.fec_parity}"
    if q.data is None:
        pl = "-"
    else:
        kind = {DT.VoiceLCHeader: "vlc", DT.TerminatorWithLC: "tlc"}.get(q.data_type, "")
        pl = payload_text(kind, q.data)
    bits, err = call(q.as_bits)
    return f"ok {sync} {flags} {emb} {slot} {pl} {err or c03.sbits(bits)}"


BT_NAMES = {"U": "Undefined", "V": "Vocoder", "D": "DataAndControl"}


def impl_parse(bits, bt):
    Burst, BT, DT, SP, ST, EMB = lib()
    q, err = call(Burst.from_bits, bitarray(bits), getattr(BT, BT_NAMES[bt]))
    if err:
        return None, err
    return q, parse_text(q)


# ------------------------------------------------------------------------------------------------
def check_data(ctx, kname, dt, src, variant, vals, cc, sync, pairs_build, pairs_parse, bts=("D",), hold=None, extra=None):
    Burst, BT, DT, SP, ST, EMB = lib()
    inp = {"mode": "data", "kind": kname, "c03kind": src.name, "variant": variant.name, "fields": vals, "cc": cc, "sync": sync.name}
    if extra:
        inp.update(extra)
    p, err = call(variant.build, vals)
    if err:
        ctx.fail("payload-constructor-raises", inp, f"{kname}/{variant.name}: building the payload raised {err}", actual=err)
        return
    b, err = call(assemble, p, cc, dt, sync)
    if err:
        ctx.fail("assemble-raises", inp, f"{kname}: assembling the burst raised {err}", actual=err)
        return
    x, err = call(b.as_bits)
    if err:
        ctx.fail("serialise-raises", inp, f"{kname}/{variant.name}: as_bits of the assembled burst raised {err}", actual=err)
        pairs_build.append((build_line(cc, sync, kname, src, variant, vals, p), err))
        return
    pairs_build.append((build_line(cc, sync, kname, src, variant, vals, p), c03.sbits(x)))
    q = verify_roundtrip(ctx, inp, kname, variant.name, p, dt, cc, sync, b, pairs_parse, bts)
    if hold is not None:
        hold.offer(b, b.as_bytes, None, inp)
        if q is not None:
            hold.offer(q, b.as_bytes, lambda: parse_text(q), inp)


def verify_roundtrip(ctx, inp, kname, vname, p, dt, cc, sync, b, pairs_parse, bts=("D",)):
    """the property for one burst object b that is to be serialised from payload p, colour code cc, data type dt, sync:
    264 bits / 33 octets; parsed back (every announced burst type of bts): data type, colour code, sync, every payload
    attribute as p's, re-serialised identically.  Returns the last parsed burst."""
    Burst, BT, DT, SP, ST, EMB = lib()
    x, err = call(b.as_bits)
    if err:
        ctx.fail("serialise-raises", inp, f"{kname}/{vname}: as_bits raised {err}", actual=err)
        return None
    xs = c03.sbits(x)
    if len(x) != 264 or len(b.as_bytes()) != 33:
        ctx.fail("wrong-length", inp, f"{kname}: assembled burst has {len(x)} bits", expected=264, actual=len(x))
        return None
    pa = c03.attrs(p)
    q = None
    for bt in bts:
        q, err = call(Burst.from_bytes, b.as_bytes(), getattr(BT, BT_NAMES[bt]))
        if err:
            ctx.fail("parse-raises", inp, f"{kname}/{vname}: parsing the assembled burst ({bt}) raised {err}", actual=err)
            pairs_parse.append((f"burst.parse {bt} {xs}", err))
            continue
        pairs_parse.append((f"burst.parse {bt} {xs}", parse_text(q)))
        if q.data_type != dt:
            ctx.fail("data-type", inp, f"{kname}: parsed data type {q.data_type} != {dt}", expected=dt.value, actual=q.data_type.value)
        qcc, e2 = call(lambda: q.colour_code)
        if e2 or qcc != cc:
            ctx.fail("colour-code", inp, f"{kname}: parsed colour code {e2 or qcc} != {cc}", expected=cc, actual=e2 or qcc)
        if q.sync_or_embedded_signalling != sync:
            ctx.fail("sync", inp, f"{kname}: parsed sync {q.sync_or_embedded_signalling.name} != {sync.name}", expected=sync.name, actual=q.sync_or_embedded_signalling.name)
        if q.data is None:
            ctx.fail("payload-missing", inp, f"{kname}: parsed burst has no payload")
        else:
            qd = q.data
            if kname.startswith("rate"):
                if qd.as_bits() != p.as_bits():
                    ctx.fail("payload-bits", inp, f"{kname}/{vname}: parsed block bits differ", expected=c03.sbits(p.as_bits()), actual=c03.sbits(qd.as_bits()))
                qd, e3 = call(qd.convert, p.packet_type)
                if e3:
                    ctx.fail("payload-fields", inp, f"{kname}/{vname}: convert({p.packet_type.name}) raised {e3}", actual=e3)
                    qd = None
            if qd is not None:
                d = c03.diff_attrs(pa, c03.attrs(qd))
                if d:
                    qa = c03.attrs(qd)
                    ctx.fail("payload-fields", inp, f"{kname}/{vname}: parsed payload differs from the one the burst was serialised from in {d}",
                             expected={k: pa.get(k) for k in d}, actual={k: qa.get(k) for k in d})
        y, e4 = call(q.as_bytes)
        if e4 or y != b.as_bytes():
            ctx.fail("reserialise", inp, f"{kname}/{vname}: re-serialised burst differs from the assembled one",
                     expected=b.as_bytes().hex(), actual=e4 or y.hex())
    return q


def check_voice(ctx, x, bt, what, inp, pairs_parse, hold=None, twice=False):
    Burst, BT, DT, SP, ST, EMB = lib()
    xs = c03.sbits(x)
    q, err = call(Burst.from_bytes, x.tobytes(), getattr(BT, BT_NAMES[bt]))
    if err:
        ctx.fail("parse-raises", inp, f"voice burst ({what}, {bt}): parsing raised {err}", actual=err)
        pairs_parse.append((f"burst.parse {bt} {xs}", err))
        return
    pairs_parse.append((f"burst.parse {bt} {xs}", parse_text(q)))
    y, err = call(q.as_bytes)
    if err or y != x.tobytes():
        ctx.fail("voice-roundtrip", inp, f"voice burst ({what}, {bt}) does not survive parse-then-serialise", expected=x.tobytes().hex(), actual=err or y.hex())
        return
    if twice:
        serialise_twice(ctx, q, inp, f"voice burst ({what}, {bt})")
    if hold is not None:
        hold.offer(q, y, lambda: parse_text(q), inp)


def serialise_twice(ctx, b, inp, what):
    """as_bits is repeatable and hands out bits the caller may scribble over"""
    x1, e1 = call(b.as_bits)
    x2, e2 = call(b.as_bits)
    if e1 or e2 or x1 != x2:
        ctx.fail("reuse-serialise-twice", inp, f"{what}: two consecutive as_bits() calls differ", expected=e1 or c03.sbits(x1), actual=e2 or c03.sbits(x2))
        return
    want = bitarray(x1)
    x1.invert()
    x2[:] = 0
    x3, e3 = call(b.as_bits)
    if e3 or x3 != want:
        ctx.fail("reuse-returned-bits-aliased", inp, f"{what}: as_bits() after the caller changed the previously returned bits differs",
                 expected=c03.sbits(want), actual=e3 or c03.sbits(x3))
        return
    y, e4 = call(b.as_bytes)
    if e4 or y != want.tobytes():
        ctx.fail("reuse-serialise-twice", inp, f"{what}: as_bytes() differs from as_bits()", expected=want.tobytes().hex(), actual=e4 or y.hex())


def voice_emb_reuse(ctx, x, bt, emb2, inp):
    """a voice burst with EMB is parsed; the EMB object the parse returned is changed in place to another valid EMB word; the object
    serialises with the new word, and a second parse of the original octets is not affected"""
    Burst, BT, DT, SP, ST, EMB = lib()
    q, err = call(Burst.from_bytes, x.tobytes(), getattr(BT, BT_NAMES[bt]))
    if err or q.emb is None:
        return  # reported by the plain round trip
    cc2, pi2, lcss2, e16 = emb2
    copy_state(q.emb, EMB(colour_code=cc2, preemption_and_power_control_indicator=pi2, link_control_start_stop=lcss2), True)
    want = bitarray(x)
    want[108:116], want[148:156] = e16[:8], e16[8:]
    got = bits_or_err(q)
    if got != c03.sbits(want):
        ctx.fail("reuse-stale-serialisation", dict(inp, emb2=[cc2, pi2, lcss2], history=f"EMB object changed in place to cc={cc2} pi={pi2} lcss={lcss2}"),
                 "voice burst: after changing the parsed EMB object in place the burst does not serialise with the new EMB word", expected=c03.sbits(want), actual=got)
    q1, err = call(Burst.from_bytes, x.tobytes(), getattr(BT, BT_NAMES[bt]))
    got = err or bits_or_err(q1)
    if got != c03.sbits(x):
        ctx.fail("reuse-parse-results-share-state", dict(inp, emb2=[cc2, pi2, lcss2], history=f"EMB object of an earlier parse changed in place to cc={cc2} pi={pi2} lcss={lcss2}"),
                 "voice burst: parsing the same octets again after the EMB object of the first parse result was changed gives a different burst", expected=c03.sbits(x), actual=got)


def shifted_sync_frames(rng, shifts, per):
    """voice bursts with valid EMB in which a sync pattern P sits k bits off the centre: every bit of the window [108+k, 156+k) that is
    not an EMB bit (vocoder and embedded bits) equals P; for each (P, k) the `per` EMB words that agree best with P on the EMB bits the
    window covers.  Yields (P, k, (cc, pi, lcss), mismatching bits, frame)"""
    voice, data, other = sync_sets()
    embs = emb_table()
    emb_pos = list(range(108, 116)) + list(range(148, 156))
    for sp_ in voice + data + other:
        pb = sp_.as_bits()
        for k in shifts:
            lo = 108 + k
            cover = [(i, pos) for i, pos in enumerate(emb_pos) if lo <= pos < lo + 48]
            ranked = sorted(embs, key=lambda e: (sum(e[3][i] != pb[pos - lo] for i, pos in cover), e[0], e[1], e[2]))
            for cc, pi, lcss, e16 in ranked[:per]:
                x = int2ba(rng.getrandbits(264), length=264)
                x[lo:lo + 48] = pb
                x[108:116], x[148:156] = e16[:8], e16[8:]
                yield sp_, k, (cc, pi, lcss), sum(e16[i] != pb[pos - lo] for i, pos in cover), x


class Hold:
    """parsed / assembled burst objects kept alive while the run goes on parsing and assembling other bursts; re-verified at the end
    (a result object that shares mutable state with later calls changes under our feet)"""

    def __init__(self, every, cap):
        self.every, self.cap, self.n, self.items = max(1, every), cap, 0, []

    def offer(self, obj, want_bytes, want_text, inp):
        """want_bytes / want_text may be thunks (evaluated only for the objects that are kept)"""
        self.n += 1
        if self.n % self.every == 0 and len(self.items) < self.cap:
            self.items.append((obj, want_bytes() if callable(want_bytes) else want_bytes, want_text() if callable(want_text) else want_text, inp))

    def verify(self, ctx):
        for obj, want_bytes, want_text, inp in self.items:
            ctx.count("reuse:held-object-reverified")
            y, err = call(obj.as_bytes)
            if err or y != want_bytes:
                ctx.fail("reuse-held-object-changed", dict(inp, history="held across the run"), "a burst object held while other bursts were parsed / assembled serialises differently afterwards",
                         expected=want_bytes.hex(), actual=err or y.hex())
                continue
            if want_text is not None:
                t, err = call(parse_text, obj)
                if err or t != want_text:
                    ctx.fail("reuse-held-object-changed", dict(inp, history="held across the run"), "the attributes of a parsed burst object held while other bursts were parsed changed",
                             expected=want_text, actual=err or t)


def emb_word(cc, pi, lcss):
    Burst, BT, DT, SP, ST, EMB = lib()
    return EMB(colour_code=cc, preemption_and_power_control_indicator=pi, link_control_start_stop=lcss).as_bits()


def voice_frame(v, center):
    return v[:108] + center + v[108:]


def hd(a, b):
    return (a ^ b).count()


def emb_table():
    """all 128 valid EMB words (cc, pi, lcss, 16 bits with the QR parity the library generates)"""
    return [(cc, pi, lcss, emb_word(cc, pi, lcss)) for cc in range(16) for pi in range(2) for lcss in range(4)]


def flipped(x, positions):
    y = bitarray(x)
    for i in positions:
        y.invert(i)
    return y


def near_sync_centres(rng, n_multi, n_far=0):
    """structured centres: for every sync pattern S and every valid EMB word E the centre E[0:8] ++ X ++ E[8:16] with the 32 embedded
    bits X as close to S[8:40] as possible: X = S[8:40] for all E; for the EMB words nearest to S's outer bits (minimal distance, +1,
    at least 4 words) also every single-bit neighbour of S[8:40] and n_multi random 2- and 3-bit neighbours.
    Yields (S, (cc, pi, lcss), distance of E to S's outer bits, number of flipped embedded bits, centre)"""
    voice, data, other = sync_sets()
    embs = emb_table()
    for s in voice + data + other:
        sb = s.as_bits()
        outer, mid = sb[:8] + sb[40:], sb[8:40]
        ranked = sorted(embs, key=lambda e: (hd(e[3], outer), e[0], e[1], e[2]))
        dmin = hd(ranked[0][3], outer)
        for rank, (cc, pi, lcss, e16) in enumerate(ranked):
            d = hd(e16, outer)
            yield s, (cc, pi, lcss), d, 0, e16[:8] + mid + e16[8:]
            if d <= dmin + 1 or rank < 4:
                for i in range(32):
                    yield s, (cc, pi, lcss), d, 1, e16[:8] + flipped(mid, [i]) + e16[8:]
                for k in range(n_multi):
                    yield s, (cc, pi, lcss), d, 2 + k % 2, e16[:8] + flipped(mid, rng.sample(range(32), 2 + k % 2)) + e16[8:]
            else:
                for k in range(n_far):
                    yield s, (cc, pi, lcss), d, 1 + k % 3, e16[:8] + flipped(mid, rng.sample(range(32), 1 + k % 3)) + e16[8:]


def resolve_screen_centres(rng, n_triple):
    """the wide screen of the centre lookup: every sync S x every valid EMB E: X = S[8:40] and its 32 single-bit neighbours; for the 8
    EMB words nearest to S's outer bits all 496 two-bit neighbours; for the 2 nearest n_triple random three-bit neighbours"""
    voice, data, other = sync_sets()
    embs = emb_table()
    for s in voice + data + other:
        sb = s.as_bits()
        outer, mid = sb[:8] + sb[40:], sb[8:40]
        ranked = sorted(embs, key=lambda e: (hd(e[3], outer), e[0], e[1], e[2]))
        for rank, (cc, pi, lcss, e16) in enumerate(ranked):
            head, tail = ba2int(e16[:8]) << 40, ba2int(e16[8:])
            m = ba2int(mid)
            yield s, (cc, pi, lcss), head | (m << 8) | tail
            for i in range(32):
                yield s, (cc, pi, lcss), head | ((m ^ (1 << i)) << 8) | tail
            if rank < 8:
                for i in range(32):
                    for j in range(i):
                        yield s, (cc, pi, lcss), head | ((m ^ (1 << i) ^ (1 << j)) << 8) | tail
            if rank < 2:
                for _ in range(n_triple):
                    i, j, k = rng.sample(range(32), 3)
                    yield s, (cc, pi, lcss), head | ((m ^ (1 << i) ^ (1 << j) ^ (1 << k)) << 8) | tail


# ------------------------------------------------------------------------------------------------
# object-reuse histories
def copy_state(dst, src, nested, only=None):
    """give the object dst the field values of src by assigning attributes of dst itself (dst is never replaced); nested: objects and
    bit arrays held in attributes are changed in place, too.  only: restrict to these attribute names.  Returns the names changed."""
    changed = []
    for k, v in vars(src).items():
        if only is not None and k not in only:
            continue
        cur = getattr(dst, k, None)
        if type(cur) is type(v) and c03.canon(cur) == c03.canon(v):
            continue
        changed.append(k)
        if nested and hasattr(v, "__dict__") and not isinstance(v, enum.Enum) and type(cur) is type(v):
            copy_state(cur, v, nested)
        elif nested and isinstance(v, bitarray) and isinstance(cur, bitarray) and len(cur) == len(v):
            cur[:] = v
        else:
            setattr(dst, k, copy.deepcopy(v))
    return changed


def differing(a, b):
    return [k for k, v in vars(b).items() if not (type(getattr(a, k, None)) is type(v) and c03.canon(getattr(a, k, None)) == c03.canon(v))]


def bits_or_err(b):
    x, err = call(b.as_bits)
    return err or c03.sbits(x)


HISTORY_SCRIPTS = ("mutate-fields", "mutate-nested", "replace-slot-sync", "replace-payload", "recycled-payload", "parse-mutate", "parse-serialise-mutate",
                   "parse-mutate-slot-in-place", "twice")


def other_kind(kname, dt):
    """a second data type the same payload object may legitimately be sent with (full LC: header <-> terminator)"""
    Burst, BT, DT, SP, ST, EMB = lib()
    if kname == "vlc":
        return "tlc", DT.TerminatorWithLC
    if kname == "tlc":
        return "vlc", DT.VoiceLCHeader
    return kname, dt


def run_history(ctx, spec, pairs_build, pairs_parse):
    """one history on ONE Burst object (spec is JSON-able, see replay).  After every step the object must serialise exactly as a burst
    freshly assembled from (a deep copy of) the current payload, colour code, data type and sync, and - at the end - as the burst
    assembled from a payload newly constructed from the final field values; that burst must parse back to these values."""
    Burst, BT, DT, SP, ST, EMB = lib()
    srcs = {(k, s.name): (k, dt, s, t) for k, dt, s, t in payload_sources()}
    kname, dt, src, _ = srcs[(spec["kind"], spec["c03kind"])]
    var = next(v for v in src.variants if v.name == spec["variant"])
    vals1, vals2 = spec["fields"], spec["fields2"]
    cc1, cc2, s1, s2 = spec["cc"], spec["cc2"], SP[spec["sync"]], SP[spec["sync2"]]
    script = spec["script"]
    what = f"reuse history {script} ({kname}/{var.name})"
    p, err = call(var.build, vals1)
    p2, err2 = call(var.build, vals2)
    if err or err2:
        ctx.fail("payload-constructor-raises", spec, f"{what}: building the payload raised {err or err2}", actual=err or err2)
        return
    b, err = call(assemble, p, cc1, dt, s1)
    if err:
        ctx.fail("assemble-raises", spec, f"{what}: assembling the burst raised {err}", actual=err)
        return

    def same_as_fresh(obj, payload, cc, d, sync, step):
        """obj (re-used) against a burst assembled from scratch with a deep copy of the payload as it is now"""
        got = bits_or_err(obj)
        fresh, err = call(assemble, copy.deepcopy(payload), cc, d, sync)
        want = err or bits_or_err(fresh)
        if got != want:
            ctx.fail("reuse-stale-serialisation", dict(spec, step=step),
                     f"{what}, step '{step}': the re-used burst object does not serialise as a freshly assembled burst of the same field values",
                     expected=want, actual=got)
            return False
        return True

    def final(obj, kn, d, cc, sync, vals, payload_new):
        """at the end: model line for the final values (output of the RE-USED object) and the property on it"""
        got = bits_or_err(obj)
        pairs_build.append((build_line(cc, sync, kn, src, var, vals, payload_new), got))
        if not got.startswith("ERR"):
            verify_roundtrip(ctx, dict(spec, step="final"), kn, var.name, payload_new, d, cc, sync, obj, pairs_parse, bts=("D",))

    first = bits_or_err(b)
    if first.startswith("ERR"):
        ctx.fail("serialise-raises", spec, f"{what}: as_bits of the assembled burst raised {first}", actual=first)
        return

    def reparse_unchanged(raw, want, why):
        """a second parse of the same octets is independent of what was done to the first parse result"""
        q1, err = call(Burst.from_bytes, raw, BT.DataAndControl)
        got = err or bits_or_err(q1)
        if got != want:
            ctx.fail("reuse-parse-results-share-state", dict(spec, step="second parse of the same octets"),
                     f"{what}: parsing the same 33 octets again after {why} gives a burst that serialises differently", expected=want, actual=got)
        elif not err:
            cc_, e = call(lambda: q1.colour_code)
            if e or cc_ != cc1:
                ctx.fail("reuse-parse-results-share-state", dict(spec, step="second parse of the same octets"),
                         f"{what}: parsing the same 33 octets again after {why} gives colour code {e or cc_}", expected=cc1, actual=e or cc_)

    if script in ("mutate-fields", "mutate-nested"):
        names = differing(p, p2)
        ok = True
        for i, k in enumerate(names):
            copy_state(p, p2, script == "mutate-nested", only=[k])
            if ok and (i == 0 or i == len(names) - 1 or script == "mutate-nested"):
                ok = same_as_fresh(b, p, cc1, dt, s1, f"after changing payload attribute {k} in place")
        final(b, kname, dt, cc1, s1, vals2, p2)
    elif script == "replace-slot-sync":
        k2, dt2 = other_kind(kname, dt)
        b.slot_type = ST(colour_code=cc2, data_type=dt2)
        ok = same_as_fresh(b, p, cc2, dt2, s1, "after replacing the slot type")
        b.sync_or_embedded_signalling = s2
        ok = ok and same_as_fresh(b, p, cc2, dt2, s2, "after replacing the sync pattern")
        final(b, k2, dt2, cc2, s2, vals1, p)
    elif script == "replace-payload":
        b.data = p2
        same_as_fresh(b, p2, cc1, dt, s1, "after assigning another payload object")
        b.data = p
        same_as_fresh(b, p, cc1, dt, s1, "after assigning the first payload object again")
        copy_state(p, p2, False)
        final(b, kname, dt, cc1, s1, vals2, p2)
    elif script == "recycled-payload":
        # no reference to the old payload survives: the new object may live at the same address
        del p
        for vals in (vals2, vals1, vals2):
            b.data = None
            b.data = var.build(vals)
            same_as_fresh(b, b.data, cc1, dt, s1, "after assigning a newly built payload (old one released)")
        final(b, kname, dt, cc1, s1, vals2, p2)
    elif script in ("parse-mutate", "parse-serialise-mutate"):
        want2, err = call(assemble, p2, cc2, dt, s2)
        want2 = err or bits_or_err(want2)
        if want2.startswith("ERR"):
            return
        q, err = call(Burst.from_bytes, b.as_bytes(), BT.DataAndControl)
        q2, err2 = call(Burst.from_bytes, bitarray(want2).tobytes(), BT.DataAndControl)
        if err or err2 or q.data is None or q2.data is None:
            return  # reported by the plain round trip
        if script == "parse-serialise-mutate":
            if bits_or_err(q) != first:
                return  # reported by the plain round trip
        copy_state(q.data, q2.data, True)
        q.slot_type = ST(colour_code=cc2, data_type=dt)
        q.sync_or_embedded_signalling = s2
        got = bits_or_err(q)
        if got != want2:
            ctx.fail("reuse-stale-serialisation", dict(spec, step="parsed burst changed"),
                     f"{what}: a parsed burst whose payload fields, slot type and sync were changed does not serialise as the burst assembled from these values",
                     expected=want2, actual=got)
        reparse_unchanged(b.as_bytes(), first, "the payload of an earlier parse result was changed")
        final(q, kname, dt, cc2, s2, vals2, p2)
    elif script == "parse-mutate-slot-in-place":
        # the slot type object a parse returned is changed in place (to the values SlotType(cc2, dt) holds)
        q, err = call(Burst.from_bytes, b.as_bytes(), BT.DataAndControl)
        if err or q.slot_type is None:
            return  # reported by the plain round trip
        copy_state(q.slot_type, ST(colour_code=cc2, data_type=dt), True)
        same_as_fresh(q, p, cc2, dt, s1, "after changing the parsed burst's slot type object in place")
        reparse_unchanged(b.as_bytes(), first, "the slot type object of an earlier parse result was changed")
        final(q, kname, dt, cc2, s1, vals1, p)
    elif script == "twice":
        serialise_twice(ctx, b, spec, what + ", assembled burst")
        q, err = call(Burst.from_bytes, b.as_bytes(), BT.DataAndControl)
        if not err:
            serialise_twice(ctx, q, spec, what + ", parsed burst")
            rp, err = call(repr, q)  # __repr__ serialises, too
            if bits_or_err(q) != first:
                ctx.fail("reuse-stale-serialisation", dict(spec, step="after repr"), f"{what}: as_bits() after repr() differs", expected=first, actual=bits_or_err(q))
        final(b, kname, dt, cc1, s1, vals1, p)


def vary(rng, var, vals, fix):
    """vals with one or two fields changed (never equal to vals), CRC left to the constructor half of the time"""
    for _ in range(8):
        v2 = dict(vals)
        names = [n for n, _s in var.fields if n not in ("crc", "flco")]
        for fname in rng.sample(names, min(len(names), rng.choice((1, 1, 2)))):
            spec = dict(var.fields)[fname]
            v2[fname] = rng.choice(spec.specials(rng)) if rng.random() < 0.3 else spec.rand(rng)
        if var.fix:
            v2 = var.fix(v2)
        v2 = fix(v2)
        if v2 != vals:
            return v2
    return v2


def run(ctx):
    Burst, BT, DT, SP, ST, EMB = lib()
    payload_text.kinds = {k.name: k for k in c03.kinds()}
    voice, data, other = sync_sets()
    ctx.rule = (
        "data bursts: every payload kind and variant of the C03 generator (CSBK x9, data header x5, voice LC header / terminator x5, PI header, "
        "rate 1/2, 3/4, 1 x 4 variants) built from fields (type-directed sweep: each field at 0 / max / walking ones / every enum member, plus "
        "random tuples), first tuple of every variant with all 16 colour codes x 4 data syncs, the others with random ones; parsed with "
        "every burst type; voice bursts: random 216 vocoder bits around every sync pattern x burst types and around valid EMB for all 128 "
        "(cc, PI, LCSS) x random 32 embedded bits; correspondence additionally on random 264-bit strings and 1-3 bit corruptions of valid "
        "bursts. structured: for every sync pattern S x every valid EMB word E the voice burst centre E[0:8]+S[8:40]+E[8:16] nearest to S, all "
        "single-bit and sampled 2-3-bit neighbours around the nearest EMB words, a screen of the centre lookup over all such centres with <= 2 "
        "flips, sync patterns inside the vocoder bits, valid slot type words at the slot type positions of voice bursts, rate 1 payloads "
        "holding a sync pattern. reuse histories on one Burst object for every kind / variant x 8 scripts (in-place payload mutation, slot "
        "type / sync / payload replacement, recycled payload address, parse-mutate-serialise, as_bits twice / returned bits scribbled), held "
        "objects re-verified at the end. distinct = distinct (kind, variant, fields, cc, sync) / burst bit string / history spec"
    )
    ctx.trusted_base += [
        "Lean 4.33 kernel",
        "tools/extract_burst.py (sync patterns, voice/data classification and resolution of the structured probe centres obtained by constructing Burst objects, data type values), extract_elements.py, extract.py (codes), extract_bptc.py, extract_trellis.py",
        "hand-written models Model/Burst.lean (+ Model/Bptc.lean of C02, Model/Trellis.lean of C10, Model/Pdu*.lean of C03) tied to the code by this run's correspondence",
        "CRC functions are parameters of the theorems; the driver's plain bitwise CRC is compared with the real code by the correspondence",
        "numpy / bitarray / enum are trusted as the substrate of the implementation",
    ]
    ctx.assumptions += [
        "payload objects are what the PDU constructors build from in-range field values (C03's WF predicates); full LC in the 96-bit form",
        "the assembled burst object is the one TransmissionGenerator builds: Burst(DataAndControl) with has_emb=False, sync, SlotType(cc, data type), data assigned",
        "reuse histories change a payload by assigning its public attributes (to the values a constructor call with the new fields stores), replace slot_type / sync_or_embedded_signalling / data by new objects; slot type objects are not changed in place",
        "fec_parity_ok / emb_parity_ok / crc_ok (C04) are not compared",
    ]
    rng = ctx.rng
    pairs_build, pairs_parse = [], []
    hold = Hold(every=ctx.budget(23, 97) // ctx.boost or 1, cap=400)
    # ---- corpus: the three repaired C03 defects surface here as field mismatches
    ks = payload_text.kinds
    corpus = [
        ("csbk", DT.CSBK, ks["csbk"], "nackRsp", {"lb": 1, "pf": 0, "fid": 0, "crc": 0, "aif": 0, "st": 1, "svc": 4, "rc": 33, "src": 2623266, "tgt": 1234}),
        ("csbk", DT.CSBK, ks["csbk"], "aloha", {"lb": 0, "pf": 0, "fid": 0, "crc": 0, "tsccas": 1, "sync": 0, "dvc": 3, "off": 0, "act": 1, "mask": 21, "sf": 2,
                                                "nrand": 7, "reg": 1, "backoff": 5, "sys": 48879, "tgt": 2623266}),
        ("dh", DT.DataHeader, ks["dh"], "response", {"crc": "0" * 16, "A": 1, "sap": 4, "dst": 1234, "src": 2623266, "fmf": 1, "btf": 5, "cls": 2, "typ": 1, "status": 7}),
    ]
    for kname, dt, src, vname, vals in corpus:
        var = next(v for v in src.variants if v.name == vname)
        ctx.case(("corpus", kname, vname), sample={"kind": kname, "variant": vname, "fields": vals, "cc": 5, "sync": "BsSourcedData"})
        check_data(ctx, kname, dt, src, var, vals, 5, SP.BsSourcedData, pairs_build, pairs_parse, bts=("D", "V", "U"))
    # ---- data bursts from fields
    n_random = ctx.budget(12, 400)
    sweep_stride = ctx.budget(4, 1)  # take every n-th special value in quick
    for kname, dt, src, tname in payload_sources():
        for var in src.variants:
            if kname in ("vlc", "tlc"):
                fix = lambda v: dict(v, crc=(v["crc"] if len(v["crc"]) == 24 else c03.BITS(24).rand(rng)))
            else:
                fix = lambda v: v
            # all colour codes x data syncs on one tuple
            vals = fix(var.random_vals(rng))
            first = True
            full = ctx.thorough() or ctx.boost > 1 or var is src.variants[0]
            combos = [(cc, s) for cc in range(16) for s in data]
            if not full:
                # quick: the complete 16 x 4 grid on the first variant of every kind, a quarter of it on the others
                combos = [c for i, c in enumerate(combos) if i % 4 == (len(var.name) + i // 4) % 4]
            for cc, s in combos:
                if True:
                    ctx.case((kname, var.name, json.dumps(vals, sort_keys=True), cc, s.name),
                             sample={"kind": kname, "variant": var.name, "fields": vals, "cc": cc, "sync": s.name} if first and kname in ("csbk", "rate34") else None)
                    first = False
                    check_data(ctx, kname, dt, src, var, vals, cc, s, pairs_build, pairs_parse, bts=("D", "V", "U") if cc % 5 == 0 else ("D",), hold=hold)
            ctx.count(f"data:{kname}:{var.name}", len(combos))
            # type-directed sweep
            i = 0
            for fname, spec in var.fields:
                for sv in spec.specials(rng):
                    i += 1
                    if i % sweep_stride:
                        continue
                    vals = var.random_vals(rng)
                    vals[fname] = sv
                    if var.fix:
                        vals = var.fix(vals)
                    vals = fix(vals)
                    cc, s = rng.randrange(16), rng.choice(data)
                    ctx.case((kname, var.name, json.dumps(vals, sort_keys=True), cc, s.name))
                    ctx.count(f"data:{kname}:{var.name}")
                    check_data(ctx, kname, dt, src, var, vals, cc, s, pairs_build, pairs_parse, hold=hold)
            for _ in range(n_random):
                vals = fix(var.random_vals(rng))
                cc, s = rng.randrange(16), rng.choice(data)
                ctx.case((kname, var.name, json.dumps(vals, sort_keys=True), cc, s.name))
                ctx.count(f"data:{kname}:{var.name}")
                check_data(ctx, kname, dt, src, var, vals, cc, s, pairs_build, pairs_parse, bts=(rng.choice("DVU"),), hold=hold)
            # ---- object-reuse histories on one Burst object
            n_hist = 12 if ctx.thorough() else min(ctx.boost, 3)  # (not x8 when the search is boosted: each history costs ~10 ms)
            for script in HISTORY_SCRIPTS:
                for _ in range(n_hist):
                    vals1 = fix(var.random_vals(rng))
                    if var.fix:
                        vals1 = fix(var.fix(vals1))
                    if "crc" in vals1 and rng.random() < 0.5 and kname not in ("vlc", "tlc"):
                        vals1["crc"] = 0 if isinstance(vals1["crc"], int) else "0" * len(vals1["crc"])  # the constructor computes it
                    vals2 = vary(rng, var, vals1, fix)
                    cc1, cc2 = rng.sample(range(16), 2)
                    s1, s2 = rng.sample(data, 2)
                    spec = {"mode": "history", "script": script, "kind": kname, "c03kind": src.name, "variant": var.name, "fields": vals1,
                            "fields2": vals2, "cc": cc1, "cc2": cc2, "sync": s1.name, "sync2": s2.name}
                    ctx.case(("history", json.dumps(spec, sort_keys=True)),
                             sample=spec if (kname, var.name, script) in (("csbk", "preamble", "mutate-fields"), ("rate34", "unconfirmed", "parse-mutate")) else None)
                    ctx.count(f"reuse:{script}")
                    run_history(ctx, spec, pairs_build, pairs_parse)
        # ---- rate 1 payloads are on air as they are: blocks that hold a sync pattern (any alignment, across the 96/100 gap)
        if kname == "rate1" and (tname == "unconfirmed" or ctx.thorough() or ctx.boost > 1):
            var = src.variants[0]
            dl = len(var.random_vals(rng)["data"]) // 2
            for sp_ in voice + data + other:
                for off in sorted({0, 48, 72, 8 * dl - 48} | {rng.randrange(8 * dl - 47) for _ in range(ctx.budget(1, 6))}):
                    if off < 0 or off + 48 > 8 * dl:
                        continue
                    blk = int2ba(rng.getrandbits(8 * dl), length=8 * dl)
                    blk[off:off + 48] = sp_.as_bits()
                    vals = dict(var.random_vals(rng), data=blk.tobytes().hex())
                    cc, s = rng.randrange(16), rng.choice(data)
                    ctx.case((kname, var.name, json.dumps(vals, sort_keys=True), cc, s.name))
                    ctx.count("structured:rate1-payload-holds-sync")
                    check_data(ctx, kname, dt, src, var, vals, cc, s, pairs_build, pairs_parse, bts=("D", "U"), hold=hold,
                               extra={"class": f"payload holds {sp_.name} at bit {off}"})
    if not ctx.search_only and ctx.driver_ok:
        ctx.correspond("burst.build", pairs_build)
        ctx.correspond("burst.parse(data)", pairs_parse)
    valid = [l.split(" ")[2] for l, o in pairs_parse if isinstance(o, str) and o.startswith("ok")]
    # ---- voice bursts
    pairs_voice = []
    n_sync = ctx.budget(40, 2000)
    for s in voice + other + data:
        for i in range(n_sync if s in voice else max(4, n_sync // 8)):
            v = int2ba(rng.getrandbits(216), length=216) if i > 1 else bitarray([i] * 216)
            x = voice_frame(v, s.as_bits())
            for bt in ("V", "U", "D"):
                if s in voice or (s in other and bt != "D"):
                    ctx.case(("voice-sync", s.name, bt, c03.sbits(v)), sample={"sync": s.name, "burst_type": bt, "vocoder_bits": c03.sbits(v)} if i == 2 and bt == "V" else None)
                    ctx.count(f"voice:sync:{s.name}")
                    check_voice(ctx, x, bt, f"sync {s.name}", {"mode": "voice", "bits": c03.sbits(x), "burst_type": bt}, pairs_voice, hold=hold, twice=i % 8 == 3)
                else:
                    # outside the property (data path on arbitrary bits): correspondence only
                    q, out = impl_parse(x, bt)
                    pairs_voice.append((f"burst.parse {bt} {c03.sbits(x)}", out))
    n_emb = ctx.budget(2, 60)
    for cc in range(16):
        for pi in range(2):
            for lcss in range(4):
                e16 = emb_word(cc, pi, lcss)
                for i in range(n_emb):
                    v = int2ba(rng.getrandbits(216), length=216)
                    e32 = int2ba(rng.getrandbits(32), length=32) if i else bitarray([0] * 32)
                    x = voice_frame(v, e16[:8] + e32 + e16[8:])
                    for bt in ("V", "U"):
                        ctx.case(("voice-emb", cc, pi, lcss, bt, c03.sbits(v), c03.sbits(e32)),
                                 sample={"cc": cc, "pi": pi, "lcss": lcss, "burst_type": bt, "embedded_bits": c03.sbits(e32)} if (cc, pi, lcss, i, bt) == (5, 1, 2, 1, "V") else None)
                        ctx.count("voice:emb")
                        check_voice(ctx, x, bt, f"EMB cc={cc} pi={pi} lcss={lcss}", {"mode": "voice", "bits": c03.sbits(x), "burst_type": bt}, pairs_voice, hold=hold, twice=i == 1)
                    # announced as data: outside the property, correspondence only
                    if i == 0:
                        q, out = impl_parse(x, "D")
                        pairs_voice.append((f"burst.parse D {c03.sbits(x)}", out))
    # ---- structured voice bursts: minimal Hamming distance from every constant the parser compares the centre with
    all_syncs = voice + data + other
    values = {m.value: m for m in all_syncs}
    embs = emb_table()
    for s, (cc, pi, lcss), d, nflip, centre in near_sync_centres(rng, ctx.budget(8, 120), ctx.budget(0, 3) if ctx.thorough() else 0):
        v = int2ba(rng.getrandbits(216), length=216)
        x = voice_frame(v, centre)
        dist = hd(centre, s.as_bits())
        for bt in ("V", "U") if (nflip == 0 or dist <= 4) else (rng.choice("VU"),):
            ctx.case(("voice-near-sync", s.name, cc, pi, lcss, bt, c03.sbits(x)),
                     sample={"class": "EMB centre nearest to a sync", "sync": s.name, "cc": cc, "pi": pi, "lcss": lcss, "distance": dist, "burst_type": bt,
                             "centre": c03.sbits(centre)} if (nflip, bt) == (0, "V") and dist <= 2 else None)
            ctx.count(f"structured:emb-centre-near-sync:distance={dist if dist < 6 else '6+'}")
            check_voice(ctx, x, bt, f"EMB cc={cc} pi={pi} lcss={lcss}, centre {dist} bits from {s.name}",
                        {"mode": "voice", "bits": c03.sbits(x), "burst_type": bt, "class": f"valid EMB centre {dist} bits from sync {s.name}",
                         "emb": [cc, pi, lcss]}, pairs_voice, hold=hold)
    # the centre lookup itself on a much wider structured set; whatever it does not send to EmbeddedSignalling is a voice burst with
    # valid EMB taken for a sync burst: promoted to the full check (concrete failing burst)
    pairs_resolve, promoted = [], 0
    for k, (s, (cc, pi, lcss), c) in enumerate(resolve_screen_centres(rng, ctx.budget(300, 4960))):
        r, err = call(SP.resolve_bytes, c.to_bytes(6, "big"))
        out = err or ("EMB" if r.value < 0 else str(r.value))
        ctx.count("structured:centre-lookup-screen")
        if k % 4 == 0 or out != "EMB":
            pairs_resolve.append((f"sync.resolve {c}", out))
        if out != "EMB" and c not in values and promoted < 64:
            promoted += 1
            ctx.count("structured:centre-lookup-screen:promoted")
            centre = int2ba(c, length=48)
            x = voice_frame(int2ba(rng.getrandbits(216), length=216), centre)
            for bt in ("V", "U"):
                ctx.case(("voice-screen", bt, c03.sbits(x)))
                check_voice(ctx, x, bt, f"EMB cc={cc} pi={pi} lcss={lcss}, centre {hd(centre, s.as_bits())} bits from {s.name} (found by the lookup screen)",
                            {"mode": "voice", "bits": c03.sbits(x), "burst_type": bt, "class": f"valid EMB centre resolved to {out} by SyncPatterns.resolve_bytes",
                             "emb": [cc, pi, lcss]}, pairs_voice)
    for s in all_syncs:  # the patterns and all their single-bit neighbours (not valid EMB: correspondence only)
        for c in [s.value] + [s.value ^ (1 << i) for i in range(48)]:
            r, err = call(SP.resolve_bytes, c.to_bytes(6, "big"))
            pairs_resolve.append((f"sync.resolve {c}", err or ("EMB" if r.value < 0 else str(r.value))))
            if c != s.value:
                x = voice_frame(int2ba(rng.getrandbits(216), length=216), int2ba(c, length=48))
                bt = rng.choice("DVU")
                q, out = impl_parse(x, bt)
                pairs_voice.append((f"burst.parse {bt} {c03.sbits(x)}", out))
    # sync patterns inside the vocoder bits (a parser that searches for the sync must not find these)
    for sp_ in all_syncs:
        for off in (0, 29, 60, 108, 139, 168):
            for kind in ("sync", "emb"):
                v = int2ba(rng.getrandbits(216), length=216)
                v[off:off + 48] = sp_.as_bits()
                if kind == "sync":
                    centre, what = rng.choice(voice).as_bits(), "voice sync"
                else:
                    cc, pi, lcss, e16 = rng.choice(embs)
                    centre, what = e16[:8] + int2ba(rng.getrandbits(32), length=32) + e16[8:], f"EMB cc={cc} pi={pi} lcss={lcss}"
                x = voice_frame(v, centre)
                for bt in ("V", "U"):
                    ctx.case(("voice-sync-in-vocoder", bt, c03.sbits(x)))
                    ctx.count("structured:sync-pattern-inside-vocoder-bits")
                    check_voice(ctx, x, bt, f"{what}, vocoder bits hold {sp_.name} at {off}",
                                {"mode": "voice", "bits": c03.sbits(x), "burst_type": bt, "class": f"vocoder bits hold {sp_.name} at offset {off}"}, pairs_voice, hold=hold)
    # a sync pattern a few bits off the centre of a voice burst with valid EMB (a parser that tolerates timing offsets must not lock on it)
    for sp_, k, (cc, pi, lcss), miss, x in shifted_sync_frames(rng, [k for k in range(-12, 13) if k], ctx.budget(2, 6) // ctx.boost or 1):
        for bt in ("V", "U"):
            ctx.case(("voice-shifted-sync", bt, c03.sbits(x)))
            ctx.count("structured:sync-pattern-shifted-off-centre")
            check_voice(ctx, x, bt, f"EMB cc={cc} pi={pi} lcss={lcss}, {sp_.name} {k:+d} bits off the centre ({miss} EMB bits disagree)",
                        {"mode": "voice", "bits": c03.sbits(x), "burst_type": bt, "class": f"{sp_.name} shifted {k:+d} bits off the centre", "emb": [cc, pi, lcss]}, pairs_voice, hold=hold)
    # the EMB object of a parse result changed in place; second parse of the same octets
    for cc, pi, lcss, e16 in embs[:: ctx.budget(4, 1) // ctx.boost or 1]:
        x = voice_frame(int2ba(rng.getrandbits(216), length=216), e16[:8] + int2ba(rng.getrandbits(32), length=32) + e16[8:])
        bt = rng.choice("VU")
        ctx.case(("voice-emb-reuse", bt, c03.sbits(x)))
        ctx.count("reuse:voice-emb-object-changed-in-place")
        voice_emb_reuse(ctx, x, bt, rng.choice(embs), {"mode": "voice", "bits": c03.sbits(x), "burst_type": bt})
    # valid slot type words (every colour code x every data type member) at the slot type positions of a voice burst
    for cc_ in range(16):
        for dtm in DT:
            w, err = call(lambda: ST(colour_code=cc_, data_type=dtm).as_bits())
            if err:
                continue
            v = int2ba(rng.getrandbits(216), length=216)
            v[98:118] = w
            if (cc_ + dtm.value) % 2:
                centre, what = rng.choice(voice).as_bits(), "voice sync"
            else:
                cc, pi, lcss, e16 = rng.choice(embs)
                centre, what = e16[:8] + int2ba(rng.getrandbits(32), length=32) + e16[8:], f"EMB cc={cc} pi={pi} lcss={lcss}"
            x = voice_frame(v, centre)
            for bt in ("V", "U"):
                ctx.case(("voice-slot-type-in-vocoder", bt, c03.sbits(x)))
                ctx.count("structured:slot-type-word-inside-voice-burst")
                check_voice(ctx, x, bt, f"{what}, slot type positions hold the word of cc={cc_} {dtm.name}",
                            {"mode": "voice", "bits": c03.sbits(x), "burst_type": bt, "class": f"slot type positions hold SlotType({cc_}, {dtm.name})"}, pairs_voice, hold=hold)
    # ---- the objects held since the beginning of the run
    hold.verify(ctx)
    if not ctx.search_only and ctx.driver_ok:
        ctx.correspond("burst.parse(voice)", pairs_voice)
        ctx.correspond("sync.resolve", pairs_resolve)
    # ---- arbitrary and corrupted bursts, slot type and EMB words: correspondence only
    if not ctx.search_only and ctx.driver_ok:
        pairs_rand = []
        for _ in range(ctx.budget(400, 20000)):
            x = int2ba(rng.getrandbits(264), length=264)
            r = rng.random()
            if r < 0.5:
                x[108:156] = rng.choice(data).as_bits()
            elif r < 0.6:
                x[108:156] = rng.choice(voice + other).as_bits()
            bt = rng.choice("DVU")
            ctx.case(("random", bt, c03.sbits(x)), nontrivial=True)
            q, out = impl_parse(x, bt)
            pairs_rand.append((f"burst.parse {bt} {c03.sbits(x)}", out))
            ctx.count("random:" + (out if out.startswith("ERR") else "ok"))
        for xs in rng.sample(valid, min(len(valid), ctx.budget(300, 10000))):
            x = bitarray(xs)
            for _ in range(rng.randrange(1, 4)):
                x.invert(rng.randrange(264))
            bt = rng.choice("DVU")
            ctx.case(("corrupted", bt, c03.sbits(x)), nontrivial=True)
            q, out = impl_parse(x, bt)
            pairs_rand.append((f"burst.parse {bt} {c03.sbits(x)}", out))
            ctx.count("corrupted:" + (out if out.startswith("ERR") else "ok"))
        ctx.correspond("burst.parse(random)", pairs_rand)
        pairs_se = []
        words = range(2**16) if ctx.thorough() else sorted({rng.randrange(2**16) for _ in range(1500)} | {0, 1, 2**16 - 1})
        for w in words:
            b = int2ba(w, length=16)
            o, err = call(EMB.from_bits, bitarray(b))
            pairs_se.append((f"emb.dec {b.to01()}", err or f"ok {o.colour_code},{o.preemption_and_power_control_indicator.value},{o.link_control_start_stop.value},{o.emb_parity} {o.as_bits().to01()}"))
        words = [rng.randrange(2**20) for _ in range(ctx.budget(1500, 60000))] + [0, 1, 2**20 - 1] + [d << 12 for d in range(256)]
        for w in words:
            b = int2ba(w, length=20)
            o, err = call(ST.from_bits, bitarray(b))
            pairs_se.append((f"slot.dec {b.to01()}", err or f"ok {o.colour_code},{o.data_type.value},{o.fec_parity} {o.as_bits().to01()}"))
        ctx.correspond("slot/emb", pairs_se)


def replay(obj):
    f = obj.get("failure") or {}
    inp = f.get("input") or {}
    print(json.dumps(obj.get("type")), f.get("what"))
    if not inp:
        print("no failing input recorded (proof / correspondence broke):", json.dumps(obj.get("no_longer_checks") or obj.get("correspondence_differences"))[:2000])
        return 1
    Burst, BT, DT, SP, ST, EMB = lib()
    payload_text.kinds = {k.name: k for k in c03.kinds()}
    r = c03.ReplayCtx()
    pairs = []
    h = Hold(1, 16)
    if inp.get("mode") == "data":
        srcs = {(k, s.name): (k, dt, s, t) for k, dt, s, t in payload_sources()}
        kname, dt, src, _ = srcs[(inp["kind"], inp["c03kind"])]
        var = next(v for v in src.variants if v.name == inp["variant"])
        pb = []
        check_data(r, kname, dt, src, var, inp["fields"], inp["cc"], SP[inp["sync"]], pb, pairs, bts=("D", "V", "U"), hold=h)
        pairs = pb + pairs
    elif inp.get("mode") == "voice":
        check_voice(r, bitarray(inp["bits"]), inp["burst_type"], "replay", inp, pairs, hold=h, twice=True)
        if "emb2" in inp:
            voice_emb_reuse(r, bitarray(inp["bits"]), inp["burst_type"], tuple(inp["emb2"]) + (emb_word(*inp["emb2"]),),
                            {k: v for k, v in inp.items() if k not in ("emb2", "history")})
    elif inp.get("mode") == "history":
        pb = []
        run_history(r, {k: v for k, v in inp.items() if k != "step"}, pb, pairs)
        pairs = pb + pairs
    if h.items:
        # objects held while other bursts are parsed and serialised, then looked at again
        import random

        rr = random.Random(0)
        for _ in range(200):
            call(lambda: Burst.from_bytes(rr.getrandbits(264).to_bytes(33, "big"), rr.choice(list(BT))).as_bytes())
        h.verify(r)
    for line, out in pairs:
        print("model line    :", line[:400])
        print("implementation:", out[:700])
        print("model         :", c03.model_says(PROP, line)[:700])
    for kind, what, exp, act in r.failures:
        print("STILL FAILS:", kind, what, "expected:", exp, "actual:", act)
    if not r.failures:
        print("the recorded input no longer fails on this tree")
    return 1 if r.failures else 0
